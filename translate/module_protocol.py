"""Gen/ModuleProtocol.lean: the default-module caching protocol and the writes to shared objects on the render path.
READ from environment.py (Python ast, no regex).

  * the body of Template._get_default_module_async, statement by statement (ast.unparse, docstring dropped)
  * whether an `await` stands between the assignment of `self._module` and `return self._module`
  * attributes of `self` assigned in methods of Template (Template objects are shared by concurrent renders)
  * attributes of `self` assigned (or subscript-assigned) in the Environment methods a render can reach
  * for Macro, Context, TemplateModule, TemplateExpression (objects reachable from a cached module, shared by all renders):
    every assignment to / in-place mutation of an attribute of self outside __init__
  * render_async / generate_async create their Context from the call's arguments (`self.new_context(dict(*args, **kwargs))`)
"""
from __future__ import annotations

import ast

from .common import HEADER, Untranslatable, find_class, llist, lstr, parse

RENDER_PATH = ["get_template", "select_template", "get_or_select_template", "_load_template", "join_path", "getitem", "getattr",
               "call_filter", "call_test", "_filter_test_common", "handle_exception", "make_globals", "iter_extensions",
               "_generate", "_compile", "compile", "_parse", "parse", "_tokenize", "preprocess", "lex"]


def method(cls, name):
    for n in cls.body:
        if isinstance(n, (ast.FunctionDef, ast.AsyncFunctionDef)) and n.name == name:
            return n
    raise Untranslatable(f"{cls.name}.{name} not found")


def body_lines(fn):
    body = fn.body
    if body and isinstance(body[0], ast.Expr) and isinstance(body[0].value, ast.Constant) and isinstance(body[0].value.value, str):
        body = body[1:]
    out = []
    for st in body:
        out += ast.unparse(st).split("\n")
    return out


def self_writes(fn):
    """attributes X of `self` that are assigned: self.X = …, self.X op= …, self.X[…] = …, del self.X"""
    out = []

    def target(t):
        if isinstance(t, ast.Attribute) and isinstance(t.value, ast.Name) and t.value.id == "self":
            out.append(t.attr)
        elif isinstance(t, ast.Subscript):
            v = t.value
            if isinstance(v, ast.Attribute) and isinstance(v.value, ast.Name) and v.value.id == "self":
                out.append(v.attr + "[]")
        elif isinstance(t, (ast.Tuple, ast.List)):
            for e in t.elts:
                target(e)

    for n in ast.walk(fn):
        if isinstance(n, ast.Assign):
            for t in n.targets:
                target(t)
        elif isinstance(n, (ast.AugAssign, ast.AnnAssign)):
            target(n.target)
        elif isinstance(n, ast.Delete):
            for t in n.targets:
                target(t)
    return sorted(set(out))


MUTATORS = {"append", "extend", "pop", "update", "setdefault", "add", "discard", "remove", "clear", "insert", "popitem",
            "difference_update", "appendleft", "sort", "reverse"}

# classes whose instances are reachable from a cached default module (Template._module) and therefore shared by every
# render on the environment: the module object, its macros, the context the module body was rendered in
SHARED_CLASSES = [("runtime", "Macro"), ("runtime", "Context"), ("environment", "TemplateModule"),
                  ("environment", "TemplateExpression")]


def self_mutations(fn):
    """`self.X.<mutator>(…)` calls: in-place changes of a container held by self"""
    out = []
    for n in ast.walk(fn):
        if isinstance(n, ast.Call) and isinstance(n.func, ast.Attribute) and n.func.attr in MUTATORS:
            v = n.func.value
            if isinstance(v, ast.Attribute) and isinstance(v.value, ast.Name) and v.value.id == "self":
                out.append(f"{v.attr}.{n.func.attr}()")
    return sorted(set(out))


def shared_class_writes():
    """[(class, ["method:attribute", …])] — every assignment to / in-place mutation of an attribute of self in a method
    other than __init__ / __new__"""
    out = []
    for mod, cname in SHARED_CLASSES:
        cls = find_class(parse(mod), cname)
        ws = []
        for m in cls.body:
            if isinstance(m, (ast.FunctionDef, ast.AsyncFunctionDef)) and m.name not in ("__init__", "__new__"):
                for a in self_writes(m) + self_mutations(m):
                    ws.append(f"{m.name}:{a}")
        out.append((cname, ws))
    return out


def _writeline_text(call):
    """the (unparsed) text argument of a `self.writeline(…)` call, or None"""
    if (isinstance(call, ast.Call) and isinstance(call.func, ast.Attribute) and call.func.attr == "writeline"
            and isinstance(call.func.value, ast.Name) and call.func.value.id == "self" and call.args):
        a = call.args[0]
        if isinstance(a, ast.Constant) and isinstance(a.value, str):
            return a.value
        return ast.unparse(a)
    return None


def local_vars_inits():
    """where compiler.py writes the per-call dictionaries `_block_vars = {}` / `_loop_vars = {}` that Context.call hands to
    context-aware callables: [(visitor method, text, [enclosing for/if/while headers inside the method])], and every line
    visit_Template writes at MODULE level of the generated code (before the root function is opened and after the last
    block function): nothing mutable may live there, the module is shared by every render of the template."""
    tree = parse("compiler")
    cg = find_class(tree, "CodeGenerator")
    inits = []

    def walk(node, chain, mname):
        for child in ast.iter_child_nodes(node):
            if isinstance(child, (ast.FunctionDef, ast.AsyncFunctionDef, ast.Lambda)) and child is not node:
                continue
            txt = _writeline_text(child) if isinstance(child, ast.Call) else None
            if txt is not None and ("_block_vars =" in txt or "_loop_vars =" in txt):
                inits.append((mname, txt, list(chain)))
            if isinstance(child, ast.If):
                for sub in child.body:
                    walk_stmt(sub, chain + ["if " + ast.unparse(child.test)], mname)
                for sub in child.orelse:
                    walk_stmt(sub, chain + ["else of if " + ast.unparse(child.test)], mname)
                walk(child.test, chain, mname)
            elif isinstance(child, (ast.For, ast.While)):
                head = ("for " + ast.unparse(child.target) + " in " + ast.unparse(child.iter)) if isinstance(child, ast.For) \
                    else "while " + ast.unparse(child.test)
                for sub in child.body + child.orelse:
                    walk_stmt(sub, chain + [head], mname)
            else:
                walk(child, chain, mname)

    def walk_stmt(st, chain, mname):
        holder = ast.Module(body=[st], type_ignores=[])
        walk(holder, chain, mname)

    for m in cg.body:
        if isinstance(m, ast.FunctionDef):
            for st in m.body:
                walk_stmt(st, [], m.name)
    # module-level lines of visit_Template: every writeline (also inside if/for) in the statements BEFORE the one that opens
    # the root function, and the top-level writelines after the loop that writes the block functions
    vt = method(cg, "visit_Template")
    module_level = []
    seen_root = False
    after_blocks = False
    for st in vt.body:
        texts = [(_writeline_text(n)) for n in ast.walk(st) if isinstance(n, ast.Call) and _writeline_text(n) is not None]
        if not seen_root:
            if any("self.func('root')" in t for t in texts):
                seen_root = True
                continue
            prefix = "" if isinstance(st, ast.Expr) else "[" + type(st).__name__.lower() + "] "
            module_level += [prefix + t for t in texts]
        elif isinstance(st, ast.For) and "self.blocks" in ast.unparse(st.iter):
            after_blocks = True
        elif after_blocks and isinstance(st, ast.Expr):
            module_level += texts
    if not seen_root:
        raise Untranslatable("visit_Template: the statement opening the root function was not found")
    return inits, module_level


def gen():
    tree = parse("environment")
    tcls = find_class(tree, "Template")
    ecls = find_class(tree, "Environment")
    gdm = method(tcls, "_get_default_module_async")
    if not isinstance(gdm, ast.AsyncFunctionDef):
        raise Untranslatable("_get_default_module_async is not async")
    lines = body_lines(gdm)
    # an await between `self._module = …` and the `return self._module` that follows it?
    flat = [st for st in ast.walk(gdm) if isinstance(st, ast.stmt)]
    await_between = False
    seen_assign = False
    for st in gdm.body:
        if isinstance(st, ast.If) and any(isinstance(x, ast.Assign) and "_module" in ast.unparse(x.targets[0]) for x in st.body):
            seen_assign = True
            # statements after the assignment inside the if
            idx = max(i for i, x in enumerate(st.body) if isinstance(x, ast.Assign) and "_module" in ast.unparse(x.targets[0]))
            for later in st.body[idx + 1:]:
                if any(isinstance(n, ast.Await) for n in ast.walk(later)):
                    await_between = True
        elif seen_assign and not isinstance(st, ast.Return):
            if any(isinstance(n, ast.Await) for n in ast.walk(st)):
                await_between = True
        elif seen_assign and isinstance(st, ast.Return):
            if any(isinstance(n, ast.Await) for n in ast.walk(st)):
                await_between = True
            break
    del flat
    twrites = []
    for m in tcls.body:
        if isinstance(m, (ast.FunctionDef, ast.AsyncFunctionDef)):
            for a in self_writes(m):
                twrites.append(f"{m.name}:{a}")
    ewrites = []
    for name in RENDER_PATH:
        try:
            m = method(ecls, name)
        except Untranslatable:
            continue
        for a in self_writes(m):
            ewrites.append(f"{name}:{a}")
    fresh_ctx = []
    for name in ("render_async", "generate_async"):
        src = ast.unparse(method(tcls, name))
        fresh_ctx.append("ctx = self.new_context(dict(*args, **kwargs))" in src)
    L = [HEADER, "namespace JinjaV.Gen.ModuleProtocol\n",
         "-- READ: body of Template._get_default_module_async (environment.py), one unparsed line per entry",
         "def getDefaultModuleAsync : List String := " + llist("\n  " + lstr(x) for x in lines) + "\n",
         "-- READ: is there an await between `self._module = …` and `return self._module`",
         f"def awaitBetweenAssignAndReturn : Bool := {'true' if await_between else 'false'}\n",
         "-- READ: `method:attribute` for every assignment to an attribute of self in a method of Template",
         f"def templateSelfWrites : List String := {llist(map(lstr, twrites))}\n",
         "-- READ: `method:attribute` for every assignment to an attribute of self in the Environment methods a render can reach",
         f"def environmentRenderPathSelfWrites : List String := {llist(map(lstr, ewrites))}\n",
         "-- READ: `method:attribute` for every assignment to / in-place mutation of an attribute of self outside __init__ in the",
         "-- classes whose instances hang off a cached default module and are therefore shared by all renders on the environment",
         "def sharedObjectSelfWrites : List (String × List String) := " + llist(
             f"\n  ({lstr(c)}, {llist(map(lstr, ws))})" for c, ws in shared_class_writes()) + "\n",
         "-- READ (compiler.py): every place that writes `_block_vars = …` / `_loop_vars = …` into generated code:",
         "-- (visitor method, text written, enclosing for/if headers inside the method)",
         "def localVarsInits : List (String × String × List String) := " + llist(
             f"\n  ({lstr(m)}, {lstr(t)}, {llist(map(lstr, ch))})" for m, t, ch in local_vars_inits()[0]) + "\n",
         "-- READ (compiler.py visit_Template): the lines written at module level of the generated code, before the root",
         "-- function is opened (a module is shared by every render of the template)",
         "def moduleLevelLinesBeforeRoot : List String := " + llist("\n  " + lstr(x) for x in local_vars_inits()[1]) + "\n",
         "-- READ: render_async and generate_async build their Context from the call's own arguments",
         f"def rendersCreateFreshContext : Bool := {'true' if all(fresh_ctx) else 'false'}\n",
         "end JinjaV.Gen.ModuleProtocol\n"]
    return "ModuleProtocol.lean", "\n".join(L)
