"""Gen/LexerKey.lean: the environment attributes in get_lexer's cache key, and the environment attributes the
lexer construction reads (Lexer.__init__, compile_rules).  READ from lexer.py."""
from __future__ import annotations

import ast

from .common import HEADER, Untranslatable, find_class, find_func, llist, lstr, parse


def env_attrs(node, name="environment"):
    out = []
    for n in ast.walk(node):
        if isinstance(n, ast.Attribute) and isinstance(n.value, ast.Name) and n.value.id == name:
            if n.attr not in out:
                out.append(n.attr)
    return out


def gen():
    tree = parse("lexer")
    gl = find_func(tree, "get_lexer")
    key = None
    for st in gl.body:
        if isinstance(st, ast.Assign) and isinstance(st.targets[0], ast.Name) and st.targets[0].id == "key":
            if not isinstance(st.value, ast.Tuple):
                raise Untranslatable("get_lexer key is not a tuple literal")
            key = []
            for e in st.value.elts:
                if not (isinstance(e, ast.Attribute) and isinstance(e.value, ast.Name) and e.value.id == "environment"):
                    raise Untranslatable(f"key element {ast.unparse(e)}")
                key.append(e.attr)
    if key is None:
        raise Untranslatable("get_lexer: no key assignment")
    # the cache protocol: lexer = _lexer_cache.get(key); if lexer is None: _lexer_cache[key] = lexer = Lexer(environment)
    src = " ".join(ast.unparse(s) for s in gl.body[1:] if not (isinstance(s, ast.Expr) and isinstance(s.value, ast.Constant)))
    shape_ok = ("lexer = _lexer_cache.get(key)" in src and "if lexer is None" in src
                and "_lexer_cache[key] = lexer = Lexer(environment)" in src and src.rstrip().endswith("return lexer"))
    # nothing but key, the cache and the constructor may be involved
    other = [a for a in env_attrs(gl) if a not in key]
    lexer_cls = find_class(tree, "Lexer")
    init = find_func(lexer_cls, "__init__")
    reads = env_attrs(init)
    calls_compile_rules = any(isinstance(n, ast.Call) and isinstance(n.func, ast.Name) and n.func.id == "compile_rules"
                              for n in ast.walk(init))
    if calls_compile_rules:
        for a in env_attrs(find_func(tree, "compile_rules")):
            if a not in reads:
                reads.append(a)
    # does the lexer keep a reference to the environment itself?
    keeps_env = any(isinstance(n, ast.Assign) and any(isinstance(t, ast.Attribute) and isinstance(t.value, ast.Name)
                    and t.value.id == "self" for t in n.targets) and isinstance(n.value, ast.Name) and n.value.id == "environment"
                    for n in ast.walk(init))
    # how Environment exposes the lexer: a plain property calling get_lexer(self)
    etree = parse("environment")
    ecls = find_class(etree, "Environment")
    lexer_prop = find_func(ecls, "lexer")
    prop_ok = [ast.unparse(d) for d in lexer_prop.decorator_list] == ["property"] and \
        ast.unparse(lexer_prop.body[-1]) == "return get_lexer(self)"
    L = [HEADER, "namespace JinjaV.Gen.LexerKey\n",
         "-- READ: elements of the cache key tuple in get_lexer",
         f"def keyFields : List String := {llist(map(lstr, key))}\n",
         "-- READ: environment attributes read while a Lexer is constructed (Lexer.__init__ and compile_rules)",
         f"def readFields : List String := {llist(map(lstr, reads))}\n",
         "-- READ: environment attributes get_lexer touches outside the key",
         f"def extraFieldsInGetLexer : List String := {llist(map(lstr, other))}\n",
         "-- READ: get_lexer has the shape  lexer = cache.get(key); if lexer is None: cache[key] = lexer = Lexer(environment); return lexer",
         f"def cacheProtocolShape : Bool := {'true' if shape_ok else 'false'}\n",
         "-- READ: the Lexer object keeps no reference to the environment it was built from",
         f"def lexerKeepsEnvironment : Bool := {'true' if keeps_env else 'false'}\n",
         "-- READ: Environment.lexer is a plain property returning get_lexer(self) (nothing memoised on the instance)",
         f"def lexerIsPlainProperty : Bool := {'true' if prop_ok else 'false'}\n",
         "def unkeyedReads : List String := readFields.filter (fun f => !keyFields.contains f)\n",
         "end JinjaV.Gen.LexerKey\n"]
    return "LexerKey.lean", "\n".join(L)
