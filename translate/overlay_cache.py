"""Gen/OverlayCache.lean: an overlay environment starts with a NEW, EMPTY template cache.

READ with Python `ast` from environment.py:
  * `copy_cache`: every `return` with the condition it stands under; a return value is classified as `none` (`None`), `emptyDict`
    (`{}`), `emptyLRU` (`LRUCache(cache.capacity)`: a new cache of the same capacity) or `other:<text>` (anything else, e.g.
    `cache.copy()` or `cache` itself, which would carry the parent's compiled templates into the overlay)
  * `create_cache`: the same classification (`LRUCache(size)` is `emptyLRU`)
  * `Environment.overlay`: the statements that assign `rv.cache` — they must be exactly `create_cache(cache_size)` and
    `copy_cache(self.cache)` (the `rv.__dict__.update(self.__dict__)` before them copies the parent's cache reference, which one of
    the two assignments always overwrites: they are the two arms of one if/else)
The compile-time escaping decision is baked into a cached template and the cache key is (loader, name) only; an overlay that changes
`autoescape` is therefore only correct if it never sees the parent's entries (C15 `overlay_cache_fresh`).
"""
from __future__ import annotations

import ast

from .common import HEADER, Untranslatable, find_class, find_func, llist, lstr, parse


def classify(v):
    t = " ".join(ast.unparse(v).split())
    if t == "None":
        return "none"
    if t == "{}":
        return "emptyDict"
    if t in ("LRUCache(cache.capacity)", "LRUCache(size)"):
        return "emptyLRU"
    return "other:" + t


def returns_of(fn):
    out = []

    def walk(stmts, cond):
        for st in stmts:
            if isinstance(st, ast.Return):
                if st.value is None:
                    raise Untranslatable(f"{fn.name}: bare return")
                out.append((cond, classify(st.value)))
            elif isinstance(st, ast.If):
                c = " ".join(ast.unparse(st.test).split())
                walk(st.body, (cond + " and " if cond else "") + c)
                walk(st.orelse, (cond + " and " if cond else "") + f"not ({c})")
            elif isinstance(st, ast.Expr) and isinstance(st.value, ast.Constant):
                continue
            else:
                raise Untranslatable(f"{fn.name}: statement {ast.unparse(st)[:60]}")

    walk(fn.body, "")
    return out


def gen():
    tree = parse("environment")
    cc = returns_of(find_func(tree, "copy_cache"))
    cr = returns_of(find_func(tree, "create_cache"))
    ov = find_func(find_class(tree, "Environment"), "overlay")
    assigns = []
    arms_ok = False
    for n in ast.walk(ov):
        if isinstance(n, ast.Assign) and any(ast.unparse(t) == "rv.cache" for t in n.targets):
            assigns.append(" ".join(ast.unparse(n.value).split()))
        if isinstance(n, ast.If) and len(n.body) == 1 and len(n.orelse) == 1:
            a, b = n.body[0], n.orelse[0]
            if all(isinstance(x, ast.Assign) and [ast.unparse(t) for t in x.targets] == ["rv.cache"] for x in (a, b)):
                arms_ok = True
    row = lambda r: f"({lstr(r[0])}, {lstr(r[1])})"  # noqa: E731
    L = [HEADER, "namespace JinjaV.Gen.OverlayCache\n",
         "-- READ copy_cache: (condition, kind of value returned)",
         "def copyCacheReturns : List (String × String) := " + llist(map(row, cc)),
         "-- READ create_cache",
         "def createCacheReturns : List (String × String) := " + llist(map(row, cr)),
         "-- READ Environment.overlay: the values assigned to rv.cache",
         "def overlayCacheAssignments : List String := " + llist(map(lstr, assigns)),
         "-- READ Environment.overlay: the assignments to rv.cache are the two arms of one if/else (one of them always runs)",
         f"def overlayCacheAlwaysAssigned : Bool := {'true' if arms_ok else 'false'}\n",
         "end JinjaV.Gen.OverlayCache\n"]
    return "OverlayCache.lean", "\n".join(L)
