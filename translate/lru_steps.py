"""Gen/LRUSteps.lean: for each LRUCache method, where it touches the shared state
(`_mapping`, `_queue` and the bound-method aliases made in `_postinit`) relative to
`with self._wlock:` blocks.  READ from utils.py."""
from __future__ import annotations

import ast

from .common import HEADER, Untranslatable, find_class, lbool, llist, lstr, parse

SHARED = {"_mapping", "_queue"}


def _aliases(cls):
    """attributes assigned in _postinit from self._queue.<m> count as shared"""
    al = set()
    for fn in cls.body:
        if isinstance(fn, ast.FunctionDef) and fn.name == "_postinit":
            for st in ast.walk(fn):
                if isinstance(st, ast.Assign) and isinstance(st.value, ast.Attribute):
                    v = st.value.value
                    if isinstance(v, ast.Attribute) and isinstance(v.value, ast.Name) and v.value.id == "self" \
                            and v.attr in SHARED:
                        for t in st.targets:
                            if isinstance(t, ast.Attribute):
                                al.add(t.attr)
    return al


def _is_lock_with(node):
    if not isinstance(node, ast.With) or len(node.items) != 1:
        return False
    e = node.items[0].context_expr
    return isinstance(e, ast.Attribute) and isinstance(e.value, ast.Name) and e.value.id == "self" and e.attr == "_wlock"


def analyse(fn, shared):
    outside = False
    blocks = 0
    calls = []

    def visit(node, locked):
        nonlocal outside, blocks
        if _is_lock_with(node):
            blocks += 1
            for b in node.body:
                visit(b, True)
            return
        if isinstance(node, ast.Attribute) and isinstance(node.value, ast.Name) and node.value.id == "self":
            if node.attr in shared and not locked:
                outside = True
        if isinstance(node, ast.Subscript) and isinstance(node.value, ast.Name) and node.value.id == "self":
            calls.append({ast.Load: "__getitem__", ast.Store: "__setitem__", ast.Del: "__delitem__"}[type(node.ctx)])
        if isinstance(node, ast.Call) and isinstance(node.func, ast.Attribute) \
                and isinstance(node.func.value, ast.Name) and node.func.value.id == "self" \
                and node.func.attr not in shared:
            calls.append(node.func.attr)
        if isinstance(node, ast.Call) and isinstance(node.func, ast.Name) and node.func.id in (
                "list", "tuple", "iter", "reversed", "len") and node.args \
                and isinstance(node.args[0], ast.Name) and node.args[0].id == "self":
            calls.append({"list": "__iter__", "tuple": "__iter__", "iter": "__iter__", "reversed": "__reversed__",
                          "len": "__len__"}[node.func.id])
        for ch in ast.iter_child_nodes(node):
            visit(ch, locked)

    for st in fn.body:
        visit(st, False)
    return outside, blocks, calls


def gen():
    cls = find_class(parse("utils"), "LRUCache")
    shared = SHARED | _aliases(cls)
    rows = []
    for fn in cls.body:
        if isinstance(fn, ast.FunctionDef):
            outside, blocks, calls = analyse(fn, shared)
            rows.append((fn.name, outside, blocks, calls))
    for st in cls.body:  # aliases like __copy__ = copy
        if isinstance(st, ast.Assign) and isinstance(st.value, ast.Name):
            for r in list(rows):
                if r[0] == st.value.id:
                    for t in st.targets:
                        if isinstance(t, ast.Name):
                            rows.append((t.id,) + r[1:])
    if not rows:
        raise Untranslatable("LRUCache has no methods")
    body = ",\n".join(
        f"  {{ name := {lstr(n)}, sharedOutside := {lbool(o)}, lockBlocks := {b}, selfCalls := {llist(map(lstr, c))} }}"
        for n, o, b, c in rows)
    return "LRUSteps.lean", HEADER + f"""namespace JinjaV.Gen.LRUSteps

structure Method where
  name : String
  sharedOutside : Bool      -- touches _mapping/_queue (or an alias) outside `with self._wlock`
  lockBlocks : Nat          -- number of `with self._wlock` blocks
  selfCalls : List String   -- other LRUCache methods invoked on self
  deriving Repr

def methods : List Method := [
{body}
]

def find (n : String) : Option Method := methods.find? (fun m => m.name == n)

def direct (m : Method) : Bool := !m.sharedOutside && m.lockBlocks == 1 && m.selfCalls.isEmpty

/-- one critical section containing every shared access, possibly reached through a
    single delegating call -/
def lockAtomic (n : String) : Bool :=
  match find n with
  | none => false
  | some m =>
    direct m ||
      (!m.sharedOutside && m.lockBlocks == 0 &&
        match m.selfCalls with
        | [c] => (match find c with | some m' => direct m' | none => false)
        | _ => false)

/-- counterexample finder for `concurrent_methods_locked` -/
def notLocked (ns : List String) : List String := ns.filter (fun n => !lockAtomic n)

end JinjaV.Gen.LRUSteps
"""
