"""Gen/AccessPaths.lean: the *whole bodies* of the lookup methods of the sandbox, translated from the source.

READ (Python `ast`), every statement of
  * sandbox.py   SandboxedEnvironment.getitem / getattr / unsafe_undefined / wrap_str_format,
                 SandboxedFormatter.__init__ / get_field, the class headers of the formatter classes,
                 (and that ImmutableSandboxedEnvironment overrides none of them)
  * environment.py  Environment.getitem / getattr   (what a delegation to `super()` reaches)

`getitem`/`getattr` become total decision functions `World → Outcome`.  A `World` fixes everything the body can
observe: the kind of the subscript/attribute argument (exact `str`, `str` subclass such as Markup, `int`, other), how
`obj[argument]` ends, how `getattr(obj, name)` ends, whether `wrap_str_format(value)` recognises a bound
`str.format`/`format_map`, and what `is_safe_attribute(obj, name, value)` answers.  Every early return, every
`isinstance`/`type(...) is` test on the argument, every `try/except/else`, every delegation to `super()` is represented;
anything outside the subset raises `Untranslatable` (a broken tie).  The theorems of Props/C17.lean ("the raw attribute
value is returned only after is_safe_attribute said yes and wrap_str_format said no") are re-proved over the
regenerated functions by evaluation on all worlds.

Statement subset of getitem/getattr
  docstring | pass | raise … (outside try) | if/elif/else | try/except[/else] (no finally) |
  NAME = str(KEY) | NAME = obj[KEY] | NAME = getattr(obj, KEY) | NAME = self.wrap_str_format(ATTRVALUE) |
  return obj[KEY] | return getattr(obj, KEY) | return NAME | return self.undefined(obj=obj, name=KEY) |
  return self.unsafe_undefined(obj, KEY) | return super().getitem/getattr(obj, KEY)
conditions
  isinstance(KEY, str) | type(KEY) is [not] str | type(KEY) ==/!= str | FMT is [not] None |
  self.is_safe_attribute(obj, KEY, ATTRVALUE) | not / and / or
"""
from __future__ import annotations

import ast
import builtins

from .common import HEADER, Untranslatable, find_class, find_func, lbool, llist, lstr, parse
from .sandbox import dotted

# exception kinds of the model and the Python class that realises each
EXC = [("typeError", TypeError), ("keyError", KeyError), ("indexError", IndexError),
       ("attributeError", AttributeError), ("other", ValueError)]


def _strip_doc(body):
    return [s for s in body if not (isinstance(s, ast.Expr) and isinstance(s.value, ast.Constant)
                                    and isinstance(s.value.value, str))]


class Key:
    """a name bound to the subscript/attribute argument; coerced = went through str(...)"""

    def __init__(self, coerced):
        self.coerced = coerced

    def kind(self):
        return ".exactStr" if self.coerced else "w.arg"


class Val:
    def __init__(self, what):            # 'item' | 'attr' | 'fmt'
        self.what = what


class Access:
    """one lookup method → Lean term of type Outcome over `w : World`"""

    def __init__(self, fn, base_prefix):
        self.fn = fn
        a = fn.args
        if a.vararg or a.kwarg or a.kwonlyargs or a.defaults or len(a.args) != 3:
            raise Untranslatable(f"{fn.name}: signature is not (self, obj, key)")
        self.selfn, self.objn, self.keyn = (x.arg for x in a.args)
        self.base_prefix = base_prefix            # None for Environment itself

    def translate(self):
        env = {self.keyn: Key(False)}
        return self.stmts(_strip_doc(self.fn.body), env, [], None)

    # -- helpers --------------------------------------------------------------------------------
    def bad(self, node, why=""):
        raise Untranslatable(f"{self.fn.name}: {why or 'statement/expression outside the subset'}: "
                             f"{ast.unparse(node)[:90]!r} (line {getattr(node, 'lineno', '?')})")

    def is_obj(self, n):
        return isinstance(n, ast.Name) and n.id == self.objn

    def key_of(self, n, env):
        if isinstance(n, ast.Name) and isinstance(env.get(n.id), Key):
            return env[n.id]
        if isinstance(n, ast.Call) and isinstance(n.func, ast.Name) and n.func.id == "str" and len(n.args) == 1 \
                and not n.keywords and self.key_of(n.args[0], env) is not None:
            return Key(True)
        return None

    def is_self_call(self, n, name):
        return (isinstance(n, ast.Call) and isinstance(n.func, ast.Attribute) and n.func.attr == name
                and isinstance(n.func.value, ast.Name) and n.func.value.id == self.selfn)

    def op(self, n, env):
        """obj[KEY] → ('item', key) ; getattr(obj, KEY) → ('attr', key) ; else None"""
        if isinstance(n, ast.Subscript) and self.is_obj(n.value):
            k = self.key_of(n.slice, env)
            if k is None:
                self.bad(n, "subscript of obj with something that is not the argument")
            return "item", k
        if isinstance(n, ast.Call) and isinstance(n.func, ast.Name) and n.func.id == "getattr":
            if len(n.args) != 2 or n.keywords or not self.is_obj(n.args[0]):
                self.bad(n, "getattr form")
            k = self.key_of(n.args[1], env)
            if k is None:
                self.bad(n, "getattr of obj with something that is not the argument")
            return "attr", k
        return None

    def raise_(self, kind, handlers):
        """Lean term for: exception `kind` raised under the handler stack (innermost last)"""
        cls = dict(EXC)[kind]
        for i in range(len(handlers) - 1, -1, -1):
            clauses, outer = handlers[i]
            for types_, body_fn in clauses:
                if types_ is None or any(issubclass(cls, t) for t in types_):
                    return body_fn()
        return f"(.raised .{kind})"

    def do_op(self, what, key, handlers, on_ok):
        res = "w.item" if what == "item" else f"(w.attrRes {key.kind()})"
        arms = "".join(f" | .err .{k} => {self.raise_(k, handlers)}" for k, _ in EXC)
        return f"(match {res} with | .ok => {on_ok}{arms})"

    # -- conditions -----------------------------------------------------------------------------
    def cond(self, e, env):
        if isinstance(e, ast.BoolOp):
            op = " || " if isinstance(e.op, ast.Or) else " && "
            return "(" + op.join(self.cond(v, env) for v in e.values) + ")"
        if isinstance(e, ast.UnaryOp) and isinstance(e.op, ast.Not):
            return "(!" + self.cond(e.operand, env) + ")"
        if isinstance(e, ast.Constant) and isinstance(e.value, bool):
            return lbool(e.value)
        if isinstance(e, ast.Call) and isinstance(e.func, ast.Name) and e.func.id == "isinstance" and len(e.args) == 2 \
                and not e.keywords:
            k = self.key_of(e.args[0], env)
            if k is not None and isinstance(e.args[1], ast.Name) and e.args[1].id == "str":
                return f"({k.kind()}).isStr"
            self.bad(e, "isinstance test")
        if isinstance(e, ast.Compare) and len(e.ops) == 1:
            l, op, r = e.left, e.ops[0], e.comparators[0]
            # type(KEY) is str / is not str / == / !=
            if isinstance(l, ast.Call) and isinstance(l.func, ast.Name) and l.func.id == "type" and len(l.args) == 1 \
                    and isinstance(r, ast.Name) and r.id == "str":
                k = self.key_of(l.args[0], env)
                if k is None:
                    self.bad(e, "type() test of something that is not the argument")
                t = f"(({k.kind()}) == .exactStr)"
                if isinstance(op, (ast.Is, ast.Eq)):
                    return t
                if isinstance(op, (ast.IsNot, ast.NotEq)):
                    return f"(!{t})"
            # FMT is None / is not None
            if isinstance(l, ast.Name) and isinstance(env.get(l.id), Val) and env[l.id].what == "fmt" \
                    and isinstance(r, ast.Constant) and r.value is None:
                if isinstance(op, ast.IsNot):
                    return "w.isFormat"
                if isinstance(op, ast.Is):
                    return "(!w.isFormat)"
            self.bad(e, "comparison")
        if self.is_self_call(e, "is_safe_attribute"):
            if len(e.args) == 3 and not e.keywords and self.is_obj(e.args[0]) and self.key_of(e.args[1], env) is not None \
                    and isinstance(e.args[2], ast.Name) and isinstance(env.get(e.args[2].id), Val) \
                    and env[e.args[2].id].what == "attr":
                return "w.safeAttr"
            self.bad(e, "is_safe_attribute is not called as (obj, <argument>, <the attribute value>)")
        self.bad(e, "condition")

    # -- statements -----------------------------------------------------------------------------
    def ret(self, v, env, handlers):
        if v is None:
            self.bad(self.fn, "bare return")
        o = self.op(v, env)
        if o is not None:
            return self.do_op(o[0], o[1], handlers, ".item" if o[0] == "item" else ".rawAttr")
        if isinstance(v, ast.Name) and isinstance(env.get(v.id), Val):
            w = env[v.id].what
            if w == "fmt":
                return "(if w.isFormat then .fmtWrapper else .returnedNone)"
            return ".item" if w == "item" else ".rawAttr"
        if isinstance(v, ast.Constant) and v.value is None:
            return ".returnedNone"
        if self.is_self_call(v, "undefined"):
            kw = {k.arg: k.value for k in v.keywords}
            if not v.args and set(kw) == {"obj", "name"} and self.is_obj(kw["obj"]) and self.key_of(kw["name"], env):
                return ".undefined"
            self.bad(v, "self.undefined form")
        if self.is_self_call(v, "unsafe_undefined"):
            if len(v.args) == 2 and not v.keywords and self.is_obj(v.args[0]) and self.key_of(v.args[1], env):
                return ".unsafeUndefined"
            self.bad(v, "self.unsafe_undefined form")
        # delegation to the base environment
        if isinstance(v, ast.Call) and isinstance(v.func, ast.Attribute) and isinstance(v.func.value, ast.Call) \
                and isinstance(v.func.value.func, ast.Name) and v.func.value.func.id == "super" \
                and not v.func.value.args and v.func.attr in ("getitem", "getattr"):
            if self.base_prefix is None:
                self.bad(v, "super() in the base environment")
            if len(v.args) == 2 and not v.keywords and self.is_obj(v.args[0]):
                k = self.key_of(v.args[1], env)
                if k is not None:
                    # an exception leaving the base method propagates through the handlers around the call
                    arg = "w" if not k.coerced else "{ w with arg := .exactStr }"
                    arms = "".join(f" | .raised .{kk} => {self.raise_(kk, handlers)}" for kk, _ in EXC)
                    return f"(match {self.base_prefix}_{v.func.attr} {arg} with{arms} | r => r)"
            self.bad(v, "super() delegation form")
        self.bad(v, "return value")

    def stmts(self, body, env, handlers, nxt):
        if not body:
            if nxt is None:
                return ".returnedNone"            # fell off the end of the function
            return nxt(env)
        s, tail = body[0], body[1:]

        def cont(env2):
            return self.stmts(tail, env2, handlers, nxt)

        if isinstance(s, ast.Pass):
            return cont(env)
        if isinstance(s, ast.Expr) and isinstance(s.value, ast.Constant):
            return cont(env)
        if isinstance(s, ast.Return):
            return self.ret(s.value, env, handlers)
        if isinstance(s, ast.Raise):
            if handlers:
                self.bad(s, "raise inside try")
            return "(.raised .other)"
        if isinstance(s, ast.If):
            c = self.cond(s.test, env)
            a = self.stmts(s.body, env, handlers, cont)
            b = self.stmts(s.orelse, env, handlers, cont)
            return f"(if {c} then {a} else {b})"
        if isinstance(s, (ast.Assign, ast.AnnAssign)):
            if isinstance(s, ast.Assign):
                if len(s.targets) != 1:
                    self.bad(s)
                tgt, val = s.targets[0], s.value
            else:
                tgt, val = s.target, s.value
                if val is None:
                    return cont(env)
            if not isinstance(tgt, ast.Name) or tgt.id in (self.selfn, self.objn):
                self.bad(s, "assignment target")
            k = self.key_of(val, env)
            if k is not None:
                return cont({**env, tgt.id: k})
            o = self.op(val, env)
            if o is not None:
                return self.do_op(o[0], o[1], handlers, cont({**env, tgt.id: Val(o[0])}))
            if self.is_self_call(val, "wrap_str_format"):
                if len(val.args) == 1 and not val.keywords and isinstance(val.args[0], ast.Name) \
                        and isinstance(env.get(val.args[0].id), Val) and env[val.args[0].id].what == "attr":
                    return cont({**env, tgt.id: Val("fmt")})
                self.bad(s, "wrap_str_format is not applied to the attribute value")
            self.bad(s, "assignment")
        if isinstance(s, ast.Try):
            if s.finalbody:
                self.bad(s, "try/finally")
            clauses = []
            for h in s.handlers:
                if h.type is None:
                    types_ = None
                else:
                    names = h.type.elts if isinstance(h.type, ast.Tuple) else [h.type]
                    types_ = []
                    for n in names:
                        cls = getattr(builtins, n.id, None) if isinstance(n, ast.Name) else None
                        if not (isinstance(cls, type) and issubclass(cls, BaseException)):
                            self.bad(h, "exception class")
                        types_.append(cls)
                if h.name:
                    self.bad(h, "except … as name")
                clauses.append((types_, (lambda hb=h.body: self.stmts(hb, env, handlers, cont))))
            inner = handlers + [(clauses, None)]
            return self.stmts(s.body, env, inner, lambda env2: self.stmts(s.orelse, env2, handlers, cont))
        self.bad(s)


# ---------------------------------------------------------------------------------------------------
# unsafe_undefined, wrap_str_format, SandboxedFormatter
# ---------------------------------------------------------------------------------------------------

def read_unsafe_undefined(fn):
    body = _strip_doc(fn.body)
    if not (len(body) == 1 and isinstance(body[0], ast.Return) and isinstance(body[0].value, ast.Call)
            and isinstance(body[0].value.func, ast.Attribute) and body[0].value.func.attr == "undefined"
            and isinstance(body[0].value.func.value, ast.Name) and body[0].value.func.value.id == fn.args.args[0].arg):
        raise Untranslatable("unsafe_undefined is not a single `return self.undefined(...)`")
    kw = {k.arg: k.value for k in body[0].value.keywords}
    exc = kw.get("exc")
    if exc is None:
        return "UndefinedError"                     # the default of Undefined.__init__
    if not isinstance(exc, ast.Name):
        raise Untranslatable("unsafe_undefined: exc= is not a name")
    return exc.id


class Wrap:
    """wrap_str_format: the guard prefix as a decision function, the rest as structural facts"""

    def __init__(self, fn):
        self.fn = fn
        a = fn.args
        if len(a.args) != 2 or a.vararg or a.kwarg:
            raise Untranslatable("wrap_str_format signature")
        self.selfn, self.valn = a.args[0].arg, a.args[1].arg
        self.self_alias = set()                     # names bound to value.__self__

    def bad(self, node, why):
        raise Untranslatable(f"wrap_str_format: {why}: {ast.unparse(node)[:90]!r}")

    def is_value_attr(self, n, attr):
        return isinstance(n, ast.Attribute) and n.attr == attr and isinstance(n.value, ast.Name) and n.value.id == self.valn

    def cond(self, e):
        if isinstance(e, ast.BoolOp):
            op = " || " if isinstance(e.op, ast.Or) else " && "
            return "(" + op.join(self.cond(v) for v in e.values) + ")"
        if isinstance(e, ast.UnaryOp) and isinstance(e.op, ast.Not):
            return "(!" + self.cond(e.operand) + ")"
        if isinstance(e, ast.Call) and isinstance(e.func, ast.Name) and e.func.id == "isinstance" and len(e.args) == 2:
            who, t = e.args
            ts = t.elts if isinstance(t, ast.Tuple) else [t]
            if isinstance(who, ast.Name) and who.id == self.valn:
                return "(" + " || ".join(f"value.isa {lstr(dotted(x))}" for x in ts) + ")"
            if (isinstance(who, ast.Name) and who.id in self.self_alias) or self.is_value_attr(who, "__self__"):
                if len(ts) == 1 and isinstance(ts[0], ast.Name) and ts[0].id == "str":
                    return "selfIsStr"
            self.bad(e, "isinstance test")
        if isinstance(e, ast.Compare) and len(e.ops) == 1 and self.is_value_attr(e.left, "__name__"):
            r = e.comparators[0]
            if isinstance(r, (ast.Tuple, ast.List, ast.Set)) and all(isinstance(x, ast.Constant) and isinstance(x.value, str) for x in r.elts):
                t = f"({llist(lstr(x.value) for x in r.elts)}.contains name)"
                if isinstance(e.ops[0], ast.In):
                    return t
                if isinstance(e.ops[0], ast.NotIn):
                    return f"(!{t})"
            if isinstance(r, ast.Constant) and isinstance(r.value, str):
                t = f"(name == {lstr(r.value)})"
                if isinstance(e.ops[0], ast.Eq):
                    return t
                if isinstance(e.ops[0], ast.NotEq):
                    return f"(!{t})"
        self.bad(e, "guard condition")

    def read(self):
        body = _strip_doc(self.fn.body)
        guards = []                                  # conditions under which None is returned, in order
        i = 0
        while i < len(body):
            s = body[i]
            if isinstance(s, ast.If) and not s.orelse and len(s.body) == 1 and isinstance(s.body[0], ast.Return) \
                    and (s.body[0].value is None or (isinstance(s.body[0].value, ast.Constant) and s.body[0].value.value is None)):
                guards.append(self.cond(s.test))
            elif isinstance(s, (ast.Assign, ast.AnnAssign)) and isinstance(s.targets[0] if isinstance(s, ast.Assign) else s.target, ast.Name):
                tgt = (s.targets[0] if isinstance(s, ast.Assign) else s.target).id
                if tgt in (self.selfn, self.valn):
                    self.bad(s, "rebinding of a parameter")
                if s.value is not None and self.is_value_attr(s.value, "__self__"):
                    self.self_alias.add(tgt)
                elif tgt in self.self_alias:
                    self.bad(s, "rebinding of the receiver alias")
                elif tgt == "formatter" and s.value is not None:
                    break
            else:
                break
            i += 1
        rest = body[i:]
        # the rest: formatter := <Class>(self, …) on every branch; vformat := formatter.vformat; def wrapper; return
        formatters, wrapper, returned, aliases = [], None, None, {}
        for s in rest:
            for n in ast.walk(s) if not isinstance(s, ast.FunctionDef) else []:
                if isinstance(n, ast.Return) and s is not rest[-1]:
                    self.bad(s, "early return after the guards")
            if isinstance(s, ast.FunctionDef):
                if wrapper is not None:
                    self.bad(s, "second nested function")
                wrapper = s
            elif isinstance(s, ast.Return):
                returned = s.value
            elif isinstance(s, (ast.If, ast.Assign, ast.AnnAssign)):
                for n in ast.walk(s):
                    if isinstance(n, (ast.Assign, ast.AnnAssign)) and n.value is not None:
                        tg = n.targets[0] if isinstance(n, ast.Assign) else n.target
                        if not isinstance(tg, ast.Name):
                            self.bad(n, "assignment target")
                        if tg.id == "formatter":
                            v = n.value
                            if not (isinstance(v, ast.Call) and isinstance(v.func, ast.Name) and v.args
                                    and isinstance(v.args[0], ast.Name) and v.args[0].id == self.selfn):
                                self.bad(n, "formatter is not <Class>(self, …)")
                            formatters.append(v.func.id)
                        elif isinstance(n.value, (ast.Attribute, ast.Name)):
                            aliases[tg.id] = dotted(n.value)
                if isinstance(s, ast.If):
                    for n in ast.walk(s):
                        if isinstance(n, ast.stmt) and not isinstance(n, (ast.If, ast.Assign, ast.AnnAssign)):
                            self.bad(n, "statement in the formatter selection")
            else:
                self.bad(s, "statement after the guards")
        if wrapper is None or returned is None or not formatters:
            raise Untranslatable("wrap_str_format: no wrapper function / return / formatter found")
        if isinstance(returned, ast.Name):
            ret_name = returned.id
        elif isinstance(returned, ast.Call) and isinstance(returned.func, ast.Name) and returned.func.id == "update_wrapper" \
                and returned.args and isinstance(returned.args[0], ast.Name):
            ret_name = returned.args[0].id
        else:
            self.bad(returned, "what is returned")
        # inside the wrapper: which callables produce the returned text, and is the raw method referenced
        uses_raw = any(isinstance(n, ast.Name) and n.id == self.valn for n in ast.walk(wrapper))
        calls = []
        for n in ast.walk(wrapper):
            if isinstance(n, ast.Call):
                try:
                    d = dotted(n.func)
                except Untranslatable:
                    self.bad(n, "call in the wrapper")
                calls.append(aliases.get(d, d))
        return dict(guards=guards, formatters=sorted(set(formatters)), returns_wrapper=(ret_name == wrapper.name),
                    uses_raw=uses_raw, calls=sorted(set(calls)))


def read_formatters(tree):
    """class headers of the *Formatter classes of sandbox.py and the lookup steps of get_field"""
    classes = []
    for n in tree.body:
        if isinstance(n, ast.ClassDef) and n.name.endswith("Formatter"):
            defs = sorted(f.name for f in n.body if isinstance(f, (ast.FunctionDef, ast.AsyncFunctionDef)))
            classes.append((n.name, [dotted(b) for b in n.bases], defs))
    sf = find_class(tree, "SandboxedFormatter")
    init = find_func(sf, "__init__")
    env_field = None
    for s in init.body:
        if isinstance(s, ast.Assign) and isinstance(s.targets[0], ast.Attribute) and isinstance(s.value, ast.Name) \
                and s.value.id == init.args.args[1].arg:
            env_field = "self." + s.targets[0].attr
    if env_field is None:
        raise Untranslatable("SandboxedFormatter.__init__ does not store the environment")
    gf = find_func(sf, "get_field")
    body = _strip_doc(gf.body)
    steps, seen_loop = [], False
    for s in body:
        if isinstance(s, ast.For):
            if seen_loop or s.orelse or not (isinstance(s.target, ast.Tuple) and len(s.target.elts) == 2):
                raise Untranslatable("get_field: loop shape")
            seen_loop = True
            flag, part = (e.id for e in s.target.elts)

            def walk(stmts, path):
                for x in stmts:
                    if isinstance(x, ast.If) and isinstance(x.test, ast.Name) and x.test.id == flag:
                        walk(x.body, "attr")
                        walk(x.orelse, "item")
                    elif isinstance(x, ast.Assign) and len(x.targets) == 1 and isinstance(x.targets[0], ast.Name) \
                            and x.targets[0].id == "obj" and isinstance(x.value, ast.Call):
                        args_ok = (len(x.value.args) == 2 and not x.value.keywords
                                   and isinstance(x.value.args[0], ast.Name) and x.value.args[0].id == "obj"
                                   and isinstance(x.value.args[1], ast.Name) and x.value.args[1].id == part)
                        steps.append((path, dotted(x.value.func) if args_ok else "?" + ast.unparse(x.value)))
                    else:
                        raise Untranslatable(f"get_field: loop statement {ast.unparse(x)[:60]!r}")
            walk(s.body, "any")
        elif isinstance(s, ast.Assign):
            # before the loop: `first, rest = …`, `obj = self.get_value(first, args, kwargs)` (no attribute of a value)
            for n in ast.walk(s.value):
                if isinstance(n, ast.Call):
                    d = dotted(n.func)
                    if d not in ("formatter_field_name_split", "self.get_value"):
                        raise Untranslatable(f"get_field: call {d} outside the loop")
        elif isinstance(s, ast.Return):
            pass
        else:
            raise Untranslatable(f"get_field: statement {ast.unparse(s)[:60]!r}")
    if not seen_loop:
        raise Untranslatable("get_field: no loop over the field path")
    return classes, env_field, steps


FIXED = '''
/-- kind of the subscript / attribute-name argument a template can supply -/
inductive ArgKind where
  | exactStr      -- type(argument) is str
  | strSubclass   -- isinstance(argument, str), e.g. markupsafe.Markup
  | int
  | other
  deriving Repr, DecidableEq

def ArgKind.isStr : ArgKind → Bool
  | .exactStr | .strSubclass => true
  | _ => false

inductive Exc where
  | typeError | keyError | indexError | attributeError | other
  deriving Repr, DecidableEq

inductive OpRes where
  | ok
  | err (e : Exc)
  deriving Repr, DecidableEq

/-- everything a lookup method can observe of its inputs -/
structure World where
  arg : ArgKind
  /-- how `obj[argument]` ends -/
  item : OpRes
  /-- how `getattr(obj, name)` ends when `name` is a string -/
  attr : OpRes
  /-- `wrap_str_format(value)` is not None (value is a bound str.format / str.format_map) -/
  isFormat : Bool
  /-- the answer of `is_safe_attribute(obj, name, value)` -/
  safeAttr : Bool
  deriving Repr, DecidableEq

/-- `getattr(obj, name)` with a non-string name is a TypeError -/
def World.attrRes (w : World) (k : ArgKind) : OpRes := if k.isStr then w.attr else .err .typeError

inductive Outcome where
  | item              -- the value of obj[argument]
  | rawAttr           -- the value of getattr(obj, name), handed out as it is
  | fmtWrapper        -- the sandboxing wrapper of str.format / format_map
  | unsafeUndefined   -- self.unsafe_undefined(obj, name)
  | undefined         -- self.undefined(obj=obj, name=name)
  | returnedNone
  | raised (e : Exc)
  deriving Repr, DecidableEq

def allArgKinds : List ArgKind := [.exactStr, .strSubclass, .int, .other]
def allOpRes : List OpRes := [.ok, .err .typeError, .err .keyError, .err .indexError, .err .attributeError, .err .other]
def allBools : List Bool := [false, true]
def allWorlds : List World :=
  allArgKinds.flatMap fun a => allOpRes.flatMap fun i => allOpRes.flatMap fun t =>
    allBools.flatMap fun f => allBools.map fun s => { arg := a, item := i, attr := t, isFormat := f, safeAttr := s }
'''


def gen():
    tree = parse("sandbox")
    etree = parse("environment")
    sbx = find_class(tree, "SandboxedEnvironment")
    imm = find_class(tree, "ImmutableSandboxedEnvironment")
    base = find_class(etree, "Environment")
    if [dotted(b) for b in sbx.bases] != ["Environment"]:
        raise Untranslatable("SandboxedEnvironment bases changed (super() no longer is Environment)")
    if [dotted(b) for b in imm.bases] != ["SandboxedEnvironment"]:
        raise Untranslatable("ImmutableSandboxedEnvironment base changed")
    guarded = ("getitem", "getattr", "unsafe_undefined", "wrap_str_format", "call")
    for n in imm.body:
        if isinstance(n, (ast.FunctionDef, ast.AsyncFunctionDef)) and n.name in guarded:
            raise Untranslatable(f"ImmutableSandboxedEnvironment overrides {n.name}")
    # no other class of sandbox.py may redefine the lookup methods of an environment
    for c in tree.body:
        if isinstance(c, ast.ClassDef) and c is not sbx and any(dotted(b).endswith("Environment") for b in c.bases):
            for n in c.body:
                if isinstance(n, (ast.FunctionDef, ast.AsyncFunctionDef)) and n.name in guarded:
                    raise Untranslatable(f"{c.name} overrides {n.name}")
    b_item = Access(find_func(base, "getitem"), None).translate()
    b_attr = Access(find_func(base, "getattr"), None).translate()
    s_item = Access(find_func(sbx, "getitem"), "Base").translate()
    s_attr = Access(find_func(sbx, "getattr"), "Base").translate()
    exc = read_unsafe_undefined(find_func(sbx, "unsafe_undefined"))
    wrap = Wrap(find_func(sbx, "wrap_str_format")).read()
    classes, env_field, steps = read_formatters(tree)
    guard = "false"
    for g in reversed(wrap["guards"]):
        guard = f"(if {g} then true else {guard})"
    L = [HEADER, "import JinjaV.Gen.Sandbox\n", "namespace JinjaV.Gen.AccessPaths", "open JinjaV.Gen.Sandbox", FIXED,
         "-- READ: environment.py Environment.getitem / getattr (what `super()` reaches: no sandbox check)",
         f"def Base_getitem (w : World) : Outcome :=\n  {b_item}\n",
         f"def Base_getattr (w : World) : Outcome :=\n  {b_attr}\n",
         "-- READ: sandbox.py SandboxedEnvironment.getitem / getattr, whole bodies",
         f"def Sandboxed_getitem (w : World) : Outcome :=\n  {s_item}\n",
         f"def Sandboxed_getattr (w : World) : Outcome :=\n  {s_attr}\n",
         "-- READ: SandboxedEnvironment.unsafe_undefined = `return self.undefined(…, exc=<this>)`",
         f"def unsafeUndefinedExc : String := {lstr(exc)}\n",
         "-- READ: SandboxedEnvironment.wrap_str_format: the `return None` guards, in order",
         "/-- true iff wrap_str_format returns None for a value with these classes, `__name__` and receiver -/",
         f"def wrapReturnsNone (value : Obj) (name : String) (selfIsStr : Bool) : Bool :=\n  {guard}\n",
         "-- READ: the rest of wrap_str_format (structure)",
         f"def wrapFormatterClasses : List String := {llist(map(lstr, wrap['formatters']))}",
         f"def wrapReturnsWrapper : Bool := {lbool(wrap['returns_wrapper'])}",
         f"def wrapperReferencesRawMethod : Bool := {lbool(wrap['uses_raw'])}",
         f"def wrapperCalls : List String := {llist(map(lstr, wrap['calls']))}\n",
         "-- READ: the *Formatter classes of sandbox.py: (name, bases, methods defined in the class body)",
         "def formatterClasses : List (String × List String × List String) := [\n" + ",\n".join(
             f"  ({lstr(n)}, {llist(map(lstr, b))}, {llist(map(lstr, d))})" for n, b, d in classes) + "\n]\n",
         "-- READ: SandboxedFormatter.__init__ stores the environment in this field; get_field resolves each step of a",
         "-- field path (`.name` = attr, `[key]` = item) by calling this on (obj, part)",
         f"def formatterEnvField : String := {lstr(env_field)}",
         "def getFieldSteps : List (String × String) := " + llist(f"({lstr(p)}, {lstr(c)})" for p, c in steps) + "\n",
         "end JinjaV.Gen.AccessPaths\n"]
    return "AccessPaths.lean", "\n".join(L)
