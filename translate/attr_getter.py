"""Gen/AttrGetter.lean: the statement skeleton of the attribute getters of filters.py.

READ with Python `ast` on every run: for `make_attrgetter.<locals>.attrgetter`, `make_multi_attrgetter.<locals>.attrgetter` and
`_prepare_attribute_parts` the list of (nesting depth, statement head) of the function body, where the head of a compound
statement is its first line without the colon (`for part in parts`, `if default is not None and isinstance(item, Undefined)`) and
the head of a simple statement is its source.  Props/C22Attr.lean `attrgetter_shape` pins the three lists: this is what the Lean
model `attrStep` / `attrWalk` / `prepareParts` (Model/FiltColl.lean) transcribes — e.g. that the default substitution is inside the
loop over the parts.  Statement kinds other than for / if / assignment / return raise Untranslatable.
"""
from __future__ import annotations

import ast

from .common import HEADER, Untranslatable, find_func, lstr, parse


def norm(node):
    return " ".join(ast.unparse(node).split())


def skeleton(body, depth=0):
    out = []
    for s in body:
        if isinstance(s, ast.Expr) and isinstance(s.value, ast.Constant) and isinstance(s.value.value, str):
            continue    # docstring
        if isinstance(s, ast.For):
            if s.orelse:
                raise Untranslatable("for-else in an attribute getter")
            out.append((depth, f"for {norm(s.target)} in {norm(s.iter)}"))
            out += skeleton(s.body, depth + 1)
        elif isinstance(s, ast.If):
            out.append((depth, f"if {norm(s.test)}"))
            out += skeleton(s.body, depth + 1)
            if s.orelse:
                out.append((depth, "else"))
                out += skeleton(s.orelse, depth + 1)
        elif isinstance(s, (ast.Assign, ast.AugAssign, ast.AnnAssign, ast.Return)):
            out.append((depth, norm(s)))
        else:
            raise Untranslatable(f"statement {type(s).__name__} at line {s.lineno} in an attribute getter")
    return out


def inner(fn, name):
    for s in fn.body:
        if isinstance(s, ast.FunctionDef) and s.name == name:
            return s
    raise Untranslatable(f"{fn.name}: nested function {name} not found")


def read():
    tree = parse("filters")
    return {
        "attrgetter": skeleton(inner(find_func(tree, "make_attrgetter"), "attrgetter").body),
        "multiAttrgetter": skeleton(inner(find_func(tree, "make_multi_attrgetter"), "attrgetter").body),
        "prepareParts": skeleton(find_func(tree, "_prepare_attribute_parts").body),
    }


def gen():
    d = read()
    L = [HEADER, "namespace JinjaV.Gen.AttrGetter\n"]
    for k, rows in d.items():
        L.append(f"-- READ: (nesting depth, statement head) of the body of {k}")
        L.append(f"def {k} : List (Nat × String) := [")
        L.append(",\n".join(f"  ({dep}, {lstr(src)})" for dep, src in rows))
        L.append("]\n")
    L.append("end JinjaV.Gen.AttrGetter\n")
    return "AttrGetter.lean", "\n".join(L)
