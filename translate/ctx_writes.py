"""Gen/CtxWrites.lean: what the engine writes to while rendering (READ, Python ast).

Part A — compiler.py: every string literal (plain or f-string) handed to `self.write` / `self.writeline` is a fragment of
generated code.  A fragment is a *write* when, after replacing each `{...}` placeholder by the identifier `H`, its token
stream (Python's tokenizer) has an assignment `=` at bracket depth 0 or a call of a mutating method
(`.append( .add( .update( .discard( .difference_update( .setdefault( .pop( .extend( .insert( .remove( .clear( .revert(`).
Each write is classified by its target:
  ctxVars / ctxExported / ctxBlocks / ctxEvalCtx    context.vars…, context.exported_vars…, context.blocks…, context.eval_ctx…
  derivedCtxVars     `{ctx}.vars = ` where `ctx` is the temporary holding `context.derived(..)`
  frameDict          _loop_vars / _block_vars
  buffer             `{frame.buffer}.append(` / `{frame.buffer} = []`
  local              a single identifier or placeholder (frame symbol, temporary, module-level name of the generated module)
  assignTarget       ` = ` with the target emitted by visiting the assignment target node (a name, a tuple of names, or an NSRef)
  namespaceAttr      `{ref}[{attr}]` emitted by visit_NSRef (item store on a frame symbol)
  ctxOther / envWrite / templateWrite / other      anything else rooted at context / environment / a template variable / unknown
Also READ: visit_Assign emits `if not isinstance({ref}, Namespace): raise TemplateRuntimeError(..)` for every NSRef target.

Part B — runtime.py and environment.py: every attribute/item store, `del`, `setattr` and mutating method call, with the
function it is in, classified by the root of the target:
  ownInit        `self.x = …` / `t.x = …` / `rv.x = …` inside a constructor-like function (__init__, _from_namespace, from_code)
  ownState       `self._x = …`, `self.index0 = …` … (the object's own fields) outside constructors
  moduleCache    `self._module = …`
  derivedCtx     stores on the local `context` inside Context.derived (the new derived context)
  newCtxParent   `parent[key] = value` in runtime.new_context (modelled in Model/CtxState.lean)
  localContainer a local/parameter container built by the function itself or by the call protocol (kwargs, args, buf, …)
  templateCache  `self.cache[...] = template` in Environment._load_template
  templateGlobals `template.globals.update(globals)` in Environment._load_template
  inputWrite     target rooted at self.parent / self.environment / self.globals / environment.* / context.parent / globals / vars
  setupApi       stores in functions that configure an Environment (not on the render path); named in SETUP below
  other
"""
from __future__ import annotations

import ast
import io
import tokenize

from .common import HEADER, SRC, Untranslatable, lbool, llist, lstr

MUTATORS = {"append", "add", "update", "discard", "difference_update", "setdefault", "pop", "popitem", "extend", "insert",
            "remove", "clear", "revert", "sort", "reverse", "__setitem__", "__delitem__", "__setattr__"}
A_CLASSES = ["ctxVars", "ctxExported", "ctxBlocks", "ctxEvalCtx", "derivedCtxVars", "frameDict", "buffer", "local",
             "assignTarget", "namespaceAttr", "ctxOther", "envWrite", "templateWrite", "other"]
B_CLASSES = ["ownInit", "ownState", "moduleCache", "derivedCtx", "newCtxParent", "localContainer", "templateCache",
             "templateGlobals", "inputWrite", "setupApi", "other"]
CONSTRUCTORS = {"__init__", "_from_namespace", "from_code", "__new__"}
# functions of environment.py that configure an environment / compile to disk: not on the render path
SETUP = {"Environment.__init__", "Environment.add_extension", "Environment.extend", "Environment.overlay",
         "Environment.compile_templates", "Environment.compile_templates.write_file", "load_extensions",
         "get_spontaneous_environment", "<module>", "create_cache", "copy_cache"}


def fragment_of(n):
    """(text with placeholders replaced by H, list of placeholder expressions) or None for a non-literal argument"""
    if isinstance(n, ast.Constant) and isinstance(n.value, str):
        return n.value, []
    if isinstance(n, ast.JoinedStr):
        out, holes = [], []
        for v in n.values:
            if isinstance(v, ast.Constant):
                out.append(v.value)
            else:
                out.append("H")
                holes.append(ast.unparse(v.value))
        return "".join(out), holes
    return None


def toks(text):
    out = []
    try:
        for t in tokenize.generate_tokens(io.StringIO(text).readline):
            if t.type in (tokenize.NEWLINE, tokenize.NL, tokenize.ENDMARKER, tokenize.INDENT, tokenize.DEDENT, tokenize.COMMENT):
                continue
            out.append((t.type, t.string))
    except (tokenize.TokenError, IndentationError, SyntaxError):
        pass        # an unfinished fragment: the tokens seen so far are what was emitted
    return out


def find_write(text):
    """returns (target tokens as text, how) or None"""
    ts = toks(text)
    depth = 0
    for i, (ty, s) in enumerate(ts):
        if ty == tokenize.OP and s in "([{":
            depth += 1
        elif ty == tokenize.OP and s in ")]}":
            depth -= 1
        elif ty == tokenize.OP and s == "=" and depth == 0:
            # keyword arguments of an unfinished call fragment such as ', key=value' start with a comma
            if ts and ts[0][1] == ",":
                return None
            return "".join(x[1] for x in ts[:i]), "assign"
        elif ty == tokenize.OP and s in ("+=", "-=", "|=") and depth == 0:
            return "".join(x[1] for x in ts[:i]), "augassign"
    for i, (ty, s) in enumerate(ts):
        if ty == tokenize.NAME and s in MUTATORS and i >= 2 and ts[i - 1][1] == "." and i + 1 < len(ts) and ts[i + 1][1] == "(":
            return "".join(x[1] for x in ts[:i - 1]), "call:" + s
    if ts and ts[0] == (tokenize.NAME, "del"):
        return "".join(x[1] for x in ts[1:]), "del"
    return None


def classify_a(func, target, how, holes):
    t = target
    if t == "":
        return "assignTarget"
    if t.startswith("context.vars"):
        return "ctxVars"
    if t.startswith("context.exported_vars"):
        return "ctxExported"
    if t.startswith("context.blocks"):
        return "ctxBlocks"
    if t.startswith("context.eval_ctx"):
        return "ctxEvalCtx"
    if t.startswith("context"):
        return "ctxOther"
    if t.startswith("environment"):
        return "envWrite"
    if t in ("_loop_vars", "_block_vars") or t.startswith(("_loop_vars[", "_block_vars[")):
        return "frameDict"
    if t == "H.vars" and holes[:1] == ["ctx"]:
        return "derivedCtxVars"
    if t == "H" and holes[:1] == ["frame.buffer"]:
        return "buffer"
    if t.replace("=", "").replace("H", "").replace("_", "").isalnum() or t == "H" or all(p.isidentifier() for p in t.split("=") if p):
        # a single identifier / placeholder, or a chain `a = b = ` of them
        if "." not in t and "[" not in t:
            return "local"
    if t.split(".")[0].split("[")[0] in ("template", "included_template", "parent_template"):
        return "templateWrite"
    return "other"


def part_a():
    tree = ast.parse((SRC / "compiler.py").read_text())
    rows, dyn = [], []
    nsref_rows = 0
    for fn in ast.walk(tree):
        if not isinstance(fn, ast.FunctionDef):
            continue
        for n in ast.walk(fn):
            if isinstance(n, ast.FunctionDef) and n is not fn:
                continue
            if isinstance(n, ast.Call) and isinstance(n.func, ast.Attribute) and n.func.attr in ("write", "writeline", "simple_write") \
                    and isinstance(n.func.value, ast.Name) and n.func.value.id == "self" and n.args:
                fr = fragment_of(n.args[0])
                if fr is None:
                    dyn.append((fn.name, " ".join(ast.unparse(n.args[0]).split())[:60]))
                    continue
                text, holes = fr
                if fn.name == "visit_NSRef":
                    rows.append((fn.name, text, "H[H]", "item-target", "namespaceAttr"))
                    nsref_rows += 1
                    continue
                w = find_write(text)
                if w is None:
                    continue
                target, how = w
                rows.append((fn.name, text, target, how, classify_a(fn.name, target, how, holes)))
    # nested function definitions are walked twice by ast.walk(tree) (as part of their parent and on their own): dedupe
    seen, out = set(), []
    for r in rows:
        if r not in seen:
            seen.add(r)
            out.append(r)
    if nsref_rows == 0:
        raise Untranslatable("visit_NSRef emits no literal fragment any more")
    # the Namespace guard: emitted by `_check_nsrefs(target, frame)`, which visit_Assign AND visit_AssignBlock call on
    # `node.target` before they write the target (a block set stores into the same `ref[attr]`, /repo cf81214)
    guard = False
    helper = next((f for f in ast.walk(tree) if isinstance(f, ast.FunctionDef) and f.name == "_check_nsrefs"), None)
    if helper is not None:
        lits = [fragment_of(c.args[0]) for c in ast.walk(helper) if isinstance(c, ast.Call) and isinstance(c.func, ast.Attribute)
                and c.func.attr in ("write", "writeline") and c.args]
        texts = [x[0] for x in lits if x]
        emits = any(t.replace(" ", "") == "ifnotisinstance(H,Namespace):" for t in texts) and \
            any(t.startswith("raise TemplateRuntimeError") for t in texts)
        guard = emits and all(calls_guard_before_target(tree, v) for v in ("visit_Assign", "visit_AssignBlock"))
    dyn = sorted(set(dyn))
    return out, dyn, guard, nsref_guard_covers_every(tree)


def calls_guard_before_target(tree, visitor) -> bool:
    """`self._check_nsrefs(node.target, frame)` is a top-level statement of the visitor and precedes `self.visit(node.target, …)`"""
    fn = next((f for f in ast.walk(tree) if isinstance(f, ast.FunctionDef) and f.name == visitor), None)
    if fn is None:
        return False
    guard_at = target_at = None
    for i, st in enumerate(fn.body):
        if isinstance(st, ast.Expr) and isinstance(st.value, ast.Call):
            c = st.value
            if ast.unparse(c.func) == "self._check_nsrefs" and [ast.unparse(x) for x in c.args] == ["node.target", "frame"] \
                    and guard_at is None:
                guard_at = i
            if ast.unparse(c.func) == "self.visit" and c.args and ast.unparse(c.args[0]) == "node.target" and target_at is None:
                target_at = i
    n_target_visits = sum(1 for c in ast.walk(fn) if isinstance(c, ast.Call) and ast.unparse(c.func) == "self.visit"
                          and c.args and ast.unparse(c.args[0]) == "node.target")
    return guard_at is not None and target_at is not None and guard_at < target_at and n_target_visits == 1


def nsref_guard_covers_every(tree) -> bool:
    """_check_nsrefs emits the isinstance guard inside `for <t> in <refs>` where <refs> is `[target]` when the target is an
    NSRef itself and `target.find_all(nodes.NSRef)` otherwise, for `<t>.name`, and the only way to skip an iteration is
    `if <t>.name in <seen>: continue` where <seen> only ever receives `<t>.name` (one guard per distinct ref name — never
    fewer)"""
    fn = next((f for f in ast.walk(tree) if isinstance(f, ast.FunctionDef) and f.name == "_check_nsrefs"), None)
    if fn is None or [a.arg for a in fn.args.args] != ["self", "target", "frame"]:
        return False
    # what the loop iterates: every binding of the iterated name
    for loop in ast.walk(fn):
        if not (isinstance(loop, ast.For) and isinstance(loop.target, ast.Name) and isinstance(loop.iter, ast.Name)):
            continue
        it = loop.iter.id
        binds = sorted(" ".join(ast.unparse(a.value).split()) for a in ast.walk(fn)
                       if isinstance(a, (ast.Assign, ast.AnnAssign)) and a.value is not None
                       and ast.unparse(a.targets[0] if isinstance(a, ast.Assign) else a.target) == it)
        if binds != ["[target]", "target.find_all(nodes.NSRef)"]:
            return False
        sel = [st for st in ast.walk(fn) if isinstance(st, ast.If) and " ".join(ast.unparse(st.test).split()) ==
               "isinstance(target, nodes.NSRef)"]
        if len(sel) != 1 or "[target]" not in ast.unparse(sel[0].body[0]) or not sel[0].orelse \
                or "find_all" not in ast.unparse(sel[0].orelse[0]):
            return False
        t = loop.target.id
        texts = []
        for c in ast.walk(loop):
            if isinstance(c, ast.Call) and isinstance(c.func, ast.Attribute) and c.func.attr in ("write", "writeline") and c.args:
                fr = fragment_of(c.args[0])
                if fr:
                    texts.append((fr[0].replace(" ", ""), fr[1]))
        guard_here = any(tx == "ifnotisinstance(H,Namespace):" and holes == ["ref"] for tx, holes in texts)
        ref_from_t = any(isinstance(a, ast.Assign) and ast.unparse(a.targets[0]) == "ref"
                         and ast.unparse(a.value) == f"frame.symbols.ref({t}.name)" for a in ast.walk(loop))
        # exits of the loop body: only `continue` under `if <t>.name in S`, no break / return
        if any(isinstance(x, (ast.Break, ast.Return)) for x in ast.walk(loop)):
            return False
        seen_names = set()
        ok = True
        for st in ast.walk(loop):
            if isinstance(st, ast.If) and any(isinstance(x, ast.Continue) for x in ast.walk(st)):
                test = " ".join(ast.unparse(st.test).split())
                if test.startswith(f"{t}.name in ") and test[len(f"{t}.name in "):].isidentifier() and not st.orelse \
                        and len(st.body) == 1 and isinstance(st.body[0], ast.Continue):
                    seen_names.add(test[len(f"{t}.name in "):])
                else:
                    ok = False
        n_cont = sum(isinstance(x, ast.Continue) for x in ast.walk(loop))
        n_if_cont = sum(1 for st in ast.walk(loop) if isinstance(st, ast.If) and any(isinstance(x, ast.Continue) for x in ast.walk(st)))
        if n_cont != n_if_cont:
            ok = False
        for sname in seen_names:      # the `seen` set only ever receives <t>.name
            for c in ast.walk(fn):
                if isinstance(c, ast.Call) and isinstance(c.func, ast.Attribute) and dotted(c.func.value) == sname:
                    if not (c.func.attr == "add" and [ast.unparse(a) for a in c.args] == [f"{t}.name"]):
                        ok = False
        return bool(guard_here and ref_from_t and ok)
    return False


def dotted(n):
    if isinstance(n, ast.Name):
        return n.id
    if isinstance(n, ast.Attribute):
        return dotted(n.value) + "." + n.attr
    if isinstance(n, ast.Subscript):
        return dotted(n.value) + "[]"
    if isinstance(n, ast.Call):
        return dotted(n.func) + "()"
    return "<expr>"


INPUT_ROOTS = ("self.parent", "self.environment", "self.globals", "environment.", "context.parent", "context.environment",
               "globals", "vars", "self._environment", "template.environment", "self.environment.globals", "ctx.parent")


def classify_b(module, func, target, how):
    last = func.split(".")[-1]
    root = target.split(".")[0].split("[")[0]
    if module == "environment" and func in SETUP or (module == "runtime" and func == "<module>"):
        return "setupApi"
    if module == "runtime" and func == "new_context" and target == "parent[]":
        return "newCtxParent"
    if any(target == r or target.startswith(r + ".") or target.startswith(r + "[") or (r.endswith(".") and target.startswith(r))
           for r in INPUT_ROOTS):
        # constructors bind their own fields named parent/environment: `self.parent = parent`
        if how == "store" and last in CONSTRUCTORS and target.count(".") == 1 and "[" not in target and root in ("self", "t", "rv"):
            return "ownInit"
        return "inputWrite"
    if target in ("self._module",):
        return "moduleCache"
    if module == "environment" and func == "Environment._load_template":
        if target == "self.cache[]":
            return "templateCache"
        if target == "template.globals":
            return "templateGlobals"
    if func == "Context.derived" and root == "context":
        return "derivedCtx"
    if root in ("self", "t", "rv", "info"):
        if target == "self.__dict__" and last in CONSTRUCTORS:
            return "ownInit"
        if target.count(".") == 1 and "[" not in target:
            return "ownInit" if last in CONSTRUCTORS else "ownState"
        return "other"
    if root in ("context", "template", "environment", "env", "obj", "value", "ctx"):
        return "other"
    if "." not in target.rstrip("]").rstrip("[") or target.count(".") == 0:
        return "localContainer"
    return "other"


def part_b():
    rows = []
    for module in ("runtime", "environment"):
        tree = ast.parse((SRC / f"{module}.py").read_text())

        def walk(node, qual):
            for ch in ast.iter_child_nodes(node):
                q = qual
                if isinstance(ch, (ast.FunctionDef, ast.AsyncFunctionDef, ast.ClassDef)):
                    q = qual + [ch.name]
                func = ".".join(qual) or "<module>"
                tg = []
                if isinstance(ch, ast.Assign):
                    tg = ch.targets
                elif isinstance(ch, (ast.AugAssign, ast.AnnAssign)):
                    tg = [ch.target]
                elif isinstance(ch, ast.Delete):
                    tg = ch.targets
                for t in tg:
                    for m in (t.elts if isinstance(t, (ast.Tuple, ast.List)) else [t]):
                        if isinstance(m, (ast.Attribute, ast.Subscript)):
                            how = "del" if isinstance(ch, ast.Delete) else "store"
                            rows.append((module, func, dotted(m), how))
                if isinstance(ch, ast.Call):
                    if isinstance(ch.func, ast.Attribute) and ch.func.attr in MUTATORS:
                        rows.append((module, func, dotted(ch.func.value), "call:" + ch.func.attr))
                    elif isinstance(ch.func, ast.Name) and ch.func.id in ("setattr", "delattr") and ch.args:
                        rows.append((module, func, dotted(ch.args[0]) + ".<dynamic>", "call:" + ch.func.id))
                walk(ch, q)

        walk(tree, [])
    out, seen = [], set()
    for r in rows:
        if r not in seen:
            seen.add(r)
            out.append(r + (classify_b(*r),))
    return out


def gen():
    a_rows, dyn, guard, guard_every = part_a()
    b_rows = part_b()
    L = [HEADER, "namespace JinjaV.Gen.CtxWrites\n",
         "inductive AClass where\n  | " + " | ".join(A_CLASSES) + "\n  deriving Repr, DecidableEq\n",
         "inductive BClass where\n  | " + " | ".join(B_CLASSES) + "\n  deriving Repr, DecidableEq\n",
         "/-- a write emitted by the code generator -/",
         "structure Emitted where\n  func : String\n  fragment : String\n  target : String\n  how : String\n  cls : AClass\n  deriving Repr\n",
         "/-- a store / mutating call in the runtime -/",
         "structure Store where\n  module : String\n  func : String\n  target : String\n  how : String\n  cls : BClass\n  deriving Repr\n",
         "/-- READ from compiler.py: every literal fragment passed to write/writeline that assigns or calls a mutating method -/",
         "def emitted : List Emitted := ["]
    L.append(",\n".join(f"  ⟨{lstr(f)}, {lstr(t)}, {lstr(tg)}, {lstr(h)}, .{c}⟩" for f, t, tg, h, c in a_rows))
    L.append("]\n")
    L.append("/-- READ: visit_Assign and visit_AssignBlock both call `_check_nsrefs(node.target, frame)` before writing the target; it emits `if not isinstance(ref, Namespace): raise TemplateRuntimeError` -/")
    L.append(f"def nsrefGuarded : Bool := {lbool(guard)}\n")
    L.append("/-- READ: that guard is emitted for every NSRef of the target (`[target]` or `target.find_all(nodes.NSRef)`) by `nsref.name`, skipping only names already "
             "guarded: it covers EVERY namespace ref of a (tuple) target -/")
    L.append(f"def nsrefGuardCoversEvery : Bool := {lbool(guard_every)}\n")
    L.append("/-- READ (informational): write/writeline calls whose argument is not a literal (visitor, argument) -/")
    L.append("def dynamicFragments : List (String × String) := " + llist(f"({lstr(a)}, {lstr(b)})" for a, b in dyn) + "\n")
    L.append("/-- READ from runtime.py and environment.py: every attribute/item store, del, setattr and mutating method call -/")
    L.append("def stores : List Store := [")
    L.append(",\n".join(f"  ⟨{lstr(m)}, {lstr(f)}, {lstr(t)}, {lstr(h)}, .{c}⟩" for m, f, t, h, c in b_rows))
    L.append("]\n")
    L.append("end JinjaV.Gen.CtxWrites\n")
    return "CtxWrites.lean", "\n".join(L)


if __name__ == "__main__":
    a, d, g, ge = part_a()
    for r in a:
        print("A", r[0], "|", r[1][:50], "|", r[2], "|", r[3], "|", r[4])
    print("guard", g, "covers every", ge, "dynamic", len(d))
    for r in part_b():
        print("B", *r)
