"""Gen/AsyncPairs.lean: the inventory of `@async_variant(sync_fn)` pairs of filters.py (and tests.py), the *shape* of every
async body relative to its sync body, and the filters/tests that consume an iterable.  READ from the source with `ast`.

Shapes (anything else raises Untranslatable — a broken tie):
  erases      the async body, with the async constructs erased (`await X`→X, `auto_await(X)`→X, `auto_aiter(X)`→X,
              `async for`→`for`, `auto_to_list(X)`→`list(X)`, `auto_aiter(X).__anext__()`→`next(iter(X))`,
              StopAsyncIteration→StopIteration, calls of an async helper → its sync twin when the helper itself erases to the
              twin), is literally the sync body  [`sorted(list(X), …)` counts as `sorted(X, …)`]
  syncOnList  `return sync_fn(p1, …, await auto_to_list(p_iter), …, pn)` with the function's own parameters in order
  fold        `rv = start; async for item in auto_aiter(p_iter): rv = rv + f(item)  /  rv += f(item); return rv`
              against `return sum(iterable, start)`; the accumulation form (rebinding / in place) is recorded
"""
from __future__ import annotations

import ast
import copy

from .common import HEADER, Untranslatable, lbool, llist, lstr, parse

ITERISH = ("Iterable", "Reversible", "Sequence", "Collection", "Container", "Iterator", "AsyncIterable", "Sized")
ITER_BUILTINS = {"iter", "len", "reversed", "sorted", "list", "tuple", "set", "frozenset", "sum", "min", "max", "zip", "map", "chain",
                 "enumerate", "any", "all", "dict"}
PASS_DECOS = {"pass_environment", "pass_context", "pass_eval_context"}


def strip_doc(body):
    if body and isinstance(body[0], ast.Expr) and isinstance(body[0].value, ast.Constant) and isinstance(body[0].value.value, str):
        return body[1:]
    return body


class EraseFn(ast.NodeTransformer):
    """the erasure of harness/c09lib.Erase, specialised to library code"""

    def __init__(self, helper_twins):
        self.helper_twins = helper_twins
        self.notes = set()

    def visit_AsyncFunctionDef(self, node):
        self.generic_visit(node)
        return ast.FunctionDef(name=node.name, args=node.args, body=node.body, decorator_list=node.decorator_list,
                               returns=node.returns, type_comment=None, type_params=[])

    def visit_AsyncFor(self, node):
        self.generic_visit(node)
        return ast.For(target=node.target, iter=node.iter, body=node.body, orelse=node.orelse, type_comment=None)

    def visit_Await(self, node):
        return self.visit(node.value)

    def visit_Call(self, node):
        # auto_aiter(X).__anext__()  →  next(iter(X))
        if (isinstance(node.func, ast.Attribute) and node.func.attr == "__anext__" and not node.args
                and isinstance(node.func.value, ast.Call) and isinstance(node.func.value.func, ast.Name)
                and node.func.value.func.id == "auto_aiter" and len(node.func.value.args) == 1):
            inner = self.visit(node.func.value.args[0])
            return ast.Call(func=ast.Name(id="next", ctx=ast.Load()),
                            args=[ast.Call(func=ast.Name(id="iter", ctx=ast.Load()), args=[inner], keywords=[])], keywords=[])
        self.generic_visit(node)
        if isinstance(node.func, ast.Name):
            if node.func.id in ("auto_await", "auto_aiter") and len(node.args) == 1 and not node.keywords:
                return node.args[0]
            if node.func.id == "auto_to_list" and len(node.args) == 1 and not node.keywords:
                node.func = ast.Name(id="list", ctx=ast.Load())
            elif node.func.id in self.helper_twins:
                node.func = ast.Name(id=self.helper_twins[node.func.id], ctx=ast.Load())
            if (node.func.id == "sorted" and node.args and isinstance(node.args[0], ast.Call) and isinstance(node.args[0].func, ast.Name)
                    and node.args[0].func.id == "list" and len(node.args[0].args) == 1):
                self.notes.add("sorted(list(x))=sorted(x)")
                node.args[0] = node.args[0].args[0]
        return node

    def visit_Name(self, node):
        if node.id == "StopAsyncIteration":
            node.id = "StopIteration"
        return node

    def visit_comprehension(self, node):
        self.generic_visit(node)
        node.is_async = 0
        return node


def dump_body(body):
    return [ast.dump(s, annotate_fields=False, include_attributes=False) for s in strip_doc(body)]


def has_yield(fn):
    for n in ast.walk(fn):
        if isinstance(n, (ast.Yield, ast.YieldFrom)):
            return True
    return False


def params(fn):
    a = fn.args
    return [x.arg for x in a.posonlyargs + a.args]


def decorators(fn):
    out = []
    for d in fn.decorator_list:
        if isinstance(d, ast.Name):
            out.append(d.id)
        elif isinstance(d, ast.Attribute):
            out.append(d.attr)
        elif isinstance(d, ast.Call):
            f = d.func
            out.append((f.id if isinstance(f, ast.Name) else getattr(f, "attr", "?")) + "(…)")
    return out


def variant_of(fn):
    for d in fn.decorator_list:
        if isinstance(d, ast.Call) and isinstance(d.func, ast.Name) and d.func.id == "async_variant":
            if len(d.args) != 1 or not isinstance(d.args[0], ast.Name):
                raise Untranslatable(f"async_variant argument of {fn.name}")
            return d.args[0].id
    return None


def module_funcs(tree):
    """name -> list of top-level defs in source order (overloads included)"""
    out = {}
    for n in tree.body:
        if isinstance(n, (ast.FunctionDef, ast.AsyncFunctionDef)):
            out.setdefault(n.name, []).append(n)
    return out


def real_def(defs):
    cands = [d for d in defs if "overload" not in decorators(d)]
    if not cands:
        raise Untranslatable(f"only overloads for {defs[0].name}")
    return cands[-1]


def table(tree, name):
    for n in tree.body:
        if isinstance(n, ast.Assign) and isinstance(n.targets[0], ast.Name) and n.targets[0].id == name:
            if not isinstance(n.value, ast.Dict):
                raise Untranslatable(f"{name} is not a dict literal")
            out = []
            for k, v in zip(n.value.keys, n.value.values):
                if not (isinstance(k, ast.Constant) and isinstance(k.value, str)):
                    raise Untranslatable(f"{name} key {ast.unparse(k)}")
                if isinstance(v, ast.Name):
                    out.append((k.value, v.id))
                elif isinstance(v, ast.Attribute):
                    out.append((k.value, ast.unparse(v)))
                else:
                    raise Untranslatable(f"{name}[{k.value!r}] = {ast.unparse(v)}")
            return out
    raise Untranslatable(f"{name} not found")


def iter_param(async_fn):
    """the parameter that is iterated asynchronously: argument of auto_aiter / auto_to_list"""
    ps = set(params(async_fn))
    found = []
    for n in ast.walk(async_fn):
        if isinstance(n, ast.Call) and isinstance(n.func, ast.Name) and n.func.id in ("auto_aiter", "auto_to_list") and n.args \
                and isinstance(n.args[0], ast.Name) and n.args[0].id in ps and n.args[0].id not in found:
            found.append(n.args[0].id)
    return found


def classify(async_fn, sync_fn, helper_twins):
    """→ (shape text for Lean, notes)"""
    abody = strip_doc(async_fn.body)
    sbody = strip_doc(sync_fn.body)
    ps = params(async_fn)
    # syncOnList ------------------------------------------------------------------------------------
    if len(abody) == 1 and isinstance(abody[0], ast.Return) and isinstance(abody[0].value, ast.Call) \
            and isinstance(abody[0].value.func, ast.Name) and abody[0].value.func.id == sync_fn.name and not abody[0].value.keywords:
        args = abody[0].value.args
        if len(args) == len(ps) and ps == params(sync_fn):
            wrapped = 0
            ok = True
            for a, p in zip(args, ps):
                if isinstance(a, ast.Name) and a.id == p:
                    continue
                if (isinstance(a, ast.Await) and isinstance(a.value, ast.Call) and isinstance(a.value.func, ast.Name)
                        and a.value.func.id == "auto_to_list" and len(a.value.args) == 1 and isinstance(a.value.args[0], ast.Name)
                        and a.value.args[0].id == p):
                    wrapped += 1
                    continue
                ok = False
            if ok and wrapped == 1:
                return ".syncOnList", []
    # erases ----------------------------------------------------------------------------------------
    e = EraseFn(helper_twins)
    erased = e.visit(copy.deepcopy(async_fn))
    if dump_body(erased.body) == dump_body(sbody):
        return ".erases", sorted(e.notes)
    # fold ------------------------------------------------------------------------------------------
    loops = [s for s in abody if isinstance(s, ast.AsyncFor)]
    if (len(loops) == 1 and isinstance(abody[0], ast.Assign) and isinstance(abody[0].targets[0], ast.Name)
            and isinstance(abody[0].value, ast.Name) and abody[0].value.id in ps
            and isinstance(abody[-1], ast.Return) and isinstance(abody[-1].value, ast.Name)
            and abody[-1].value.id == abody[0].targets[0].id
            and isinstance(sbody[-1], ast.Return) and isinstance(sbody[-1].value, ast.Call)
            and isinstance(sbody[-1].value.func, ast.Name) and sbody[-1].value.func.id == "sum"
            and len(sbody[-1].value.args) == 2 and isinstance(sbody[-1].value.args[1], ast.Name)
            and sbody[-1].value.args[1].id == abody[0].value.id):
        rv = abody[0].targets[0].id
        loop = loops[0]
        it = loop.iter
        if (isinstance(it, ast.Call) and isinstance(it.func, ast.Name) and it.func.id == "auto_aiter" and len(it.args) == 1
                and isinstance(it.args[0], ast.Name) and it.args[0].id in ps and len(loop.body) == 1 and not loop.orelse):
            st = loop.body[0]
            if isinstance(st, ast.Assign) and isinstance(st.targets[0], ast.Name) and st.targets[0].id == rv \
                    and isinstance(st.value, ast.BinOp) and isinstance(st.value.op, ast.Add) \
                    and isinstance(st.value.left, ast.Name) and st.value.left.id == rv:
                return "(.fold .rebind)", []
            if isinstance(st, ast.AugAssign) and isinstance(st.target, ast.Name) and st.target.id == rv and isinstance(st.op, ast.Add):
                return "(.fold .inplace)", []
    raise Untranslatable(f"async variant {async_fn.name} of {sync_fn.name}: body shape not recognised")


def consumes_iterable(fn):
    """does the function consume an iterable argument: annotation of a parameter names an iterable type, or the body
    iterates a parameter directly"""
    a = fn.args
    ps = a.posonlyargs + a.args
    names = {p.arg for p in ps}
    for p in ps:
        if p.annotation is not None:
            txt = p.annotation.value if isinstance(p.annotation, ast.Constant) and isinstance(p.annotation.value, str) \
                else ast.unparse(p.annotation)
            if any(k in txt for k in ITERISH):
                return True
    for n in ast.walk(fn):
        if isinstance(n, (ast.For, ast.AsyncFor, ast.comprehension)) and isinstance(n.iter, ast.Name) and n.iter.id in names:
            return True
        if isinstance(n, ast.Call) and isinstance(n.func, ast.Name) and n.func.id in ITER_BUILTINS:
            if any(isinstance(x, ast.Name) and x.id in names for x in n.args):
                return True
        if isinstance(n, ast.Compare) and any(isinstance(o, (ast.In, ast.NotIn)) for o in n.ops):
            if any(isinstance(c, ast.Name) and c.id in names for c in n.comparators):
                return True
    return False


BUILTIN_CONSUMERS = {"len": True, "abs": False, "escape": False, "soft_str": False, "callable": False,
                     "operator.eq": False, "operator.ne": False, "operator.lt": False, "operator.le": False,
                     "operator.gt": False, "operator.ge": False}


def inventory(mod, table_name):
    tree = parse(mod)
    funcs = module_funcs(tree)
    tab = table(tree, table_name)
    # helper twins: async helpers (not decorated) whose erasure is a sync function of the module: async_X ↔ X
    helper_twins, helpers = {}, []
    for name, defs in funcs.items():
        d = defs[-1]
        if isinstance(d, ast.AsyncFunctionDef) and variant_of(d) is None:
            twin = name[len("async_"):] if name.startswith("async_") else None
            if twin is None or twin not in funcs:
                raise Untranslatable(f"async helper {name} has no sync twin")
            e = EraseFn({})
            if dump_body(e.visit(copy.deepcopy(d)).body) != dump_body(real_def(funcs[twin]).body):
                raise Untranslatable(f"async helper {name} does not erase to {twin}")
            helper_twins[name] = twin
            helpers.append((name, twin, has_yield(d)))
    pairs = []
    by_async = {}
    for name, defs in funcs.items():
        d = real_def(defs) if any("overload" not in decorators(x) for x in defs) else None
        if d is None or not isinstance(d, ast.AsyncFunctionDef):
            continue
        s = variant_of(d)
        if s is None:
            continue
        if s not in funcs:
            raise Untranslatable(f"{name}: sync function {s} not found")
        sfn = real_def(funcs[s])
        shape, notes = classify(d, sfn, helper_twins)
        agen = has_yield(d)
        if not agen:
            # returns the result of an async-generator helper?
            for n in ast.walk(d):
                if isinstance(n, ast.Return) and isinstance(n.value, ast.Call) and isinstance(n.value.func, ast.Name) \
                        and any(n.value.func.id == h and y for h, _, y in helpers):
                    agen = True
        sgen = has_yield(sfn)
        if not sgen:
            # returns the result of a module-level generator function?
            for n in ast.walk(sfn):
                if isinstance(n, ast.Return) and isinstance(n.value, ast.Call) and isinstance(n.value.func, ast.Name) \
                        and n.value.func.id in funcs and isinstance(funcs[n.value.func.id][-1], ast.FunctionDef) \
                        and has_yield(funcs[n.value.func.id][-1]):
                    sgen = True
        ips = iter_param(d)
        if not ips and shape == ".erases":
            # through a helper: the parameter handed to the helper in the position the helper iterates
            for n in ast.walk(d):
                if isinstance(n, ast.Call) and isinstance(n.func, ast.Name) and n.func.id in helper_twins:
                    hd = funcs[n.func.id][-1]
                    hp = iter_param(hd)
                    hps = params(hd)
                    for q in hp:
                        arg = n.args[hps.index(q)] if hps.index(q) < len(n.args) else None
                        if isinstance(arg, ast.Name):
                            ips.append(arg.id)
        if len(ips) != 1:
            raise Untranslatable(f"{name}: iterated parameter not unique: {ips}")
        by_async[name] = s
        pairs.append(dict(asyncFn=name, syncFn=s, shape=shape, asyncGen=agen, syncIsGen=sgen, iterParam=ips[0], notes=notes,
                          filters=[k for k, v in tab if v == name]))
    consumers = []
    for key, fname in tab:
        if fname in by_async:
            sfn = real_def(funcs[by_async[fname]])
            consumers.append((key, consumes_iterable(sfn), True))
        elif fname in funcs:
            d = real_def(funcs[fname])
            consumers.append((key, consumes_iterable(d), False))
        elif fname in BUILTIN_CONSUMERS:
            consumers.append((key, BUILTIN_CONSUMERS[fname], False))
        else:
            raise Untranslatable(f"{table_name}[{key!r}] = {fname}: unknown callable")
    return pairs, helpers, consumers


def _is_async_test(t):
    return ast.unparse(t) == "self.environment.is_async"


def _written(call):
    """the text a `self.write(…)` / `self.writeline(…)` call emits first: a str constant, or for an f-string the leading constant
    or a marker for `{self.filters[…]}` / `{self.tests[…]}` / `{self.choose_async('await ')}`"""
    if not (isinstance(call, ast.Call) and isinstance(call.func, ast.Attribute) and call.func.attr in ("write", "writeline")
            and isinstance(call.func.value, ast.Name) and call.func.value.id == "self" and call.args):
        return None
    a = call.args[0]
    if isinstance(a, ast.Constant) and isinstance(a.value, str):
        return a.value
    if isinstance(a, ast.JoinedStr):
        out = ""
        for v in a.values:
            if isinstance(v, ast.Constant):
                out += v.value
            else:
                e = ast.unparse(v.value)
                out += "<filter>" if e.startswith("self.filters[") else "<test>" if e.startswith("self.tests[") else \
                    "<await>" if e == "self.choose_async('await ')" else "<?>"
        return out
    return None


def await_sites():
    """READ from compiler.py: what the code generator wraps in `(await auto_await(` … `))` when `environment.is_async`, and what it
    prefixes with `choose_async('await ')`.  → (callee texts of awaited calls such as `environment.getattr`, `context.call`,
    `<filter>`, `<test>`;  callee texts after a bare `await`, such as `loop`, `environment.get_template`)"""
    tree = parse("compiler")
    wrapped, bare = [], []

    def first_writes(stmts):
        """texts of the first write on every path through stmts"""
        for st in stmts:
            if isinstance(st, ast.Expr):
                w = _written(st.value)
                if w is not None:
                    return [w]
            elif isinstance(st, ast.If):
                a, b = first_writes(st.body), first_writes(st.orelse)
                if a or b:
                    return a + b
        return []

    for fn in ast.walk(tree):
        if not isinstance(fn, ast.FunctionDef):
            continue
        for node, fld in [(n, f) for n in ast.walk(fn) for f in ("body", "orelse", "finalbody")]:
            body = getattr(node, fld, None)
            if not isinstance(body, list):
                continue
            for i, st in enumerate(body):
                if isinstance(st, ast.If) and _is_async_test(st.test) and len(st.body) == 1 and isinstance(st.body[0], ast.Expr) \
                        and _written(st.body[0].value) == "(await auto_await(":
                    nxt = first_writes(body[i + 1:])
                    if not nxt:
                        raise Untranslatable(f"{fn.name}: nothing written after `(await auto_await(`")
                    for w in nxt:
                        callee = w.split("(")[0]
                        if callee not in wrapped:
                            wrapped.append(callee)
                if isinstance(st, ast.Expr):
                    w = _written(st.value)
                    if w and "<await>" in w:
                        callee = w.split("<await>")[1].split("(")[0]
                        if callee and callee not in bare:
                            bare.append(callee)
    if not wrapped:
        raise Untranslatable("no `(await auto_await(` site found in compiler.py")
    return wrapped, bare


def gen():
    fpairs, fhelpers, fcons = inventory("filters", "FILTERS")
    tpairs, thelpers, tcons = inventory("tests", "TESTS")
    L = [HEADER, "import JinjaV.Model.Await\nnamespace JinjaV.Gen.AsyncPairs\nopen JinjaV.Await\n"]

    def pair_rows(pairs):
        rows = []
        for p in pairs:
            rows.append("  { asyncFn := %s, syncFn := %s, filters := %s, shape := %s, asyncGen := %s, syncIsGen := %s, iterParam := %s, notes := %s }" % (
                lstr(p["asyncFn"]), lstr(p["syncFn"]), llist(lstr(x) for x in p["filters"]), p["shape"], lbool(p["asyncGen"]),
                lbool(p["syncIsGen"]), lstr(p["iterParam"]), llist(lstr(x) for x in p["notes"])))
        return "[\n" + ",\n".join(rows) + "]" if rows else "[]"

    L.append("/-- read: every `@async_variant(sync_fn)` pair of filters.py with the shape of its async body -/")
    L.append("def filterPairs : List Pair :=\n" + pair_rows(fpairs) + "\n")
    L.append("/-- read: every `@async_variant` pair of tests.py -/")
    L.append("def testPairs : List Pair :=\n" + pair_rows(tpairs) + "\n")
    L.append("/-- read: async helper functions (not registered) and the sync function each erases to; (async, sync, is an async generator) -/")
    L.append("def helperTwins : List (String × String × Bool) :=\n  " + llist(
        f"({lstr(a)}, {lstr(b)}, {lbool(y)})" for a, b, y in fhelpers + thelpers) + "\n")
    L.append("/-- read: FILTERS entries that consume an iterable argument (parameter annotation or direct iteration in the body); "
             "(name, has an async variant) -/")
    L.append("def filterConsumers : List (String × Bool) :=\n  " + llist(
        f"({lstr(k)}, {lbool(v)})" for k, c, v in fcons if c) + "\n")
    L.append("/-- read: FILTERS entries with an async variant -/")
    L.append("def filterVariants : List String :=\n  " + llist(lstr(k) for k, c, v in fcons if v) + "\n")
    L.append("/-- read: TESTS entries that consume an iterable argument; (name, has an async variant) -/")
    L.append("def testConsumers : List (String × Bool) :=\n  " + llist(
        f"({lstr(k)}, {lbool(v)})" for k, c, v in tcons if c) + "\n")
    wrapped, bare = await_sites()
    L.append("/-- read (compiler.py): callees the code generator wraps in `(await auto_await(` … `))` in async mode -/")
    L.append("def awaitWrapped : List String :=\n  " + llist(lstr(x) for x in wrapped) + "\n")
    L.append("/-- read (compiler.py): callees written after `choose_async('await ')` -/")
    L.append("def awaitBare : List String :=\n  " + llist(lstr(x) for x in bare) + "\n")
    L.append("end JinjaV.Gen.AsyncPairs\n")
    return "AsyncPairs.lean", "\n".join(L)


if __name__ == "__main__":
    print(gen()[1])
