"""Gen/HtmlRegex.lean: what the HTML-producing filters' theorems (C24) depend on in the source text.

READ from utils.py / filters.py with Python `ast` (regular expressions are parsed with `re._parser`, never by text matching):
  * the `.replace(a, b)` chain of `htmlsafe_json_dumps` applied to `dumps(obj, **kwargs)`, in application order, and that the
    result is wrapped in `markupsafe.Markup(...)` directly
  * pattern strings and flags of `_http_re`, `_email_re` (utils.py), `_attr_key_re`, `_uri_scheme_re` (filters.py) and of the
    regular expressions used inline by `urlize` (word split, leading / trailing punctuation, the `endswith` tuple, the
    balancing pairs)
  * the members of `_attr_key_re`'s character class (the class must be a single `[...]` of literals, ranges and `\\s`)
  * how `do_xmlattr` uses the key pattern (`if _attr_key_re.search(key) is not None: raise ValueError`) and which values it skips
"""
from __future__ import annotations

import ast
import re
import re._constants as C
import re._parser as P

from .common import HEADER, Untranslatable, find_func, llist, lstr, parse

FLAG_NAMES = {"I": "IGNORECASE", "IGNORECASE": "IGNORECASE", "X": "VERBOSE", "VERBOSE": "VERBOSE", "A": "ASCII",
              "ASCII": "ASCII", "M": "MULTILINE", "MULTILINE": "MULTILINE", "S": "DOTALL", "DOTALL": "DOTALL"}
ASCII_SPACE = " \t\n\r\x0c\x0b"


def lchar(ch: str) -> str:
    o = ord(ch)
    if ch == "'":
        return "'\\''"
    if ch == "\\":
        return "'\\\\'"
    if ch == "\n":
        return "'\\n'"
    if ch == "\t":
        return "'\\t'"
    if ch == "\r":
        return "'\\r'"
    if 32 <= o < 127:
        return f"'{ch}'"
    return "(Char.ofNat 0x%x)" % o


def const_str(node, what):
    if isinstance(node, ast.Constant) and isinstance(node.value, str):
        return node.value
    if isinstance(node, ast.JoinedStr):
        raise Untranslatable(f"{what}: f-string where a literal pattern is expected")
    raise Untranslatable(f"{what}: not a string literal: {ast.unparse(node)[:60]}")


def flags_of(node, what):
    """`re.A | re.X` -> ['ASCII', 'VERBOSE'] (sorted)"""
    if node is None:
        return []
    if isinstance(node, ast.BinOp) and isinstance(node.op, ast.BitOr):
        return sorted(set(flags_of(node.left, what) + flags_of(node.right, what)))
    if isinstance(node, ast.Attribute) and isinstance(node.value, ast.Name) and node.value.id == "re" and node.attr in FLAG_NAMES:
        return [FLAG_NAMES[node.attr]]
    raise Untranslatable(f"{what}: flags expression {ast.unparse(node)[:60]}")


def module_regex(tree, name):
    """`name = re.compile(<literal>, [flags])` at module level -> (pattern, flags)"""
    for st in tree.body:
        if isinstance(st, ast.Assign) and len(st.targets) == 1 and isinstance(st.targets[0], ast.Name) and st.targets[0].id == name:
            v = st.value
            if not (isinstance(v, ast.Call) and ast.unparse(v.func) == "re.compile" and 1 <= len(v.args) <= 2):
                raise Untranslatable(f"{name}: not a re.compile(...) call")
            fl = v.args[1] if len(v.args) == 2 else None
            for kw in v.keywords:
                if kw.arg == "flags" and fl is None:
                    fl = kw.value
                else:
                    raise Untranslatable(f"{name}: keyword {kw.arg}")
            return const_str(v.args[0], name), flags_of(fl, name)
    raise Untranslatable(f"{name} not found")


def flag_bits(names):
    b = 0
    for n in names:
        b |= getattr(re, n)
    return b


def char_class(pattern, flags, what):
    """members of a pattern that is exactly one character class"""
    parsed = list(P.parse(pattern, flag_bits(flags)))
    if len(parsed) != 1 or parsed[0][0] is not C.IN:
        raise Untranslatable(f"{what}: pattern {pattern!r} is not a single character class")
    chars, unicode_space = [], False
    for op, arg in parsed[0][1]:
        if op is C.LITERAL:
            chars.append(chr(arg))
        elif op is C.RANGE:
            lo, hi = arg
            if hi - lo > 64:
                raise Untranslatable(f"{what}: range too wide")
            chars += [chr(i) for i in range(lo, hi + 1)]
        elif op is C.CATEGORY and arg is C.CATEGORY_SPACE:
            chars += list(ASCII_SPACE)
            if "ASCII" not in flags:
                unicode_space = True
        elif op is C.NEGATE:
            raise Untranslatable(f"{what}: negated class")
        else:
            raise Untranslatable(f"{what}: class member {op} {arg}")
    out = []
    for ch in chars:
        if ch not in out:
            out.append(ch)
    return out, unicode_space


def tojson_chain(fn):
    """return markupsafe.Markup(dumps(obj, **kwargs).replace(a, b)....) -> [(a, b), ...] in application order"""
    rets = [s for s in fn.body if isinstance(s, ast.Return)]
    if len(rets) != 1 or fn.body[-1] is not rets[0]:
        raise Untranslatable("htmlsafe_json_dumps: expected one trailing return")
    v = rets[0].value
    if not (isinstance(v, ast.Call) and ast.unparse(v.func) in ("markupsafe.Markup", "Markup") and len(v.args) == 1 and not v.keywords):
        raise Untranslatable("htmlsafe_json_dumps: return value is not Markup(<one expression>)")
    e = v.args[0]
    chain = []
    while isinstance(e, ast.Call) and isinstance(e.func, ast.Attribute) and e.func.attr == "replace":
        if len(e.args) != 2 or e.keywords:
            raise Untranslatable("htmlsafe_json_dumps: .replace with other than two positional arguments")
        a, b = const_str(e.args[0], "tojson replace"), const_str(e.args[1], "tojson replace")
        if len(a) != 1:
            raise Untranslatable(f"htmlsafe_json_dumps: replace pattern {a!r} is not one character")
        chain.append((a, b))
        e = e.func.value
    if ast.unparse(e) != "dumps(obj, **kwargs)":
        raise Untranslatable(f"htmlsafe_json_dumps: innermost expression is {ast.unparse(e)[:60]}, not dumps(obj, **kwargs)")
    chain.reverse()
    return chain


def urlize_inline(fn):
    """the literal patterns used inside utils.urlize"""
    out = {"split": None, "head": None, "tail": None, "endswith": None, "pairs": None}
    for n in ast.walk(fn):
        if isinstance(n, ast.Call) and isinstance(n.func, ast.Attribute) and isinstance(n.func.value, ast.Name) and n.func.value.id == "re":
            kind = n.func.attr
            pat = const_str(n.args[0], "urlize re." + kind)
            if len(n.args) > 2 or n.keywords:
                raise Untranslatable("urlize: flags on an inline regular expression")
            key = {"split": "split", "match": "head", "search": "tail"}.get(kind)
            if key is None or out[key] is not None:
                raise Untranslatable(f"urlize: unexpected re.{kind}({pat!r})")
            out[key] = pat
        if isinstance(n, ast.Call) and isinstance(n.func, ast.Attribute) and n.func.attr == "endswith" and ast.unparse(n.func.value) == "middle":
            t = n.args[0]
            if not isinstance(t, ast.Tuple):
                raise Untranslatable("urlize: endswith argument is not a tuple")
            out["endswith"] = [const_str(x, "urlize endswith") for x in t.elts]
        if isinstance(n, ast.For) and isinstance(n.target, ast.Tuple) and ast.unparse(n.target) == "(start_char, end_char)":
            if not isinstance(n.iter, ast.Tuple):
                raise Untranslatable("urlize: balancing pairs")
            out["pairs"] = [(const_str(p.elts[0], "pair"), const_str(p.elts[1], "pair")) for p in n.iter.elts]
    missing = [k for k, v in out.items() if v is None]
    if missing:
        raise Untranslatable(f"urlize: could not find {missing}")
    return out


def xmlattr_usage(fn):
    """(key check present and raising ValueError, skipped value kinds)"""
    loop = [s for s in fn.body if isinstance(s, ast.For)]
    if len(loop) != 1:
        raise Untranslatable("do_xmlattr: expected one for loop")
    check, skips = False, []
    for st in loop[0].body:
        if isinstance(st, ast.If):
            test = " ".join(ast.unparse(st.test).split())
            if test == "_attr_key_re.search(key) is not None":
                if len(st.body) == 1 and isinstance(st.body[0], ast.Raise) and ast.unparse(st.body[0].exc).startswith("ValueError("):
                    check = True
                else:
                    raise Untranslatable("do_xmlattr: key check does not raise ValueError")
            elif len(st.body) == 1 and isinstance(st.body[0], ast.Continue):
                if test == "value is None or isinstance(value, Undefined)":
                    skips = ["None", "Undefined"]
                else:
                    raise Untranslatable(f"do_xmlattr: skip condition {test!r}")
            else:
                raise Untranslatable(f"do_xmlattr: statement {test[:60]!r}")
    return check, skips


def gen():
    utils, filters = parse("utils"), parse("filters")
    http, http_fl = module_regex(utils, "_http_re")
    email, email_fl = module_regex(utils, "_email_re")
    akey, akey_fl = module_regex(filters, "_attr_key_re")
    uri, uri_fl = module_regex(filters, "_uri_scheme_re")
    for nm, p, fl in (("_http_re", http, http_fl), ("_email_re", email, email_fl), ("_attr_key_re", akey, akey_fl), ("_uri_scheme_re", uri, uri_fl)):
        try:
            re.compile(p, flag_bits(fl))
        except re.error as e:
            raise Untranslatable(f"{nm}: does not compile: {e}")
    akey_chars, akey_uni = char_class(akey, akey_fl, "_attr_key_re")
    chain = tojson_chain(find_func(utils, "htmlsafe_json_dumps"))
    inl = urlize_inline(find_func(utils, "urlize"))
    check, skips = xmlattr_usage(find_func(filters, "do_xmlattr"))
    L = [HEADER, "namespace JinjaV.Gen.HtmlRegex\n",
         "-- READ utils.py htmlsafe_json_dumps: Markup(dumps(obj, **kwargs).replace(..)...), in application order",
         "def tojsonChain : List (Char × List Char) := " + llist(f"({lchar(a)}, {lstr(b)}.toList)" for a, b in chain) + "\n",
         "-- READ pattern strings and flags",
         f"def httpRePattern : String := {lstr(http)}", f"def httpReFlags : List String := {llist(map(lstr, http_fl))}",
         f"def emailRePattern : String := {lstr(email)}", f"def emailReFlags : List String := {llist(map(lstr, email_fl))}",
         f"def attrKeyRePattern : String := {lstr(akey)}", f"def attrKeyReFlags : List String := {llist(map(lstr, akey_fl))}",
         f"def uriSchemeRePattern : String := {lstr(uri)}", f"def uriSchemeReFlags : List String := {llist(map(lstr, uri_fl))}\n",
         "-- READ members of _attr_key_re's character class (\\s expanded to the ASCII whitespace characters)",
         "def attrKeyChars : List Char := " + llist(map(lchar, akey_chars)),
         f"def attrKeyUnicodeSpace : Bool := {'true' if akey_uni else 'false'}",
         "-- READ do_xmlattr: `if _attr_key_re.search(key) is not None: raise ValueError(...)`; values skipped before the check",
         f"def xmlattrKeyCheckRaises : Bool := {'true' if check else 'false'}",
         f"def xmlattrSkips : List String := {llist(map(lstr, skips))}\n",
         "-- READ literal patterns inside utils.urlize",
         f"def urlizeSplitPattern : String := {lstr(inl['split'])}", f"def urlizeHeadPattern : String := {lstr(inl['head'])}",
         f"def urlizeTailPattern : String := {lstr(inl['tail'])}",
         f"def urlizeTailEndswith : List String := {llist(map(lstr, inl['endswith']))}",
         "def urlizeBalancePairs : List (String × String) := " + llist(f"({lstr(a)}, {lstr(b)})" for a, b in inl["pairs"]) + "\n",
         "end JinjaV.Gen.HtmlRegex\n"]
    return "HtmlRegex.lean", "\n".join(L)
