"""Gen/NumTests.lean: the bodies of the numeric tests `odd`, `even`, `divisibleby` (tests.py), READ with Python `ast` and
translated into the little expression language of Model/NumTests.lean (value, num, integer literals, `%`, `==`, `!=`, `not`).
The model evaluates such a body on rationals with a common denominator, i.e. on every int and on every float whose
arithmetic is exact; Props/C02Num.lean proves the documented meaning of each test about the translated bodies."""
from __future__ import annotations

import ast

from .common import HEADER, Untranslatable, find_func, parse

TESTS = [("test_odd", "oddBody", ["value"]), ("test_even", "evenBody", ["value"]), ("test_divisibleby", "divisiblebyBody", ["value", "num"])]


def _exp(e, params):
    if isinstance(e, ast.Name) and e.id in params:
        return ".value" if e.id == params[0] else ".num"
    if isinstance(e, ast.Constant) and type(e.value) is int:
        return f"(.lit {e.value})" if e.value >= 0 else f"(.lit ({e.value}))"
    if isinstance(e, ast.UnaryOp) and isinstance(e.op, ast.USub) and isinstance(e.operand, ast.Constant) and type(e.operand.value) is int:
        return f"(.lit (-{e.operand.value}))"
    if isinstance(e, ast.BinOp) and isinstance(e.op, ast.Mod):
        return f"(.mod {_exp(e.left, params)} {_exp(e.right, params)})"
    raise Untranslatable(f"numeric test body: expression {ast.unparse(e)}")


def _test(e, params):
    if isinstance(e, ast.Compare) and len(e.ops) == 1 and isinstance(e.ops[0], (ast.Eq, ast.NotEq)):
        c = ".eq" if isinstance(e.ops[0], ast.Eq) else ".ne"
        return f"({c} {_exp(e.left, params)} {_exp(e.comparators[0], params)})"
    if isinstance(e, ast.UnaryOp) and isinstance(e.op, ast.Not):
        return f"(.not {_test(e.operand, params)})"
    raise Untranslatable(f"numeric test body: {ast.unparse(e)}")


def gen():
    tree = parse("tests")
    out = [HEADER, "import JinjaV.Model.NumTests\n", "namespace JinjaV.Gen.NumTests", "open JinjaV.NumTests\n"]
    for fname, lname, params in TESTS:
        f = find_func(tree, fname)
        if [a.arg for a in f.args.args] != params or f.args.vararg or f.args.kwarg or f.args.kwonlyargs or f.args.defaults:
            raise Untranslatable(f"{fname}: parameters are not {params}")
        body = [s for s in f.body if not (isinstance(s, ast.Expr) and isinstance(s.value, ast.Constant))]
        if len(body) != 1 or not isinstance(body[0], ast.Return) or body[0].value is None:
            raise Untranslatable(f"{fname}: body is not a single return")
        out.append(f"-- READ: tests.{fname}: `return {ast.unparse(body[0].value)}`")
        out.append(f"def {lname} : NTest := {_test(body[0].value, params)}\n")
    # registered under these names
    names = {}
    for st in tree.body:
        tgt = st.targets[0] if isinstance(st, ast.Assign) and len(st.targets) == 1 else (st.target if isinstance(st, ast.AnnAssign) else None)
        if isinstance(tgt, ast.Name) and tgt.id == "TESTS" and isinstance(st.value, ast.Dict):
            for k, v in zip(st.value.keys, st.value.values):
                if isinstance(k, ast.Constant) and isinstance(v, ast.Name):
                    names[k.value] = v.id
    for n, fn in (("odd", "test_odd"), ("even", "test_even"), ("divisibleby", "test_divisibleby")):
        if names.get(n) != fn:
            raise Untranslatable(f"TESTS[{n!r}] is {names.get(n)}, not {fn}")
    out.append("-- READ: TESTS registers odd -> test_odd, even -> test_even, divisibleby -> test_divisibleby")
    out.append("def registered : Bool := true\n")
    out.append("end JinjaV.Gen.NumTests")
    return "NumTests.lean", "\n".join(out) + "\n"
