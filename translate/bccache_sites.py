"""Gen/BcCacheSites.lean: the statement shapes of the bytecode cache that the C27 theorems speak about.
READ from bccache.py (and loaders.py for the place where the bucket is consulted):

* `Bucket.load_bytecode`: the ordered step list (read magic, compare, pickle.load, compare checksum, marshal.load) and for
  each decoder call the exception classes of the enclosing `try` handlers (empty = the call is not inside any try);
* `Bucket.write_bytecode`: the order in which magic / checksum / code are written;
* `BytecodeCache.get_bucket`/`get_cache_key`/`get_source_checksum`: which parameters feed the key and the checksum;
* `FileSystemBytecodeCache.load_bytecode`: classes caught around `open`;
* `FileSystemBytecodeCache.dump_bytecode`: the step list (temporary file in the same directory, write+close, os.replace)
  with the except clauses (classes, whether the temporary is removed, whether the exception is re-raised);
* `MemcachedBytecodeCache.load_bytecode/dump_bytecode`: the `ignore_memcache_errors` guards;
* `BaseLoader.load`: the order get_source -> get_bucket -> compile-if-none -> set_bucket-if-none.

Anything outside the recognised shapes raises Untranslatable (a broken tie)."""
from __future__ import annotations

import ast

from .common import HEADER, Untranslatable, find_class, find_func, lbool, llist, lstr, parse


def _u(n) -> str:
    return ast.unparse(n)


def _body(fn):
    """function body without the docstring"""
    b = list(fn.body)
    if b and isinstance(b[0], ast.Expr) and isinstance(b[0].value, ast.Constant) and isinstance(b[0].value.value, str):
        b = b[1:]
    return b


def _classes(h: ast.ExceptHandler) -> list[str]:
    """exception class names of one handler; a bare `except:` is BaseException"""
    if h.type is None:
        return ["BaseException"]
    elts = h.type.elts if isinstance(h.type, ast.Tuple) else [h.type]
    out = []
    for e in elts:
        if isinstance(e, ast.Name):
            out.append(e.id)
        elif isinstance(e, ast.Attribute) and isinstance(e.value, ast.Name):
            out.append(e.attr)          # pickle.UnpicklingError -> UnpicklingError
        else:
            raise Untranslatable(f"exception class expression {_u(e)}")
    return out


def _is_reset_return(stmts) -> bool:
    return [_u(s) for s in stmts] == ["self.reset()", "return"]


def _calls(node, dotted: str) -> bool:
    return any(isinstance(n, ast.Call) and _u(n.func) == dotted for n in ast.walk(node))


# ---------------------------------------------------------------------------------------------------
# Bucket.load_bytecode
# ---------------------------------------------------------------------------------------------------

def load_steps(fn):
    steps = []
    sites = []

    def decoder_stmt(st, caught, line_of):
        src = _u(st)
        if src == "checksum = pickle.load(f)":
            steps.append(("loadChecksum", caught))
            sites.append(("Bucket.load_bytecode", "pickle.load", line_of.lineno, caught))
            return True
        if src == "self.code = marshal.load(f)":
            steps.append(("loadCode", caught))
            sites.append(("Bucket.load_bytecode", "marshal.load", line_of.lineno, caught))
            return True
        return False

    for st in _body(fn):
        src = _u(st)
        if src == "magic = f.read(len(bc_magic))":
            steps.append(("readMagic", None))
        elif isinstance(st, ast.If) and _u(st.test) in ("magic != bc_magic", "bc_magic != magic") and not st.orelse \
                and _is_reset_return(st.body):
            steps.append(("checkMagic", None))
        elif isinstance(st, ast.If) and _u(st.test) in ("self.checksum != checksum", "checksum != self.checksum") \
                and not st.orelse and _is_reset_return(st.body):
            steps.append(("checkChecksum", None))
        elif isinstance(st, ast.Try):
            if st.orelse or st.finalbody or not st.handlers:
                raise Untranslatable(f"load_bytecode: try with else/finally at line {st.lineno}")
            caught = []
            for h in st.handlers:
                if not _is_reset_return(h.body):
                    raise Untranslatable(f"load_bytecode: handler at line {h.lineno} is not `self.reset(); return`")
                caught += _classes(h)
            for inner in st.body:
                if not decoder_stmt(inner, caught, inner):
                    raise Untranslatable(f"load_bytecode: statement inside try: {_u(inner)}")
        elif decoder_stmt(st, [], st):
            pass
        else:
            raise Untranslatable(f"load_bytecode: unrecognised statement at line {st.lineno}: {src[:60]}")
    # no decoder call may hide anywhere else
    n_calls = sum(1 for n in ast.walk(fn) if isinstance(n, ast.Call) and _u(n.func) in ("pickle.load", "marshal.load",
                                                                                       "pickle.loads", "marshal.loads"))
    if n_calls != len(sites):
        raise Untranslatable("load_bytecode: decoder call outside the recognised statements")
    return steps, sites


def write_steps(fn):
    out = []
    for st in _body(fn):
        src = _u(st)
        if isinstance(st, ast.If) and _u(st.test) == "self.code is None" and isinstance(st.body[0], ast.Raise):
            continue
        if src == "f.write(bc_magic)":
            out.append("magic")
        elif src.startswith("pickle.dump(self.checksum, f"):
            out.append("checksum")
        elif src == "marshal.dump(self.code, f)":
            out.append("code")
        else:
            raise Untranslatable(f"write_bytecode: {src[:60]}")
    return out


# ---------------------------------------------------------------------------------------------------
# key / checksum inputs
# ---------------------------------------------------------------------------------------------------

def hash_inputs(fn):
    """parameter names (other than self) that flow into the function's result: every Name load in the body that is a
    parameter"""
    params = [a.arg for a in fn.args.args if a.arg != "self"]
    used = []
    for n in ast.walk(fn):
        if isinstance(n, ast.Name) and isinstance(n.ctx, ast.Load) and n.id in params and n.id not in used:
            used.append(n.id)
    return sorted(used)


def digest_shapes(key_fn, ck_fn):
    """get_source_checksum returns the SHA-1 of the whole, unmodified source; get_cache_key that of name and '|'+filename"""
    ck_ok = [_u(x) for x in _body(ck_fn)] == ["return sha1(source.encode('utf-8')).hexdigest()"]
    key_ok = [" ".join(_u(x).split()) for x in _body(key_fn)] == [
        "hash = sha1(name.encode('utf-8'))", "if filename is not None: hash.update(f'|{filename}'.encode())",
        "return hash.hexdigest()"]
    return key_ok, ck_ok


def get_bucket_shape(fn):
    want = ["key = self.get_cache_key(name, filename)", "checksum = self.get_source_checksum(source)",
            "bucket = Bucket(environment, key, checksum)", "self.load_bytecode(bucket)", "return bucket"]
    got = [_u(s) for s in _body(fn)]
    return got == want, got


# ---------------------------------------------------------------------------------------------------
# FileSystemBytecodeCache
# ---------------------------------------------------------------------------------------------------

def fs_load(fn):
    caught = None
    uses_with = False
    for st in _body(fn):
        if isinstance(st, ast.Try) and any(_u(s).startswith("f = open(filename, 'rb')") for s in st.body):
            caught = []
            for h in st.handlers:
                if [_u(s) for s in h.body] != ["return"]:
                    raise Untranslatable("fs load_bytecode: open handler is not `return`")
                caught += _classes(h)
        elif isinstance(st, ast.With) and [_u(s) for s in st.body] == ["bucket.load_bytecode(f)"]:
            uses_with = True
        elif isinstance(st, ast.Assign) and _u(st) == "filename = self._get_cache_filename(bucket)":
            pass
        elif isinstance(st, ast.If) and _calls(st, "bucket.load_bytecode"):
            # `if path.exists(filename): with open(...)`: open not guarded
            caught = [] if caught is None else caught
            uses_with = True
        else:
            raise Untranslatable(f"fs load_bytecode: {_u(st)[:60]}")
    if caught is None:
        raise Untranslatable("fs load_bytecode: no open()")
    return caught, uses_with


def _handlers(st: ast.Try, remover: str):
    hs = []
    for h in st.handlers:
        body = [_u(s) for s in h.body]
        removes = f"{remover}()" in body
        reraises = "raise" in body
        rest = [b for b in body if b not in (f"{remover}()", "raise", "pass")]
        if rest:
            raise Untranslatable(f"dump_bytecode handler does something else: {rest}")
        hs.append((_classes(h), removes, reraises))
    return hs


def fs_dump(fn):
    steps = []
    tmpvar = None
    remover = None
    for st in _body(fn):
        src = _u(st)
        if src == "name = self._get_cache_filename(bucket)":
            continue
        if isinstance(st, ast.FunctionDef):
            # def remove_silent(): try: os.remove(f.name) except OSError: pass
            inner = st.body
            if len(inner) == 1 and isinstance(inner[0], ast.Try) and [_u(s) for s in inner[0].body] == ["os.remove(f.name)"] \
                    and all([_u(s) for s in h.body] == ["pass"] for h in inner[0].handlers):
                remover = st.name
                continue
            raise Untranslatable(f"dump_bytecode: nested function {st.name}")
        if isinstance(st, ast.Assign) and isinstance(st.value, ast.Call) and _u(st.value.func) == "tempfile.NamedTemporaryFile":
            kw = {k.arg: _u(k.value) for k in st.value.keywords}
            tmpvar = _u(st.targets[0])
            steps.append(("createTmp", dict(
                sameDir=kw.get("dir") == "os.path.dirname(name)",
                prefixIsName=kw.get("prefix") == "os.path.basename(name)",
                suffix=ast.literal_eval(kw.get("suffix", "''")),
                delete=kw.get("delete", "True") != "False",
                binary=kw.get("mode") in ("'wb'", "'w+b'"))))
            continue
        if isinstance(st, ast.Try) and len(st.body) == 1 and isinstance(st.body[0], ast.With):
            w = st.body[0]
            if [_u(i.context_expr) for i in w.items] == [tmpvar] and [_u(s) for s in w.body] == [f"bucket.write_bytecode({tmpvar})"]:
                steps.append(("writeClose", _handlers(st, remover)))
                continue
        if isinstance(st, ast.With) and [_u(i.context_expr) for i in st.items] == [tmpvar] \
                and [_u(s) for s in st.body] == [f"bucket.write_bytecode({tmpvar})"]:
            steps.append(("writeClose", []))
            continue
        if isinstance(st, ast.Try) and [_u(s) for s in st.body] in ([f"os.replace({tmpvar}.name, name)"],
                                                                   [f"os.rename({tmpvar}.name, name)"]):
            steps.append(("replaceTmp", _handlers(st, remover)))
            continue
        if src in (f"os.replace({tmpvar}.name, name)", f"os.rename({tmpvar}.name, name)"):
            steps.append(("replaceTmp", []))
            continue
        # writing the entry in place (the documented "very basic" cache): with open(name, 'wb') as f: bucket.write_bytecode(f)
        if isinstance(st, ast.With) and len(st.items) == 1 and isinstance(st.items[0].context_expr, ast.Call) \
                and _u(st.items[0].context_expr.func) == "open" and _u(st.items[0].context_expr.args[0]) == "name" \
                and _calls(st, "bucket.write_bytecode"):
            steps.append(("writeEntryInPlace", None))
            continue
        raise Untranslatable(f"dump_bytecode: unrecognised statement at line {st.lineno}: {src[:60]}")
    return steps


def fs_default_pattern(init, namefn):
    """default of FileSystemBytecodeCache(pattern=…) split at its single %s; entry file name = pattern % (bucket.key,)"""
    args = init.args
    names = [a.arg for a in args.args]
    if "pattern" not in names:
        raise Untranslatable("FileSystemBytecodeCache.__init__ has no pattern parameter")
    d = args.defaults[names.index("pattern") - (len(names) - len(args.defaults))]
    if not (isinstance(d, ast.Constant) and isinstance(d.value, str) and d.value.count("%s") == 1 and d.value.count("%") == 1):
        raise Untranslatable("pattern default is not a string with exactly one %s")
    if [_u(x) for x in _body(namefn)] != ["return os.path.join(self.directory, self.pattern % (bucket.key,))"]:
        raise Untranslatable("_get_cache_filename is not join(directory, pattern % (key,))")
    pre, post = d.value.split("%s")
    if any(c in pre + post for c in "*?[]"):
        raise Untranslatable("pattern default contains glob metacharacters")
    return pre, post


def fs_clear_pattern(fn):
    """clear() removes the files matching pattern % '*' in self.directory"""
    src = _u(fn)
    return "fnmatch.filter(os.listdir(self.directory), self.pattern % ('*',))" in src


# ---------------------------------------------------------------------------------------------------
# MemcachedBytecodeCache
# ---------------------------------------------------------------------------------------------------

def mc_guard(fn, call: str):
    """the try around client.<call>: caught classes, `if not self.ignore_memcache_errors: raise` guard, else-branch loads"""
    for st in _body(fn):
        if isinstance(st, ast.Try) and _calls(ast.Module(body=st.body, type_ignores=[]), f"self.client.{call}"):
            caught = []
            guarded = True
            for h in st.handlers:
                caught += _classes(h)
                body = h.body
                ok = len(body) == 1 and isinstance(body[0], ast.If) and _u(body[0].test) == "not self.ignore_memcache_errors" \
                    and [_u(s) for s in body[0].body] == ["raise"] and not body[0].orelse
                guarded = guarded and ok
            else_loads = [_u(s) for s in st.orelse] == ["bucket.bytecode_from_string(code)"]
            return caught, guarded, else_loads
    for n in ast.walk(fn):
        if isinstance(n, ast.Call) and _u(n.func) == f"self.client.{call}":
            return [], False, False
    raise Untranslatable(f"memcached: no client.{call}")


# ---------------------------------------------------------------------------------------------------
# BaseLoader.load
# ---------------------------------------------------------------------------------------------------

def loader_shape(fn):
    got = []
    for st in _body(fn):
        src = _u(st)
        if src in ("code = None",) or (isinstance(st, ast.If) and _u(st.test) == "globals is None"):
            continue
        got.append(" ".join(src.split()))
    want = [
        "source, filename, uptodate = self.get_source(environment, name)",
        "bcc = environment.bytecode_cache",
        "if bcc is not None: bucket = bcc.get_bucket(environment, name, filename, source) code = bucket.code",
        "if code is None: code = environment.compile(source, name, filename)",
        "if bcc is not None and bucket.code is None: bucket.code = code bcc.set_bucket(bucket)",
        "return environment.template_class.from_code(environment, code, globals, uptodate)",
    ]
    return got == want


def magic_dependencies(tree):
    """what the module-level `bc_magic = …` is computed from: every name, dotted attribute and constant-index subscript in
    the expression (e.g. `bc_version`, `pickle.dumps`, `sys.version_info[0]`)"""
    assigns = [n for n in tree.body if isinstance(n, ast.Assign)
               and any(isinstance(t, ast.Name) and t.id == "bc_magic" for t in n.targets)]
    others = [n for n in ast.walk(tree) if isinstance(n, (ast.Assign, ast.AugAssign, ast.AnnAssign))
              and n not in assigns and any(isinstance(t, ast.Name) and t.id == "bc_magic" for t in ast.walk(n)
                                           if isinstance(t, ast.Name) and isinstance(t.ctx, ast.Store))]
    if len(assigns) != 1 or others:
        raise Untranslatable("bc_magic is not assigned exactly once at module level")
    deps = []

    def visit(n):
        if isinstance(n, ast.Subscript) and isinstance(n.slice, ast.Constant):
            deps.append(_u(n))
            return
        if isinstance(n, ast.Attribute):
            deps.append(_u(n))
            return
        if isinstance(n, ast.Name):
            deps.append(n.id)
            return
        for c in ast.iter_child_nodes(n):
            visit(c)
    visit(assigns[0].value)
    return sorted(set(deps))


def gen():
    tree = parse("bccache")
    magic_deps = magic_dependencies(tree)
    bucket = find_class(tree, "Bucket")
    steps, sites = load_steps(find_func(bucket, "load_bytecode"))
    wsteps = write_steps(find_func(bucket, "write_bytecode"))
    base = find_class(tree, "BytecodeCache")
    key_in = hash_inputs(find_func(base, "get_cache_key"))
    ck_in = hash_inputs(find_func(base, "get_source_checksum"))
    gb_ok, _ = get_bucket_shape(find_func(base, "get_bucket"))
    key_sha_ok, ck_sha_ok = digest_shapes(find_func(base, "get_cache_key"), find_func(base, "get_source_checksum"))
    set_ok = [_u(s) for s in _body(find_func(base, "set_bucket"))] == ["self.dump_bytecode(bucket)"]
    fs = find_class(tree, "FileSystemBytecodeCache")
    open_caught, uses_with = fs_load(find_func(fs, "load_bytecode"))
    dsteps = fs_dump(find_func(fs, "dump_bytecode"))
    clear_ok = fs_clear_pattern(find_func(fs, "clear"))
    pat_pre, pat_post = fs_default_pattern(find_func(fs, "__init__"), find_func(fs, "_get_cache_filename"))
    mc = find_class(tree, "MemcachedBytecodeCache")
    mg = mc_guard(find_func(mc, "load_bytecode"), "get")
    ms = mc_guard(find_func(mc, "dump_bytecode"), "set")
    ld_ok = loader_shape(find_func(find_class(parse("loaders"), "BaseLoader"), "load"))

    def strs(xs):
        return llist(map(lstr, xs))

    def lstep(s):
        k, c = s
        return f".{k} {strs(c)}" if c is not None else f".{k}"

    def handler(h):
        cls, rem, rer = h
        return f"{{ classes := {strs(cls)}, removesTmp := {lbool(rem)}, reraises := {lbool(rer)} }}"

    def dstep(s):
        k, a = s
        if k == "createTmp":
            return (f".createTmp {lbool(a['sameDir'])} {lbool(a['prefixIsName'])} {lstr(a['suffix'])} {lbool(a['delete'])}")
        if k in ("writeClose", "replaceTmp"):
            return f".{k} {llist(map(handler, a))}"
        return f".{k}"

    def guard(name, call, g):
        c, gd, el = g
        return (f"{{ func := {lstr(name)}, call := {lstr(call)}, caught := {strs(c)}, reraiseUnlessIgnore := {lbool(gd)}, "
                f"elseLoads := {lbool(el)} }}")

    dump_rows = ",\n  ".join(map(dstep, dsteps))
    site_rows = ",\n".join(f"  {{ func := {lstr(f)}, call := {lstr(c)}, line := {ln}, caught := {strs(ca)} }}"
                           for f, c, ln, ca in sites)
    return "BcCacheSites.lean", HEADER + f"""namespace JinjaV.Gen.BcCacheSites

/-- one statement of `Bucket.load_bytecode`; `caught` = exception classes of the enclosing try handlers
    (all of them `self.reset(); return`), `[]` = the call is not inside any try -/
inductive LoadStep where
  | readMagic                              -- magic = f.read(len(bc_magic))
  | checkMagic                             -- if magic != bc_magic: self.reset(); return
  | loadChecksum (caught : List String)    -- checksum = pickle.load(f)
  | checkChecksum                          -- if self.checksum != checksum: self.reset(); return
  | loadCode (caught : List String)        -- self.code = marshal.load(f)
  deriving Repr, DecidableEq

-- READ: Bucket.load_bytecode, in source order
def loadSteps : List LoadStep := {llist(map(lstep, steps))}

structure DecoderSite where
  func : String
  call : String
  line : Nat
  caught : List String
  deriving Repr, DecidableEq

-- READ: every pickle/marshal decoder call in Bucket.load_bytecode with the classes its handlers catch
def decoderSites : List DecoderSite := [
{site_rows}
]

-- READ: what the module-level `bc_magic` is computed from (names, dotted attributes, constant-index subscripts)
def magicDependsOn : List String := {strs(magic_deps)}

-- READ: Bucket.write_bytecode writes these parts in this order
def writeParts : List String := {strs(wsteps)}

-- READ: parameters feeding BytecodeCache.get_cache_key / get_source_checksum; get_bucket has the shape
-- key = get_cache_key(name, filename); checksum = get_source_checksum(source); Bucket(environment, key, checksum); load
def keyInputs : List String := {strs(key_in)}
def checksumInputs : List String := {strs(ck_in)}
def getBucketShape : Bool := {lbool(gb_ok)}
-- READ: get_source_checksum is `return sha1(source.encode("utf-8")).hexdigest()` (the whole source, nothing normalised away);
-- get_cache_key hashes name and, if given, "|" + filename
def checksumIsSha1OfWholeSource : Bool := {lbool(ck_sha_ok)}
def keyIsSha1OfNameAndFilename : Bool := {lbool(key_sha_ok)}
def setBucketDumps : Bool := {lbool(set_ok)}

-- READ: BaseLoader.load: get_source; get_bucket(environment, name, filename, source); compile iff bucket.code is None;
-- then set_bucket iff the bucket had no code
def loaderLoadShape : Bool := {lbool(ld_ok)}

-- READ: FileSystemBytecodeCache.load_bytecode: classes caught (handler `return`) around open(filename, "rb")
def fsOpenCaught : List String := {strs(open_caught)}
def fsLoadClosesFile : Bool := {lbool(uses_with)}

structure Handler where
  classes : List String
  removesTmp : Bool      -- calls remove_silent() (os.remove(f.name), OSError ignored)
  reraises : Bool
  deriving Repr, DecidableEq

/-- one statement of `FileSystemBytecodeCache.dump_bytecode` -/
inductive DumpStep where
  /-- f = tempfile.NamedTemporaryFile(mode="wb", dir=…, prefix=…, suffix=…, delete=…) -/
  | createTmp (sameDir prefixIsName : Bool) (suffix : String) (delete : Bool)
  /-- try: with f: bucket.write_bytecode(f)  (handlers as listed; [] = no try) -/
  | writeClose (handlers : List Handler)
  /-- try: os.replace(f.name, name) -/
  | replaceTmp (handlers : List Handler)
  /-- with open(name, "wb") as f: bucket.write_bytecode(f) — the entry is written in place -/
  | writeEntryInPlace
  deriving Repr, DecidableEq

-- READ: FileSystemBytecodeCache.dump_bytecode, in source order
def dumpSteps : List DumpStep := [
  {dump_rows}
]

-- READ: FileSystemBytecodeCache.clear removes exactly the directory entries matching `pattern % "*"`
def clearUsesPattern : Bool := {lbool(clear_ok)}

-- READ: the default `pattern` of FileSystemBytecodeCache, split at its %s; the entry's file name is pattern % (key,)
def defaultPatternPre : String := {lstr(pat_pre)}
def defaultPatternPost : String := {lstr(pat_post)}

structure McGuard where
  func : String
  call : String
  caught : List String
  reraiseUnlessIgnore : Bool   -- every handler is `if not self.ignore_memcache_errors: raise`
  elseLoads : Bool             -- try/else: bucket.bytecode_from_string(code)
  deriving Repr, DecidableEq

-- READ: MemcachedBytecodeCache
def mcGuards : List McGuard := [
  {guard("load_bytecode", "client.get", mg)},
  {guard("dump_bytecode", "client.set", ms)}
]

end JinjaV.Gen.BcCacheSites
"""
