"""Gen/NativeGuards.lean: the places where an empty piece of template text is dropped before it can become an output
node.  READ (Python ast) from lexer.py and parser.py:

* the members of `lexer.ignore_if_empty`;
* in `Lexer.tokeniter`, the yield of a group of a tuple rule (`data = groups[idx]`): is it guarded by
  `if data or token not in ignore_if_empty:` and is the value that is yielded the very value that was tested (the guarded
  suite is exactly the yield of `lineno, token, data`, and nothing assigns `data` between the test and the yield);
* in `Parser.subparse`, the `data` branch: is `add_data(nodes.TemplateData(token.value, …))` guarded by `if token.value:`.

* in `CodeGenerator.visit_Output` (compiler.py): the list `body` of constant groups / runtime nodes is built by `append`
  only (never re-assigned, filtered, or shortened), and the loop that writes it out writes every constant group
  unconditionally (`yield <repr>` / `<repr>,`): no group is skipped, empty or not.

A native template whose only output is one expression returns the value itself only if no empty string is yielded next
to it (nativetypes.native_concat looks at the number of pieces), hence C34 states theorems over these facts."""
from __future__ import annotations

import ast

from .common import HEADER, Untranslatable, find_class, find_func, lbool, llist, lstr, parse


def _const_names(tree):
    """module-level NAME = "literal" assignments (the TOKEN_* constants; `intern("x")` is unwrapped)"""
    out = {}
    for st in tree.body:
        if isinstance(st, ast.Assign) and len(st.targets) == 1 and isinstance(st.targets[0], ast.Name):
            v = st.value
            if isinstance(v, ast.Call) and isinstance(v.func, ast.Name) and v.func.id == "intern" and len(v.args) == 1:
                v = v.args[0]
            if isinstance(v, ast.Constant) and isinstance(v.value, str):
                out[st.targets[0].id] = v.value
    return out


def _ignore_if_empty(tree):
    names = _const_names(tree)
    for st in tree.body:
        if isinstance(st, ast.Assign) and len(st.targets) == 1 and isinstance(st.targets[0], ast.Name) \
                and st.targets[0].id == "ignore_if_empty":
            v = st.value
            if not (isinstance(v, ast.Call) and isinstance(v.func, ast.Name) and v.func.id == "frozenset" and len(v.args) == 1
                    and isinstance(v.args[0], (ast.List, ast.Tuple, ast.Set))):
                raise Untranslatable("ignore_if_empty is not frozenset([...])")
            out = []
            for e in v.args[0].elts:
                if isinstance(e, ast.Name) and e.id in names:
                    out.append(names[e.id])
                elif isinstance(e, ast.Constant) and isinstance(e.value, str):
                    out.append(e.value)
                else:
                    raise Untranslatable(f"ignore_if_empty member {ast.unparse(e)}")
            return out
    raise Untranslatable("ignore_if_empty not found")


def _is_empty_test(test, value_name, token_name):
    """`<value_name> or <token_name> not in ignore_if_empty`"""
    return (isinstance(test, ast.BoolOp) and isinstance(test.op, ast.Or) and len(test.values) == 2
            and isinstance(test.values[0], ast.Name) and test.values[0].id == value_name
            and isinstance(test.values[1], ast.Compare) and len(test.values[1].ops) == 1
            and isinstance(test.values[1].ops[0], ast.NotIn)
            and isinstance(test.values[1].left, ast.Name) and test.values[1].left.id == token_name
            and isinstance(test.values[1].comparators[0], ast.Name) and test.values[1].comparators[0].id == "ignore_if_empty")


def _yields(node):
    return [n for n in ast.walk(node) if isinstance(n, ast.Yield)]


def _group_yield(tokeniter):
    """the suite that handles a normal group of a tuple rule: `data = groups[idx]` followed by the yield.
    Returns (guarded, yields_tested_value)."""
    for node in ast.walk(tokeniter):
        body = getattr(node, "orelse", None)
        if not isinstance(node, ast.If) or not body:
            continue
        for k, st in enumerate(body):
            if isinstance(st, ast.Assign) and ast.unparse(st) == "data = groups[idx]":
                rest = body[k + 1:]
                ys = [y for s in rest for y in _yields(s)]
                if len(ys) != 1:
                    raise Untranslatable(f"tokeniter: {len(ys)} yields after `data = groups[idx]`")
                y = ys[0]
                if ast.unparse(y.value) != "(lineno, token, data)":
                    raise Untranslatable(f"tokeniter: group yield is {ast.unparse(y)}")
                first = rest[0]
                if isinstance(first, ast.If) and _is_empty_test(first.test, "data", "token") and not first.orelse \
                        and any(y in _yields(s) for s in first.body):
                    # the tested value is the yielded one: the guarded suite is the yield alone
                    exact = len(first.body) == 1 and isinstance(first.body[0], ast.Expr) and first.body[0].value is y
                    return True, exact
                if any(isinstance(s, ast.Expr) and s.value is y for s in rest):
                    return False, False          # yielded unconditionally
                raise Untranslatable("tokeniter: the guard around the group yield has an unknown shape")
    raise Untranslatable("tokeniter: `data = groups[idx]` not found")


def _subparse_guard(subparse):
    """the `if token.type == 'data':` branch of the loop in Parser.subparse"""
    for node in ast.walk(subparse):
        if isinstance(node, ast.If) and ast.unparse(node.test) == "token.type == 'data'":
            body = node.body
            calls = [n for s in body for n in ast.walk(s) if isinstance(n, ast.Call) and isinstance(n.func, ast.Name)
                     and n.func.id == "add_data"]
            if len(calls) != 1:
                raise Untranslatable(f"subparse data branch: {len(calls)} add_data calls")
            call = calls[0]
            if not (len(call.args) == 1 and isinstance(call.args[0], ast.Call)
                    and ast.unparse(call.args[0].func) == "nodes.TemplateData"
                    and call.args[0].args and ast.unparse(call.args[0].args[0]) == "token.value"):
                raise Untranslatable(f"subparse data branch: {ast.unparse(call)}")
            first = body[0]
            if isinstance(first, ast.If) and ast.unparse(first.test) == "token.value" and not first.orelse \
                    and len(first.body) == 1 and isinstance(first.body[0], ast.Expr) and first.body[0].value is call:
                return True
            if isinstance(first, ast.Expr) and first.value is call:
                return False
            raise Untranslatable("subparse data branch has an unknown shape")
    raise Untranslatable("subparse: data branch not found")


def _visit_output(ctree):
    """(body is only appended to, every constant group is written)"""
    vo = find_func(find_class(ctree, "CodeGenerator"), "visit_Output")
    assigns, mutators, deleted = 0, set(), False
    for n in ast.walk(vo):
        if isinstance(n, (ast.Assign, ast.AugAssign, ast.AnnAssign)):
            targets = n.targets if isinstance(n, ast.Assign) else [n.target]
            for t in targets:
                for x in ast.walk(t):
                    if isinstance(x, ast.Name) and x.id == "body":
                        if isinstance(t, ast.Name):
                            assigns += 1
                        else:
                            deleted = True        # body[...] = …
        if isinstance(n, ast.Delete) and any(isinstance(x, ast.Name) and x.id == "body" for t in n.targets for x in ast.walk(t)):
            deleted = True
        if isinstance(n, ast.Call) and isinstance(n.func, ast.Attribute) and isinstance(n.func.value, ast.Name) \
                and n.func.value.id == "body":
            mutators.add(n.func.attr)
    if assigns == 0:
        raise Untranslatable("visit_Output: no `body` list")
    only_append = assigns == 1 and not deleted and mutators <= {"append"}
    loops = [n for n in ast.walk(vo) if isinstance(n, ast.For) and isinstance(n.iter, ast.Name) and n.iter.id == "body"]
    if len(loops) != 1:
        raise Untranslatable(f"visit_Output: {len(loops)} loops over body")
    loop = loops[0]
    if not (isinstance(loop.target, ast.Name) and len(loop.body) == 1 and isinstance(loop.body[0], ast.If)
            and ast.unparse(loop.body[0].test) == f"isinstance({loop.target.id}, list)"):
        raise Untranslatable("visit_Output: the write loop does not start with `if isinstance(item, list)`")
    group = loop.body[0].body
    skips = [n for s in group for n in ast.walk(s) if isinstance(n, (ast.Continue, ast.Break, ast.Return, ast.Raise))]
    ifs = [s for s in group if isinstance(s, ast.If)]

    def writes(suite):
        return any(isinstance(n, ast.Call) and isinstance(n.func, ast.Attribute) and n.func.attr in ("writeline", "write")
                   for s in suite for n in ast.walk(s))

    always = (not skips and len(ifs) == 1 and ast.unparse(ifs[0].test) == "frame.buffer is None"
              and writes(ifs[0].body) and writes(ifs[0].orelse)
              and all(isinstance(s, (ast.Assign, ast.Expr)) or s is ifs[0] for s in group))
    return only_append, always


def gen():
    ctree = parse("compiler")
    only_append, always_written = _visit_output(ctree)
    ltree = parse("lexer")
    members = _ignore_if_empty(ltree)
    tokeniter = find_func(find_class(ltree, "Lexer"), "tokeniter")
    guarded, exact = _group_yield(tokeniter)
    ptree = parse("parser")
    subparse = find_func(find_class(ptree, "Parser"), "subparse")
    pguard = _subparse_guard(subparse)
    L = [HEADER, "namespace JinjaV.Gen.NativeGuards\n",
         "-- READ: members of lexer.ignore_if_empty",
         f"def ignoreIfEmpty : List String := {llist(map(lstr, members))}\n",
         "-- READ: Lexer.tokeniter guards the yield of a rule group with `if data or token not in ignore_if_empty:`",
         f"def groupYieldGuarded : Bool := {lbool(guarded)}\n",
         "-- READ: the guarded suite is exactly `yield lineno, token, data` (the value tested is the value yielded)",
         f"def groupYieldsTestedValue : Bool := {lbool(exact)}\n",
         "-- READ: Parser.subparse adds TemplateData(token.value) only under `if token.value:`",
         f"def subparseSkipsEmptyData : Bool := {lbool(pguard)}\n",
         "/-- the lexer drops a data group that is empty after stripping -/",
         "def lexerDropsEmptyData : Bool := ignoreIfEmpty.contains \"data\" && groupYieldGuarded && groupYieldsTestedValue\n",
         "-- READ: CodeGenerator.visit_Output builds `body` by append only (no re-assignment, filtering, deletion)",
         f"def outputBodyOnlyAppended : Bool := {lbool(only_append)}\n",
         "-- READ: the write loop of visit_Output writes every constant group (`yield <repr>` / `<repr>,`), no skip",
         f"def constGroupAlwaysWritten : Bool := {lbool(always_written)}\n",
         "end JinjaV.Gen.NativeGuards\n"]
    return "NativeGuards.lean", "\n".join(L)
