"""all translators, in one place (used by setup and by update_baseline)"""
from . import lru_steps, sandbox

ALL = [lru_steps.gen, sandbox.gen]
