"""all translators, in one place (used by setup and by update_baseline): every module translate/<x>.py that defines `gen()`
(returning (Gen file name, Lean source)) is registered automatically"""
import importlib
from pathlib import Path

_SKIP = {"__init__", "registry", "common", "update_baseline"}
ALL = []
for _p in sorted(Path(__file__).parent.glob("*.py")):
    if _p.stem in _SKIP:
        continue
    _m = importlib.import_module(f"translate.{_p.stem}")
    if hasattr(_m, "gen"):
        ALL.append(_m.gen)
