"""all translators, in one place (used by setup and by update_baseline)"""
from . import lru_steps, sandbox, undefined_table, lexer_key

ALL = [lru_steps.gen, sandbox.gen, undefined_table.gen, lexer_key.gen]
