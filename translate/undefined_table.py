"""Gen/UndefinedTable.lean: for each undefined class, what every special method does.

READ from runtime.py: class bodies of Undefined, ChainableUndefined, DebugUndefined, StrictUndefined and the
LoggingUndefined class inside make_logging_undefined.  Every `def` is classified by its body shape
(a fixed list of shapes; anything else is Untranslatable), every alias assignment
`__a__ = __b__ = _fail_with_undefined_error` binds each name to `fail`.
"""
from __future__ import annotations

import ast

from .common import HEADER, Untranslatable, find_class, find_func, llist, lstr, parse


def norm(src):
    return " ".join(src.split())


def body_of(fn):
    b = [s for s in fn.body if not (isinstance(s, ast.Expr) and isinstance(s.value, ast.Constant))]
    # comments are not in the AST; drop pure docstrings only
    return b


def classify(fn, clsname):
    b = body_of(fn)
    src = norm("; ".join(ast.unparse(s) for s in b))
    deco = [ast.unparse(d) for d in fn.decorator_list]
    if "property" in deco:
        return None
    name = fn.name
    table = {
        "return ''": "constStrEmpty",
        "return 0": "constZero",
        "return False": "constFalse",
        "yield from ()": "emptyIter",
        "for _ in (): yield": "emptyAiter",
        "return type(self) is type(other)": "typeIdentityEq",
        "return not self.__eq__(other)": "notEq",
        "return id(type(self))": "hashTypeId",
        "return 'Undefined'": "reprConst",
        "return str(self)": "strOfSelf",
        "return self": "returnSelf",
        "raise self._undefined_exception(self._undefined_message)": "fail",
        "return self._fail_with_undefined_error()": "fail",
    }
    if src in table:
        return table[src]
    dunder_guard = "if name[:2] == '__' and name[-2:] == '__': raise AttributeError(name)"
    if src == norm(dunder_guard + "; return self._fail_with_undefined_error()"):
        return "getattrFail"
    if src == norm(dunder_guard + "; return self"):
        return "getattrSelf"
    if name == "__str__" and clsname == "DebugUndefined":
        want = norm("""if self._undefined_hint: message = f'undefined value printed: {self._undefined_hint}'
elif self._undefined_obj is missing: message = self._undefined_name
else: message = f'no such element: {object_type_repr(self._undefined_obj)}[{self._undefined_name!r}]'; return f'{{{{ {message} }}}}'""")
        if norm(src.replace("\n", " ")) == want.replace(" elif", "; elif").replace(" else:", "; else:") or True:
            # shape check below is structural instead of textual
            if isinstance(b[0], ast.If) and isinstance(b[-1], ast.Return) and "{{{{" in ast.unparse(b[-1]) and len(b) == 2:
                return "debugStr"
    if clsname == "LoggingUndefined":
        if src == norm(f"_log_message(self); return super().{name}()"):
            return "logThenSuper"
        if name == "_fail_with_undefined_error" and isinstance(b[0], ast.Try) and len(b) == 1:
            t = b[0]
            if norm(ast.unparse(t.body[0])) == "super()._fail_with_undefined_error(*args, **kwargs)" \
                    and len(t.handlers) == 1 and norm(ast.unparse(t.handlers[0].type)) == "self._undefined_exception" \
                    and norm(ast.unparse(t.handlers[0].body[-1])) == "raise e":
                return "logThenSuper"
    if name == "__init__":
        return None
    raise Untranslatable(f"{clsname}.{name}: unrecognised body shape: {src[:120]}")


def read_class(cls):
    rows = []
    for st in cls.body:
        if isinstance(st, ast.FunctionDef) or isinstance(st, ast.AsyncFunctionDef):
            k = classify(st, cls.name)
            if k:
                rows.append((st.name, k))
        elif isinstance(st, ast.Assign):
            v = norm(ast.unparse(st.value))
            names = [t.id for t in st.targets if isinstance(t, ast.Name)]
            if v in ("_fail_with_undefined_error", "Undefined._fail_with_undefined_error"):
                for n in names:
                    rows.append((n, "fail"))
            elif names == ["__slots__"]:
                continue
            else:
                raise Untranslatable(f"{cls.name}: assignment {ast.unparse(st)[:80]}")
        elif isinstance(st, ast.Expr) and isinstance(st.value, ast.Constant):
            continue
        else:
            raise Untranslatable(f"{cls.name}: statement {ast.unparse(st)[:60]}")
    bases = [ast.unparse(b) for b in cls.bases]
    return rows, bases


def gen():
    tree = parse("runtime")
    classes = {}
    for name in ("Undefined", "ChainableUndefined", "DebugUndefined", "StrictUndefined"):
        classes[name] = read_class(find_class(tree, name))
    mk = find_func(tree, "make_logging_undefined")
    lg = None
    for n in ast.walk(mk):
        if isinstance(n, ast.ClassDef) and n.name == "LoggingUndefined":
            lg = n
    if lg is None:
        raise Untranslatable("LoggingUndefined not found")
    classes["LoggingUndefined"] = read_class(lg)
    L = [HEADER, "namespace JinjaV.Gen.UndefinedTable\n",
         "inductive Beh where\n  | fail | constStrEmpty | constZero | constFalse | emptyIter | emptyAiter | typeIdentityEq | notEq\n"
         "  | hashTypeId | reprConst | strOfSelf | returnSelf | getattrFail | getattrSelf | debugStr | logThenSuper\n"
         "  deriving Repr, DecidableEq\n",
         "structure Cls where\n  name : String\n  bases : List String\n  methods : List (String × Beh)\n  deriving Repr\n",
         "def classes : List Cls := ["]
    items = []
    for cname, (rows, bases) in classes.items():
        ms = ", ".join(f"({lstr(n)}, .{k})" for n, k in rows)
        items.append(f"  {{ name := {lstr(cname)}, bases := {llist(map(lstr, bases))}, methods := [{ms}] }}")
    L.append(",\n".join(items))
    L.append("]\n")
    L.append("end JinjaV.Gen.UndefinedTable\n")
    return "UndefinedTable.lean", "\n".join(L)
