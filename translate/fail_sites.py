"""Gen/FailSites.lean: inventory of every way the load path (lexer, parser, optimizer, code generator) can raise.

READ with Python `ast` from lexer.py, parser.py, compiler.py, idtracking.py, nodes.py, optimizer.py, visitor.py, ext.py:

  raiseSites    every `raise` statement: file, enclosing qualified function (`Class.method`, `<module>`), the class that
                is raised and the ordinal of the site among the sites of the same (file, function, class).
                The class is the called/raised name (`raise X(...)`, `raise X`, `raise mod.X()`); a bare `raise` is
                `<reraise>`; `raise <variable>(...)` / `raise self.<attr>(...)` is `<dynamic:expr>`.
  assertSites   every `assert` statement (file, function, ordinal).
  failExcArgs   the `exc` argument (keyword or third positional) of every `.fail(...)` call that passes one
                (Parser.fail raises `exc`, default TemplateSyntaxError).
  failDefault   the default of Parser.fail's `exc` parameter.
  failureClasses the class passed to every `Failure(...)` construction in lexer.py (default of Failure.__init__'s `cls`
                when omitted); these are what `raise token(lineno, name, filename)` in tokeniter raises.
  statementKeywords  parser._statement_keywords;  parserMethods  the method names of class Parser.
  dispatchShape  the tag dispatch of Parser.parse_statement in order (checked to be: keyword table -> getattr parse_<value>,
                `call`, `filter`, extensions, fail_unknown_tag); anything else is untranslatable.

No line numbers enter the file, so unrelated edits do not change it; `locate()` gives the line of a site for reports.
"""
from __future__ import annotations

import ast

from .common import HEADER, SRC, Untranslatable, llist, lstr

FILES = ["lexer", "parser", "compiler", "idtracking", "nodes", "optimizer", "visitor", "ext"]


def _name_of(e):
    if isinstance(e, ast.Name):
        return e.id
    if isinstance(e, ast.Attribute):
        return e.attr if isinstance(e.value, ast.Name) and e.value.id not in ("self",) else None
    return None


def _raised_class(node: ast.Raise, local_classes) -> str:
    e = node.exc
    if e is None:
        return "<reraise>"
    if isinstance(e, ast.Call):
        e = e.func
    n = _name_of(e)
    if n is not None and (n[:1].isupper() or n in local_classes):
        return n
    return "<dynamic:" + ast.unparse(e) + ">"


class _Walker(ast.NodeVisitor):
    def __init__(self, file, classes):
        self.file = file
        self.stack = []
        self.classes = classes
        self.raises = []
        self.asserts = []

    def qual(self):
        return ".".join(self.stack) if self.stack else "<module>"

    def visit_ClassDef(self, node):
        self.stack.append(node.name)
        self.generic_visit(node)
        self.stack.pop()

    def visit_FunctionDef(self, node):
        self.stack.append(node.name)
        self.generic_visit(node)
        self.stack.pop()

    visit_AsyncFunctionDef = visit_FunctionDef

    def visit_Raise(self, node):
        self.raises.append((self.file, self.qual(), _raised_class(node, self.classes), node.lineno))
        self.generic_visit(node)

    def visit_Assert(self, node):
        self.asserts.append((self.file, self.qual(), node.lineno, ast.unparse(node.test)[:60]))
        self.generic_visit(node)


def _ordinals(rows, keyf):
    seen = {}
    out = []
    for r in rows:
        k = keyf(r)
        out.append(seen.get(k, 0))
        seen[k] = seen.get(k, 0) + 1
    return out


def collect():
    raises, asserts, fail_args = [], [], []
    trees = {}
    for f in FILES:
        tree = ast.parse((SRC / f"{f}.py").read_text())
        trees[f] = tree
        classes = {n.name for n in ast.walk(tree) if isinstance(n, ast.ClassDef)}
        w = _Walker(f + ".py", classes)
        w.visit(tree)
        raises += w.raises
        asserts += w.asserts
        for n in ast.walk(tree):
            if isinstance(n, ast.Call) and isinstance(n.func, ast.Attribute) and n.func.attr == "fail":
                exc = None
                for kw in n.keywords:
                    if kw.arg == "exc":
                        exc = kw.value
                    if kw.arg is None:
                        raise Untranslatable(f"{f}.py:{n.lineno}: **kwargs in a fail() call")
                if exc is None and len(n.args) >= 3:
                    exc = n.args[2]
                if any(isinstance(a, ast.Starred) for a in n.args):
                    raise Untranslatable(f"{f}.py:{n.lineno}: *args in a fail() call")
                if exc is not None:
                    nm = _name_of(exc)
                    fail_args.append((f + ".py", nm if nm else "<dynamic:" + ast.unparse(exc) + ">", n.lineno))

    # Parser.fail default
    parser_cls = next(n for n in ast.walk(trees["parser"]) if isinstance(n, ast.ClassDef) and n.name == "Parser")
    fail = next((n for n in parser_cls.body if isinstance(n, ast.FunctionDef) and n.name == "fail"), None)
    if fail is None:
        raise Untranslatable("Parser.fail not found")
    argnames = [a.arg for a in fail.args.args]
    if "exc" not in argnames:
        raise Untranslatable("Parser.fail has no exc parameter")
    dflt = fail.args.defaults[argnames.index("exc") - (len(argnames) - len(fail.args.defaults))]
    fail_default = _name_of(dflt) or "<dynamic>"
    # ... and it must raise exactly `exc(...)`
    fr = [n for n in ast.walk(fail) if isinstance(n, ast.Raise)]
    if len(fr) != 1 or not (isinstance(fr[0].exc, ast.Call) and isinstance(fr[0].exc.func, ast.Name) and fr[0].exc.func.id == "exc"):
        raise Untranslatable("Parser.fail does not consist of `raise exc(...)`")

    # Failure(...) constructions
    failure_cls = next((n for n in ast.walk(trees["lexer"]) if isinstance(n, ast.ClassDef) and n.name == "Failure"), None)
    if failure_cls is None:
        raise Untranslatable("lexer.Failure not found")
    init = next(n for n in failure_cls.body if isinstance(n, ast.FunctionDef) and n.name == "__init__")
    a = [x.arg for x in init.args.args]
    if "cls" not in a or not init.args.defaults:
        raise Untranslatable("Failure.__init__ has no defaulted cls parameter")
    cls_default = _name_of(init.args.defaults[a.index("cls") - (len(a) - len(init.args.defaults))]) or "<dynamic>"
    failure_classes = []
    for f, tree in trees.items():
        for n in ast.walk(tree):
            if isinstance(n, ast.Call) and isinstance(n.func, ast.Name) and n.func.id == "Failure":
                c = None
                for kw in n.keywords:
                    if kw.arg == "cls":
                        c = kw.value
                if c is None and len(n.args) >= 2:
                    c = n.args[1]
                failure_classes.append((f + ".py", (_name_of(c) or "<dynamic>") if c is not None else cls_default, n.lineno))

    # statement keywords, parser methods, dispatch
    kw = None
    for n in trees["parser"].body:
        if isinstance(n, ast.Assign) and len(n.targets) == 1 and isinstance(n.targets[0], ast.Name) and \
                n.targets[0].id == "_statement_keywords":
            v = n.value
            if isinstance(v, ast.Call) and isinstance(v.func, ast.Name) and v.func.id == "frozenset" and len(v.args) == 1:
                v = v.args[0]
            if not isinstance(v, (ast.List, ast.Tuple, ast.Set)) or not all(isinstance(e, ast.Constant) and isinstance(e.value, str) for e in v.elts):
                raise Untranslatable("_statement_keywords is not a literal collection of strings")
            kw = [e.value for e in v.elts]
    if kw is None:
        raise Untranslatable("_statement_keywords not found")
    methods = [n.name for n in parser_cls.body if isinstance(n, (ast.FunctionDef, ast.AsyncFunctionDef))]

    ps = next(n for n in parser_cls.body if isinstance(n, ast.FunctionDef) and n.name == "parse_statement")
    dispatch = []
    for n in ast.walk(ps):
        if isinstance(n, ast.If):
            t = ast.unparse(n.test)
            if t == "token.value in _statement_keywords":
                body = ast.unparse(n.body[0]) if n.body else ""
                if "getattr(self, f'parse_{self.stream.current.value}')" not in body.replace('"', "'"):
                    raise Untranslatable("keyword dispatch is not getattr(self, f'parse_{value}')")
                dispatch.append("keywords")
            elif t.startswith("token.value == "):
                dispatch.append("tag:" + ast.literal_eval(t.split("==", 1)[1].strip()))
            elif t == "ext is not None":
                dispatch.append("extensions")
            elif t == "token.type != 'name'":
                dispatch.append("require-name")
            elif t == "pop_tag":
                pass
            else:
                raise Untranslatable(f"parse_statement: unknown test {t!r}")
    calls = [ast.unparse(n.func) for n in ast.walk(ps) if isinstance(n, ast.Call)]
    if "self.fail_unknown_tag" in calls:
        dispatch.append("fail-unknown-tag")
    return dict(raises=raises, asserts=asserts, fail_args=fail_args, fail_default=fail_default,
                failure_classes=failure_classes, keywords=kw, methods=methods, dispatch=dispatch)


def locate(file, func, cls=None, idx=0):
    """source line of a raise (cls given) or assert site, for violation messages"""
    d = collect()
    if cls is None:
        rows = [r for r in d["asserts"] if r[0] == file and r[1] == func]
        return rows[idx][2] if idx < len(rows) else None
    rows = [r for r in d["raises"] if r[0] == file and r[1] == func and r[2] == cls]
    return rows[idx][3] if idx < len(rows) else None


def gen():
    d = collect()
    o = [HEADER, "", "namespace JinjaV.Gen.FailSites", "",
         "structure RaiseSite where", "  file : String", "  func : String", "  cls : String", "  idx : Nat",
         "  deriving DecidableEq, Repr", "",
         "structure AssertSite where", "  file : String", "  func : String", "  idx : Nat", "  deriving DecidableEq, Repr", "",
         "-- READ: every `raise` statement of the load path (idx = ordinal among the sites of the same file/function/class)",
         "def raiseSites : List RaiseSite := ["]
    ords = _ordinals(d["raises"], lambda r: r[:3])
    rows = []
    for (f, q, c, ln), i in zip(d["raises"], ords):
        rows.append(f"  ⟨{lstr(f)}, {lstr(q)}, {lstr(c)}, {i}⟩")
    o.append(",\n".join(rows) + "]")
    o += ["", "-- READ: every `assert` statement", "def assertSites : List AssertSite := ["]
    ords = _ordinals(d["asserts"], lambda r: r[:2])
    rows = []
    for (f, q, ln, t), i in zip(d["asserts"], ords):
        rows.append(f"  ⟨{lstr(f)}, {lstr(q)}, {i}⟩")
    o.append(",\n".join(rows) + "]")
    o += ["", "-- READ: the `exc` argument of every `.fail(...)` call that passes one",
          "def failExcArgs : List (String × String) := " + llist(f"({lstr(f)}, {lstr(c)})" for f, c, _ in d["fail_args"]),
          "", "-- READ: default of Parser.fail's `exc` parameter (Parser.fail is `raise exc(msg, lineno, name, filename)`)",
          "def failDefault : String := " + lstr(d["fail_default"]),
          "", "-- READ: the class every `Failure(...)` rule of the lexer raises",
          "def failureClasses : List (String × String) := " + llist(f"({lstr(f)}, {lstr(c)})" for f, c, _ in d["failure_classes"]),
          "", "-- READ: parser._statement_keywords and the methods of class Parser",
          "def statementKeywords : List String := " + llist(lstr(k) for k in d["keywords"]),
          "def parserMethods : List String := " + llist(lstr(k) for k in d["methods"]),
          "", "-- READ: the order of the tests in Parser.parse_statement",
          "def dispatchShape : List String := " + llist(lstr(k) for k in d["dispatch"]),
          "", "end JinjaV.Gen.FailSites", ""]
    return "FailSites.lean", "\n".join(o)


if __name__ == "__main__":
    print(gen()[1])
