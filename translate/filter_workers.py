"""Gen/FilterWorkers.lean: the functions that do the work of the C23 filters, and the decorators they carry.

READ from filters.py and utils.py (Python ast).  Roots: the values of the `FILTERS` dict for the string/number filter names
of property C23.  From each root the module-level functions it references are followed: names defined in filters.py
(helpers) and names imported with `from .utils import x` (followed into utils.py, transitively inside utils.py).  For every
function reached the decorators are emitted as dotted names (`lru_cache(maxsize=512)` -> "lru_cache",
`functools.cache` -> "functools.cache").  A filter is a pure function of its arguments only if no worker memoises on
argument *values* (lru_cache keys conflate 1 == 1.0 == True and reject unhashable arguments); Props/C23.lean pins that every
decorator found is one of the known argument-passing / overload markers.

Anything unexpected (FILTERS not a dict literal of names, a root that is not a module-level function, a decorator that is
not a name / attribute / call of one) raises Untranslatable.
"""
from __future__ import annotations

import ast

from .common import HEADER, Untranslatable, llist, lstr, parse

C23_FILTERS = ["capitalize", "center", "filesizeformat", "float", "format", "indent", "int", "lower", "replace", "round",
               "striptags", "title", "trim", "truncate", "upper", "urlencode", "wordcount", "wordwrap"]


def deco_name(d: ast.expr) -> str:
    if isinstance(d, ast.Call):
        d = d.func
    parts = []
    while isinstance(d, ast.Attribute):
        parts.append(d.attr)
        d = d.value
    if not isinstance(d, ast.Name):
        raise Untranslatable(f"decorator is not a (called) dotted name: {ast.unparse(d)[:60]}")
    parts.append(d.id)
    return ".".join(reversed(parts))


def module_funcs(tree):
    """name -> list of FunctionDef (overloads share a name; all their decorators count)"""
    out = {}
    for n in tree.body:
        if isinstance(n, (ast.FunctionDef, ast.AsyncFunctionDef)):
            out.setdefault(n.name, []).append(n)
    return out


def imported_from(tree, module):
    names = {}
    for n in tree.body:
        if isinstance(n, ast.ImportFrom) and n.level == 1 and n.module == module:
            for a in n.names:
                names[a.asname or a.name] = a.name
    return names


def referenced_names(fns):
    out = set()
    for fn in fns:
        for n in ast.walk(fn):
            if isinstance(n, ast.Name):
                out.add(n.id)
    return out


def read():
    ft, ut = parse("filters"), parse("utils")
    ffuncs, ufuncs = module_funcs(ft), module_funcs(ut)
    from_utils = imported_from(ft, "utils")
    table = None
    for n in ft.body:
        tgt = n.targets[0] if isinstance(n, ast.Assign) else getattr(n, "target", None) if isinstance(n, ast.AnnAssign) else None
        if isinstance(tgt, ast.Name) and tgt.id == "FILTERS":
            table = n.value
    if not isinstance(table, ast.Dict):
        raise Untranslatable("FILTERS is not a dict literal")
    roots = {}
    for k, v in zip(table.keys, table.values):
        if not (isinstance(k, ast.Constant) and isinstance(k.value, str)):
            raise Untranslatable("FILTERS key is not a string literal")
        if k.value in C23_FILTERS:
            if not isinstance(v, ast.Name) or v.id not in ffuncs:
                raise Untranslatable(f"FILTERS[{k.value!r}] is not a module-level function of filters.py")
            roots[k.value] = v.id
    missing = [f for f in C23_FILTERS if f not in roots]
    if missing:
        raise Untranslatable(f"filters missing from FILTERS: {missing}")
    rows = {}          # (module, function) -> (decorators, set of filters reaching it)

    def visit(module, name, filt):
        key = (module, name)
        funcs = (ffuncs if module == "filters" else ufuncs)[name]
        if key in rows:
            if filt in rows[key][1]:
                return
            rows[key][1].add(filt)
        else:
            decos = []
            for fn in funcs:
                decos += [deco_name(d) for d in fn.decorator_list]
            rows[key] = (decos, {filt})
        for ref in sorted(referenced_names(funcs)):
            if ref == name:
                continue
            if module == "filters":
                if ref in ffuncs:
                    visit("filters", ref, filt)
                elif ref in from_utils and from_utils[ref] in ufuncs:
                    visit("utils", from_utils[ref], filt)
            elif ref in ufuncs:
                visit("utils", ref, filt)

    for filt in C23_FILTERS:
        visit("filters", roots[filt], filt)
    return rows


def gen():
    rows = read()
    L = [HEADER, "namespace JinjaV.Gen.FilterWorkers\n",
         "/-- READ (filters.py, utils.py): a function reached from a C23 entry of `FILTERS`, its decorators (dotted names), the filters reaching it -/",
         "structure Worker where\n  module : String\n  name : String\n  decorators : List String\n  filters : List String\n  deriving Repr, DecidableEq\n",
         "def workers : List Worker := ["]
    items = []
    for (module, name), (decos, filts) in sorted(rows.items()):
        items.append(f"  {{ module := {lstr(module)}, name := {lstr(name)}, decorators := {llist(map(lstr, decos))}, "
                     f"filters := {llist(map(lstr, sorted(filts)))} }}")
    L.append(",\n".join(items))
    L.append("]\n")
    L.append("end JinjaV.Gen.FilterWorkers\n")
    return "FilterWorkers.lean", "\n".join(L)
