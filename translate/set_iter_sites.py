"""Gen/SetIterSites.lean: inventory of every place in the compile path that *observes the iteration order of a set*.

READ (Python `ast`) from compiler.py, idtracking.py, ext.py, parser.py, nodes.py, meta.py, optimizer.py and — because every
registered filter / test is run at COMPILE time when its operands are constants (constant folding) — filters.py, tests.py, utils.py.

Static set typing (intra-procedural, plus attribute and return types collected over all ten files):
  * literals `{a, b}`, set comprehensions, `set(..)`, `frozenset(..)`;
  * `.copy()/.union()/.difference()/.intersection()/.symmetric_difference()` of a set, `|,&,-,^` with a set operand
    (this covers `d.keys() - s`);
  * local / module names assigned or annotated (`x: set[str]`) as sets anywhere in the enclosing function, loop targets
    unpacked from a literal tuple-of-tuples that holds a set at that position (`pull_dependencies`);
  * attributes initialised or annotated as sets in any analysed class (`Symbols.stores`, `DependencyFinderVisitor.filters`,
    `UndeclaredNameVisitor.names/undeclared`, `TrackingCodeGenerator.undeclared_identifiers`, `Extension.tags`, ...): on `self`
    resolved through the class (and its bases in these files), on any other receiver matched by attribute name;
  * attributes annotated `list[set[..]]` (`_assign_stack`, `_param_def_block`): `x[-1]`, `x.pop()` are sets;
  * calls of functions/methods (matched by name) that are annotated `-> set[..]` or return a set-typed expression.

A *site* is a `for`, a comprehension generator, `list/tuple/sorted/iter/enumerate/map/filter/zip/sum/min/max/any/all/set/
frozenset/dict/reversed(..)`, `sep.join(..)`, `x.extend/update/...(..)`, `*`-unpacking, tuple-unpacking assignment or
`yield from` over such an expression.  Membership tests, `len`, `bool`, equality and set-to-set operators are not sites.

Flags, each justified structurally:
  sorted       the iterated values flow (through list/tuple/map/filter/generator wrappers only) into `sorted(`
  insensitive  why = agg      they flow into any/all/set/frozenset/a set comprehension
               why = setop    argument of update/difference_update/... on a set receiver
               why = single   the site is inside `if len(<same expr>) == 1:`
               why = setbody  a `for` whose body only does add/discard/update on sets (under ifs)
               why = local    the ordered result is bound to one local name whose every use is truthiness, len(..),
                              sorted(..), or [0] under `if len(name) == 1`
Everything else must be on the allow-list in Props/C30Sites.lean.
"""
from __future__ import annotations

import ast

from .common import HEADER, SRC, Untranslatable, lbool, llist, lstr

FILES = ["compiler", "idtracking", "ext", "parser", "nodes", "meta", "optimizer", "filters", "tests", "utils"]
SET_CTORS = {"set", "frozenset"}
SET_RET_METHODS = {"copy", "union", "difference", "intersection", "symmetric_difference"}
SET_ARG_METHODS = {"update", "difference_update", "intersection_update", "symmetric_difference_update", "issubset",
                   "issuperset", "isdisjoint", "union", "difference", "intersection", "symmetric_difference"}
ITER_FUNCS = {"list", "tuple", "sorted", "iter", "enumerate", "map", "filter", "zip", "sum", "min", "max", "any", "all",
              "set", "frozenset", "dict", "reversed"}
PASS_THROUGH = {"list", "tuple", "map", "filter", "iter"}      # order preserving wrappers
AGG = {"any", "all", "set", "frozenset"}
ITER_METHODS = {"extend", "update", "join", "fromkeys"} | SET_ARG_METHODS


def _ann_kind(ann):
    """'set' | 'listset' | 'other' | None for an annotation expression"""
    if ann is None:
        return None
    if isinstance(ann, ast.Constant) and isinstance(ann.value, str):
        try:
            ann = ast.parse(ann.value, mode="eval").body
        except SyntaxError:
            return "other"
    base = ann.value if isinstance(ann, ast.Subscript) else ann
    name = base.id if isinstance(base, ast.Name) else base.attr if isinstance(base, ast.Attribute) else None
    if name in ("set", "frozenset", "Set", "FrozenSet", "AbstractSet", "MutableSet"):
        return "set"
    if name in ("list", "List", "Sequence", "MutableSequence") and isinstance(ann, ast.Subscript):
        if _ann_kind(ann.slice) == "set":
            return "listset"
    return "other"


def _ann_class(ann):
    """the class a parameter annotation names (`nodes.FromImport`, `Frame`, `"Symbols"`), else None"""
    if isinstance(ann, ast.Constant) and isinstance(ann.value, str):
        try:
            ann = ast.parse(ann.value, mode="eval").body
        except SyntaxError:
            return None
    if isinstance(ann, ast.Name):
        return ann.id
    if isinstance(ann, ast.Attribute):
        return ann.attr
    return None


class Facts:
    def __init__(self):
        self.attr = {}        # (class, attr) -> 'set' | 'listset' | 'other'
        self.bases = {}       # class -> [base names]
        self.set_funcs = set()
        self.module_names = {}  # (file, name) -> kind

    def attr_kind(self, cls, attr):
        seen = set()
        todo = [cls]
        while todo:
            c = todo.pop(0)
            if c in seen or c is None:
                continue
            seen.add(c)
            if (c, attr) in self.attr:
                return self.attr[(c, attr)]
            todo += self.bases.get(c, [])
        return None

    def any_attr_kind(self, attr):
        ks = {k for (c, a), k in self.attr.items() if a == attr}
        for k in ("set", "listset"):
            if k in ks:
                return k
        return None


class Typer:
    """set typing of expressions inside one function (or at module/class level)"""

    def __init__(self, facts, file, cls, env):
        self.f, self.file, self.cls, self.env = facts, file, cls, env

    def _recv_class(self, e):
        """class of a receiver expression when it is known: self / a parameter annotated with an analysed class"""
        if isinstance(e, ast.Name):
            if e.id in ("self", "cls") and self.cls:
                return self.cls
            k = self.env.get(e.id)
            if isinstance(k, str) and k.startswith("class:"):
                return k[6:]
        return None

    def kind(self, e):
        if isinstance(e, (ast.Set, ast.SetComp)):
            return "set"
        if isinstance(e, ast.Name):
            k = self.env.get(e.id) or self.f.module_names.get((self.file, e.id))
            return k if k in ("set", "listset") else None
        if isinstance(e, ast.Attribute):
            rc = self._recv_class(e.value)
            if rc:
                k = self.f.attr_kind(rc, e.attr)
                if k is not None:
                    return k if k != "other" else None
            return self.f.any_attr_kind(e.attr)
        if isinstance(e, ast.Call):
            fn = e.func
            if isinstance(fn, ast.Name):
                if fn.id in SET_CTORS:
                    return "set"
                if fn.id in self.f.set_funcs:
                    return "set"
            if isinstance(fn, ast.Attribute):
                if fn.attr in SET_RET_METHODS and self.kind(fn.value) == "set":
                    return "set"
                if fn.attr == "pop" and self.kind(fn.value) == "listset":
                    return "set"
                if fn.attr in self.f.set_funcs:
                    return "set"
            return None
        if isinstance(e, ast.Subscript):
            if self.kind(e.value) == "listset" and not isinstance(e.slice, ast.Slice):
                return "set"
            return None
        if isinstance(e, ast.BinOp) and isinstance(e.op, (ast.BitOr, ast.BitAnd, ast.Sub, ast.BitXor)):
            if self.kind(e.left) == "set" or self.kind(e.right) == "set":
                return "set"
            return None
        if isinstance(e, ast.IfExp):
            a, b = self.kind(e.body), self.kind(e.orelse)
            return a or b
        if isinstance(e, ast.NamedExpr):
            return self.kind(e.value)
        return None


def _own_nodes(fn):
    """nodes of a function body without descending into nested function / class definitions"""
    out = []
    todo = list(fn.body) if hasattr(fn, "body") and isinstance(fn.body, list) else [fn.body]
    while todo:
        n = todo.pop()
        out.append(n)
        for c in ast.iter_child_nodes(n):
            if isinstance(c, (ast.FunctionDef, ast.AsyncFunctionDef, ast.ClassDef, ast.Lambda)):
                out.append(c)
                continue
            todo.append(c)
    return out


def _local_env(facts, file, cls, fn, outer):
    env = dict(outer)
    args = fn.args
    for a in args.posonlyargs + args.args + args.kwonlyargs + [x for x in (args.vararg, args.kwarg) if x]:
        k = _ann_kind(a.annotation)
        if k in ("set", "listset"):
            env[a.arg] = k
        else:
            env.pop(a.arg, None)
            c = _ann_class(a.annotation)
            if c in facts.bases:
                env[a.arg] = "class:" + c
    nodes = _own_nodes(fn)
    for _ in range(4):  # fixpoint over chains of assignments
        ty = Typer(facts, file, cls, env)
        before = dict(env)
        for n in nodes:
            if isinstance(n, ast.AnnAssign) and isinstance(n.target, ast.Name):
                k = _ann_kind(n.annotation)
                if k in ("set", "listset"):
                    env[n.target.id] = k
                elif n.value is not None and ty.kind(n.value):
                    env[n.target.id] = ty.kind(n.value)
            elif isinstance(n, ast.Assign):
                k = ty.kind(n.value)
                if k:
                    for t in n.targets:
                        if isinstance(t, ast.Name):
                            env[t.id] = k
            elif isinstance(n, ast.NamedExpr) and isinstance(n.target, ast.Name):
                k = ty.kind(n.value)
                if k:
                    env[n.target.id] = k
            elif isinstance(n, (ast.For, ast.AsyncFor, ast.comprehension)):
                tgt, it = n.target, n.iter
                if isinstance(tgt, ast.Tuple) and isinstance(it, (ast.Tuple, ast.List)) and it.elts and \
                        all(isinstance(x, (ast.Tuple, ast.List)) and len(x.elts) == len(tgt.elts) for x in it.elts):
                    for i, t in enumerate(tgt.elts):
                        if isinstance(t, ast.Name):
                            ks = [ty.kind(x.elts[i]) for x in it.elts]
                            if "set" in ks:
                                env[t.id] = "set"
                elif isinstance(tgt, ast.Name) and ty.kind(it) == "listset":
                    env[tgt.id] = "set"
            elif isinstance(n, ast.withitem) and isinstance(n.optional_vars, ast.Name):
                k = ty.kind(n.context_expr)
                if k:
                    env[n.optional_vars.id] = k
        if env == before:
            break
    return env


def _collect_facts(trees):
    facts = Facts()
    for file, tree in trees.items():
        for n in ast.walk(tree):
            if isinstance(n, ast.ClassDef):
                facts.bases[n.name] = [b.id if isinstance(b, ast.Name) else b.attr if isinstance(b, ast.Attribute) else None
                                       for b in n.bases]
    # attributes and module names: two rounds so that `self.x = other.y` style chains settle
    for _ in range(3):
        for file, tree in trees.items():
            ty0 = Typer(facts, file, None, {})
            for st in tree.body:
                if isinstance(st, ast.Assign) and ty0.kind(st.value):
                    for t in st.targets:
                        if isinstance(t, ast.Name):
                            facts.module_names[(file, t.id)] = ty0.kind(st.value)
                elif isinstance(st, ast.AnnAssign) and isinstance(st.target, ast.Name):
                    k = _ann_kind(st.annotation)
                    if k in ("set", "listset"):
                        facts.module_names[(file, st.target.id)] = k
            for c in ast.walk(tree):
                if not isinstance(c, ast.ClassDef):
                    continue
                ty = Typer(facts, file, c.name, {})
                for st in c.body:
                    if isinstance(st, ast.AnnAssign) and isinstance(st.target, ast.Name):
                        facts.attr[(c.name, st.target.id)] = _ann_kind(st.annotation)
                    elif isinstance(st, ast.Assign):
                        for t in st.targets:
                            if isinstance(t, ast.Name):
                                facts.attr.setdefault((c.name, t.id), "set" if ty.kind(st.value) == "set" else "other")
                for fn in c.body:
                    if not isinstance(fn, (ast.FunctionDef, ast.AsyncFunctionDef)):
                        continue
                    env = _local_env(facts, file, c.name, fn, {})
                    tyf = Typer(facts, file, c.name, env)
                    for n in _own_nodes(fn):
                        tgt = val = ann = None
                        if isinstance(n, ast.AnnAssign):
                            tgt, val, ann = n.target, n.value, n.annotation
                        elif isinstance(n, ast.Assign) and len(n.targets) == 1:
                            tgt, val = n.targets[0], n.value
                        if isinstance(tgt, ast.Attribute) and isinstance(tgt.value, ast.Name) and tgt.value.id == "self":
                            k = _ann_kind(ann) if ann is not None else (tyf.kind(val) or "other")
                            old = facts.attr.get((c.name, tgt.attr))
                            if old in (None, "other") or ann is not None:
                                facts.attr[(c.name, tgt.attr)] = k
        # functions returning sets
        for file, tree in trees.items():
            for c in [None] + [x for x in ast.walk(tree) if isinstance(x, ast.ClassDef)]:
                body = tree.body if c is None else c.body
                for fn in body:
                    if not isinstance(fn, (ast.FunctionDef, ast.AsyncFunctionDef)):
                        continue
                    if _ann_kind(fn.returns) == "set":
                        facts.set_funcs.add(fn.name)
                        continue
                    env = _local_env(facts, file, c.name if c else None, fn, {})
                    ty = Typer(facts, file, c.name if c else None, env)
                    for n in _own_nodes(fn):
                        if isinstance(n, ast.Return) and n.value is not None and ty.kind(n.value) == "set":
                            facts.set_funcs.add(fn.name)
    return facts


def _parents(fn):
    par = {}
    for n in ast.walk(fn):
        for c in ast.iter_child_nodes(n):
            par[c] = n
    return par


def _is_call_to(n, names):
    return isinstance(n, ast.Call) and isinstance(n.func, ast.Name) and n.func.id in names


def _len_eq_1_guard(test, text):
    return (isinstance(test, ast.Compare) and len(test.ops) == 1 and isinstance(test.ops[0], ast.Eq)
            and _is_call_to(test.left, {"len"}) and len(test.left.args) == 1 and ast.unparse(test.left.args[0]) == text
            and isinstance(test.comparators[0], ast.Constant) and test.comparators[0].value == 1)


def _under_single_guard(node, par, text):
    c = node
    while c in par:
        p = par[c]
        if isinstance(p, ast.If) and c in p.body and _len_eq_1_guard(p.test, text):
            return True
        c = p
    return False


def _setbody_ok(stmts, ty):
    for s in stmts:
        if isinstance(s, (ast.Pass, ast.Continue)):
            continue
        if isinstance(s, ast.If):
            if not (_setbody_ok(s.body, ty) and _setbody_ok(s.orelse, ty)):
                return False
            continue
        if isinstance(s, ast.Expr) and isinstance(s.value, ast.Call) and isinstance(s.value.func, ast.Attribute) \
                and s.value.func.attr in ("add", "discard", "update") and ty.kind(s.value.func.value) == "set":
            continue
        return False
    return True


def _local_uses_order_free(fn_nodes, par, name, binding):
    """every Load of local `name` is truthiness, len(name), sorted(name) or name[0] under `if len(name) == 1`;
    and `name` is bound exactly once (at `binding`)"""
    for n in fn_nodes:
        if isinstance(n, ast.Name) and n.id == name:
            if isinstance(n.ctx, ast.Store):
                if par.get(n) is not binding:
                    return False
                continue
            p = par.get(n)
            if isinstance(p, (ast.If, ast.While, ast.IfExp)) and p.test is n:
                continue
            if isinstance(p, ast.BoolOp) or (isinstance(p, ast.UnaryOp) and isinstance(p.op, ast.Not)):
                continue
            if _is_call_to(p, {"len", "sorted", "bool", "set", "frozenset"}) and n in p.args:
                continue
            if isinstance(p, ast.Subscript) and p.value is n and isinstance(p.slice, ast.Constant) and p.slice.value == 0 \
                    and _under_single_guard(p, par, name):
                continue
            return False
    return True


def _flow(value, par, ty):
    """follow the ordered result `value` upwards through order preserving wrappers; returns (sorted, why, top)"""
    v = value
    while v in par:
        p = par[v]
        if isinstance(p, ast.comprehension) and p.iter is v:
            comp = par[p]
            if isinstance(comp, ast.SetComp):
                return False, "agg", comp
            if isinstance(comp, (ast.ListComp, ast.GeneratorExp)):
                v = comp
                continue
            return False, "", comp   # DictComp: an ordered dict in set order
        if isinstance(p, ast.Starred):
            v = p
            continue
        if isinstance(p, ast.Call) and v in p.args:
            if _is_call_to(p, {"sorted"}):
                return True, "", p
            if _is_call_to(p, AGG):
                return False, "agg", p
            if _is_call_to(p, PASS_THROUGH):
                v = p
                continue
            if isinstance(p.func, ast.Attribute) and p.func.attr in SET_ARG_METHODS and ty.kind(p.func.value) == "set":
                return False, "setop", p
        break
    return False, "", v


def _sites_in(file, cls, fn, qual, facts, outer_env, out):
    env = _local_env(facts, file, cls, fn, outer_env) if isinstance(fn, (ast.FunctionDef, ast.AsyncFunctionDef)) else dict(outer_env)
    ty = Typer(facts, file, cls, env)
    par = _parents(fn)
    nodes = _own_nodes(fn)

    def add(node, kind, it, value):
        text = ast.unparse(it)
        srt, why, top = (False, "", None)
        if kind == "for":
            if _setbody_ok(node.body, ty):
                why = "setbody"
        elif kind == "call:sorted":
            srt = True
        elif kind in ("call:set", "call:frozenset", "call:any", "call:all"):
            why = "agg"
        elif kind.startswith("setop:"):
            why = "setop"
        else:
            srt, why, top = _flow(value, par, ty)
        if not srt and not why and _under_single_guard(node, par, text):
            why = "single"
        if not srt and not why and top is not None:
            p = par.get(top)
            if isinstance(p, ast.Assign) and len(p.targets) == 1 and isinstance(p.targets[0], ast.Name) and p.value is top \
                    and isinstance(top, (ast.ListComp, ast.Call)):
                if _local_uses_order_free(nodes, par, p.targets[0].id, p):
                    why = "local"
        stmt = node
        while stmt in par and not isinstance(stmt, ast.stmt):
            stmt = par[stmt]
        if isinstance(stmt, (ast.For, ast.AsyncFor)):
            ctx = f"for {ast.unparse(stmt.target)} in {ast.unparse(stmt.iter)}:"
        elif isinstance(stmt, (ast.If, ast.While)):
            ctx = f"if {ast.unparse(stmt.test)}:"
        elif isinstance(stmt, ast.stmt) and not isinstance(stmt, (ast.FunctionDef, ast.AsyncFunctionDef, ast.ClassDef)):
            ctx = " ".join(ast.unparse(stmt).split())
        else:
            ctx = text
        out.append(dict(file=file + ".py", func=qual, kind=kind, expr=text, sorted=srt, insensitive=bool(why), why=why,
                        ctx=ctx[:140], line=getattr(node, "lineno", getattr(it, "lineno", 0))))

    for n in nodes:
        if isinstance(n, (ast.For, ast.AsyncFor)) and ty.kind(n.iter) == "set":
            add(n, "for", n.iter, None)
        elif isinstance(n, ast.comprehension) and ty.kind(n.iter) == "set":
            add(n, "comp", n.iter, n.iter)
        elif isinstance(n, ast.Call):
            fnm = n.func
            if isinstance(fnm, ast.Name) and fnm.id in ITER_FUNCS:
                args = n.args[1:] if fnm.id in ("map", "filter") else n.args
                for a in args:
                    if ty.kind(a) == "set":
                        add(n, "call:" + fnm.id, a, n)
            elif isinstance(fnm, ast.Attribute) and fnm.attr in ITER_METHODS:
                for a in n.args:
                    if ty.kind(a) == "set":
                        if fnm.attr in SET_ARG_METHODS and ty.kind(fnm.value) == "set":
                            add(n, "setop:" + fnm.attr, a, n)
                        else:
                            add(n, "call:." + fnm.attr, a, n)
        elif isinstance(n, ast.Starred) and isinstance(n.ctx, ast.Load) and ty.kind(n.value) == "set":
            add(n, "star", n.value, n)
        elif isinstance(n, ast.Assign) and isinstance(n.targets[0], (ast.Tuple, ast.List)) and ty.kind(n.value) == "set":
            add(n, "unpack", n.value, None)
        elif isinstance(n, ast.YieldFrom) and ty.kind(n.value) == "set":
            add(n, "yield-from", n.value, None)
    for n in nodes:
        if isinstance(n, (ast.FunctionDef, ast.AsyncFunctionDef)):
            _sites_in(file, cls, n, qual + "." + n.name, facts, env, out)
        elif isinstance(n, ast.Lambda):
            _sites_in(file, cls, n, qual + ".<lambda>", facts, env, out)


def _extensions_lookup_only(trees):
    """every use of `<x>.extensions` in parser.py is `.get(..)`, a subscript store, an `in` test, or the initial `= {}`"""
    tree = trees["parser"]
    par = _parents(tree)
    seen = 0
    for n in ast.walk(tree):
        if isinstance(n, ast.Attribute) and n.attr == "extensions" and isinstance(n.value, ast.Name) and n.value.id in ("self", "parser"):
            seen += 1
            p = par[n]
            if isinstance(n.ctx, ast.Store):
                continue
            if isinstance(p, ast.Attribute) and p.attr == "get" and isinstance(par[p], ast.Call):
                continue
            if isinstance(p, ast.Subscript) and p.value is n:
                continue
            if isinstance(p, ast.Compare) and n in p.comparators and all(isinstance(o, (ast.In, ast.NotIn)) for o in p.ops):
                continue
            return False
    if seen == 0:
        raise Untranslatable("parser.py no longer has an `extensions` attribute")
    return True


def analyse():
    trees = {}
    for f in FILES:
        p = SRC / f"{f}.py"
        if not p.exists():
            raise Untranslatable(f"{p} missing")
        trees[f] = ast.parse(p.read_text(), filename=str(p))
    facts = _collect_facts(trees)
    # anchors that the hand model transcribes must still exist, and the set typing must still see them
    if facts.attr.get(("Symbols", "stores")) != "set":
        raise Untranslatable("idtracking.Symbols.stores is no longer initialised as a set")
    sites = []
    for file, tree in trees.items():
        mod_fn = ast.Module(body=[s for s in tree.body if not isinstance(s, (ast.FunctionDef, ast.AsyncFunctionDef, ast.ClassDef))],
                            type_ignores=[])
        _sites_in(file, None, mod_fn, "<module>", facts, {}, sites)
        for st in tree.body:
            if isinstance(st, (ast.FunctionDef, ast.AsyncFunctionDef)):
                _sites_in(file, None, st, st.name, facts, {}, sites)
            elif isinstance(st, ast.ClassDef):
                cls_fn = ast.Module(body=[s for s in st.body if not isinstance(s, (ast.FunctionDef, ast.AsyncFunctionDef, ast.ClassDef))],
                                    type_ignores=[])
                _sites_in(file, st.name, cls_fn, st.name + ".<class>", facts, {}, sites)
                for fn in st.body:
                    if isinstance(fn, (ast.FunctionDef, ast.AsyncFunctionDef)):
                        _sites_in(file, st.name, fn, st.name + "." + fn.name, facts, {}, sites)
    funcs = {(s["file"], s["func"]) for s in sites}
    for need in [("idtracking.py", "Symbols.branch_update"), ("idtracking.py", "Symbols.dump_stores"),
                 ("compiler.py", "CodeGenerator.pop_assign_tracking"), ("compiler.py", "CodeGenerator.pull_dependencies")]:
        if need not in funcs:
            raise Untranslatable(f"no set iteration found any more in {need[0]}:{need[1]} (the model transcribes one there)")
    sites.sort(key=lambda s: (FILES.index(s["file"][:-3]), s["line"], s["kind"], s["expr"]))
    set_attrs = sorted(f"{c}.{a}:{k}" for (c, a), k in facts.attr.items() if k in ("set", "listset"))
    return sites, dict(set_attrs=set_attrs, set_funcs=sorted(facts.set_funcs),
                       extensions_lookup_only=_extensions_lookup_only(trees))


def gen():
    sites, extra = analyse()
    L = [HEADER, "namespace JinjaV.Gen.SetIterSites\n",
         "structure Site where\n  file : String\n  func : String\n  kind : String\n  expr : String\n  sorted : Bool\n"
         "  insensitive : Bool\n  why : String\n  deriving DecidableEq, Repr\n",
         "-- READ: every iteration over a statically set-typed expression (see translate/set_iter_sites.py for the typing rules)",
         "def sites : List Site := ["]
    rows = []
    for s in sites:
        rows.append(f"  -- {s['file']}:{s['line']}  {s['ctx']}\n"
                    f"  ⟨{lstr(s['file'])}, {lstr(s['func'])}, {lstr(s['kind'])}, {lstr(s['expr'])}, {lbool(s['sorted'])}, "
                    f"{lbool(s['insensitive'])}, {lstr(s['why'])}⟩")
    L.append(",\n".join(rows) + "]\n")
    L += ["-- READ: attributes typed as sets / lists of sets (what the inventory is relative to)",
          f"def setAttrs : List String := {llist(map(lstr, extra['set_attrs']))}\n",
          "-- READ: functions and methods whose result is typed as a set",
          f"def setFuncs : List String := {llist(map(lstr, extra['set_funcs']))}\n",
          "-- READ: parser.py uses `.extensions` (the tag table filled by iterating `extension.tags`) for lookup only",
          f"def parserExtensionsLookupOnly : Bool := {lbool(extra['extensions_lookup_only'])}\n",
          "end JinjaV.Gen.SetIterSites\n"]
    return "SetIterSites.lean", "\n".join(L)


if __name__ == "__main__":
    print(gen()[1])
