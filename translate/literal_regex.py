"""Gen/LiteralRegex.lean: the pattern strings and flags of the three literal regexes `integer_re`, `float_re`, `string_re`
(lexer.py), READ from the `re.compile(...)` assignments.  Patterns compiled with re.VERBOSE are normalised the way the
`re` module reads them (unescaped whitespace outside character classes and `#` comments removed), so that only a change of
the regex itself — not of its layout or comments — changes the Gen file.  Consumed by Props/C14Regex.lean, which pins them
to the patterns the hand scanners of Model/Lex.lean transcribe."""
from __future__ import annotations

import ast

from .common import HEADER, Untranslatable, llist, lstr, parse

FLAG_NAMES = {"I": "IGNORECASE", "IGNORECASE": "IGNORECASE", "S": "DOTALL", "DOTALL": "DOTALL", "X": "VERBOSE",
              "VERBOSE": "VERBOSE", "M": "MULTILINE", "MULTILINE": "MULTILINE", "A": "ASCII", "ASCII": "ASCII",
              "U": "UNICODE", "UNICODE": "UNICODE", "L": "LOCALE", "LOCALE": "LOCALE"}


def flags_of(node) -> list[str]:
    if isinstance(node, ast.BinOp) and isinstance(node.op, ast.BitOr):
        return flags_of(node.left) + flags_of(node.right)
    if isinstance(node, ast.Attribute) and isinstance(node.value, ast.Name) and node.value.id == "re" and node.attr in FLAG_NAMES:
        return [FLAG_NAMES[node.attr]]
    raise Untranslatable(f"regex flags {ast.unparse(node)}")


def strip_verbose(p: str) -> str:
    """what re.VERBOSE ignores: whitespace and #-comments, except inside a character class or after a backslash"""
    out, i, in_class = [], 0, False
    while i < len(p):
        ch = p[i]
        if ch == "\\" and i + 1 < len(p):
            out.append(p[i:i + 2])
            i += 2
            continue
        if in_class:
            out.append(ch)
            if ch == "]":
                in_class = False
            i += 1
            continue
        if ch == "[":
            in_class = True
            out.append(ch)
            i += 1
            if i < len(p) and p[i] == "^":
                out.append("^")
                i += 1
            if i < len(p) and p[i] == "]":       # a leading ] is a literal
                out.append("]")
                i += 1
            continue
        if ch in " \t\n\r\f\v":
            i += 1
            continue
        if ch == "#":
            while i < len(p) and p[i] != "\n":
                i += 1
            continue
        out.append(ch)
        i += 1
    return "".join(out)


def read_regex(tree, name):
    for st in tree.body:
        if isinstance(st, ast.Assign) and len(st.targets) == 1 and isinstance(st.targets[0], ast.Name) and st.targets[0].id == name:
            c = st.value
            if not (isinstance(c, ast.Call) and isinstance(c.func, ast.Attribute) and isinstance(c.func.value, ast.Name)
                    and c.func.value.id == "re" and c.func.attr == "compile" and not c.keywords and 1 <= len(c.args) <= 2):
                raise Untranslatable(f"{name} is not re.compile(pattern[, flags])")
            if not (isinstance(c.args[0], ast.Constant) and isinstance(c.args[0].value, str)):
                raise Untranslatable(f"{name}: pattern is not a string literal")
            pat = c.args[0].value
            flags = flags_of(c.args[1]) if len(c.args) == 2 else []
            if "VERBOSE" in flags:
                pat = strip_verbose(pat)
            return pat, sorted(set(f for f in flags if f != "VERBOSE"))
    raise Untranslatable(f"{name}: no module-level assignment")


def gen():
    tree = parse("lexer")
    L = [HEADER, "namespace JinjaV.Gen.LiteralRegex\n"]
    for name, lname in (("integer_re", "integer"), ("float_re", "float"), ("string_re", "string")):
        pat, flags = read_regex(tree, name)
        L += [f"-- READ: {name} (lexer.py), VERBOSE layout and comments removed",
              f"def {lname}Pattern : String := {lstr(pat)}",
              f"def {lname}Flags : List String := {llist(map(lstr, flags))}\n"]
    L.append("end JinjaV.Gen.LiteralRegex\n")
    return "LiteralRegex.lean", "\n".join(L)
