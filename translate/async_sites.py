"""Gen/AsyncSites.lean: every place in environment.py / nativetypes.py / runtime.py / async_utils.py where library code iterates an
async iterator (async for, async comprehension), classified by how the iterated generator gets closed.  READ from the source.

    bracketed   `async with aclosing(X): async for … in X`  or  `try: async for … in X  finally: await X.aclose()`
    drain       `[x async for x in E]` — a comprehension whose body cannot suspend or stop early — or `async for _ in E: pass`
    bare        any other `async for`

(filters.py is not read: the async variants of the filters iterate *data*, not generators created for a template.)

The same pattern recognisers are used by harness/props/c36.py on the code generated for templates."""
from __future__ import annotations

import ast

from .common import HEADER, Untranslatable, llist, lstr, parse

FILES = ["environment", "nativetypes", "runtime", "async_utils"]


def is_aclose_await(st, name):
    """`await NAME.aclose()` as a statement"""
    return (isinstance(st, ast.Expr) and isinstance(st.value, ast.Await) and isinstance(st.value.value, ast.Call)
            and isinstance(st.value.value.func, ast.Attribute) and st.value.value.func.attr == "aclose"
            and isinstance(st.value.value.func.value, ast.Name) and st.value.value.func.value.id == name
            and not st.value.value.args and not st.value.value.keywords)


def iter_name(e):
    """NAME, or AsyncLoopContext(NAME, …) which iterates NAME through auto_aiter (runtime.py AsyncLoopContext._to_iterator)"""
    if isinstance(e, ast.Name):
        return e.id
    if (isinstance(e, ast.Call) and isinstance(e.func, ast.Name) and e.func.id == "AsyncLoopContext" and e.args
            and isinstance(e.args[0], ast.Name)):
        return e.args[0].id
    return None


def try_bracket(st):
    """`try: async for … in NAME: …  finally: await NAME.aclose()` → (NAME, the AsyncFor) else None"""
    if not (isinstance(st, ast.Try) and not st.handlers and not st.orelse and len(st.body) == 1
            and isinstance(st.body[0], ast.AsyncFor) and iter_name(st.body[0].iter) is not None
            and not st.body[0].orelse and len(st.finalbody) == 1):
        return None
    name = iter_name(st.body[0].iter)
    return (name, st.body[0]) if is_aclose_await(st.finalbody[0], name) else None


def with_bracket(st):
    """`async with aclosing(NAME): async for … in NAME: …` → (NAME, the AsyncFor) else None"""
    if not (isinstance(st, ast.AsyncWith) and len(st.items) == 1 and st.items[0].optional_vars is None
            and isinstance(st.items[0].context_expr, ast.Call) and isinstance(st.items[0].context_expr.func, ast.Name)
            and st.items[0].context_expr.func.id == "aclosing" and len(st.items[0].context_expr.args) == 1
            and isinstance(st.items[0].context_expr.args[0], ast.Name) and len(st.body) == 1
            and isinstance(st.body[0], ast.AsyncFor) and isinstance(st.body[0].iter, ast.Name) and not st.body[0].orelse):
        return None
    name = st.items[0].context_expr.args[0].id
    return (name, st.body[0]) if st.body[0].iter.id == name else None


def drain_comp(e):
    """`[x async for x in E]` (one async generator clause, no condition, element = the loop variable) → E else None"""
    if (isinstance(e, ast.ListComp) and len(e.generators) == 1 and e.generators[0].is_async and not e.generators[0].ifs
            and isinstance(e.elt, ast.Name) and isinstance(e.generators[0].target, ast.Name)
            and e.elt.id == e.generators[0].target.id):
        return e.generators[0].iter
    return None


def is_async_generator_def(fn):
    """an `async def` whose own body (not nested defs) contains a yield"""
    if not isinstance(fn, ast.AsyncFunctionDef):
        return False
    todo = list(fn.body)
    while todo:
        n = todo.pop()
        if isinstance(n, (ast.FunctionDef, ast.AsyncFunctionDef, ast.Lambda, ast.ClassDef)):
            continue
        if isinstance(n, (ast.Yield, ast.YieldFrom)):
            return True
        todo.extend(ast.iter_child_nodes(n))
    return False


def what_is_iterated(e) -> str:
    s = ast.unparse(e)
    if "root_render_func" in s:
        return "root"
    if "_stack[" in s:
        return "block"
    if "generate_async" in s:
        return "generate_async"
    if s.startswith("auto_aiter("):
        return "data"
    if s == "self._iterator":
        return "loop-iterator"
    return s


def library_sites():
    """[(file, qualified function, what is iterated, kind)] in source order; raises Untranslatable on an async
    comprehension that is not of the drain shape"""
    out = []
    defs = []

    def walk_fn(mod, qual, fn):
        consumed = set()
        for n in ast.walk(fn):
            for rec, kind in ((try_bracket, "bracketed"), (with_bracket, "bracketed")):
                r = rec(n)
                if r:
                    name, loop = r
                    # where does NAME come from: the nearest assignment NAME = <call>
                    src = name
                    for a in ast.walk(fn):
                        if isinstance(a, (ast.Assign, ast.AnnAssign)):
                            tg = a.targets[0] if isinstance(a, ast.Assign) else a.target
                            if isinstance(tg, ast.Name) and tg.id == name and a.value is not None:
                                src = what_is_iterated(a.value)
                    out.append((mod, qual, src, kind))
                    consumed.add(id(loop))
        for n in ast.walk(fn):
            if isinstance(n, ast.AsyncFor) and id(n) not in consumed:
                # `async for _ in X: pass` cannot suspend or stop early in its body either: a drain, like the comprehension
                empty = all(isinstance(b, ast.Pass) for b in n.body) and not n.orelse
                out.append((mod, qual, what_is_iterated(n.iter), "drain" if empty else "bare"))
            if isinstance(n, (ast.ListComp, ast.SetComp, ast.GeneratorExp, ast.DictComp)) and any(g.is_async for g in n.generators):
                it = drain_comp(n)
                if it is None:
                    raise Untranslatable(f"{mod}.{qual}: async comprehension of an unknown shape: {ast.unparse(n)}")
                out.append((mod, qual, what_is_iterated(it), "drain"))

    for mod in FILES:
        tree = parse(mod)
        for top in tree.body:
            if isinstance(top, (ast.FunctionDef, ast.AsyncFunctionDef)):
                if is_async_generator_def(top):
                    defs.append(f"{mod}.{top.name}")
                walk_fn(mod, top.name, top)
            elif isinstance(top, ast.ClassDef):
                for m in top.body:
                    if isinstance(m, (ast.FunctionDef, ast.AsyncFunctionDef)):
                        if is_async_generator_def(m):
                            defs.append(f"{mod}.{top.name}.{m.name}")
                        walk_fn(mod, f"{top.name}.{m.name}", m)
    return out, defs


def gen():
    sites, defs = library_sites()
    au = parse("async_utils")
    aa = [n for n in au.body if isinstance(n, (ast.FunctionDef, ast.AsyncFunctionDef)) and n.name == "auto_aiter"]
    if len(aa) != 1:
        raise Untranslatable("async_utils.auto_aiter not found")
    plain = isinstance(aa[0], ast.FunctionDef) and not any(isinstance(n, (ast.Yield, ast.YieldFrom)) for n in ast.walk(aa[0]))
    L = [HEADER, "namespace JinjaV.Gen.AsyncSites\n",
         "inductive Kind where\n  | bracketed | bare | drain\n  deriving DecidableEq, Repr\n",
         "structure Site where\n  file : String\n  func : String\n  iterates : String\n  kind : Kind\n  deriving Repr\n",
         "-- READ: every `async for` / async comprehension in environment.py, nativetypes.py, runtime.py, async_utils.py",
         "def sites : List Site := " + llist(
             f"\n  ⟨{lstr(f)}, {lstr(q)}, {lstr(w)}, .{k}⟩" for f, q, w, k in sites) + "\n",
         "-- READ: the async generator functions defined in those files",
         f"def asyncGeneratorDefs : List String := {llist(map(lstr, defs))}\n",
         "-- READ: auto_aiter is a plain function without yield: calling it creates no async generator object",
         f"def autoAiterIsPlainFunction : Bool := {'true' if plain else 'false'}\n",
         "end JinjaV.Gen.AsyncSites\n"]
    return "AsyncSites.lean", "\n".join(L)
