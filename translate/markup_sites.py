"""Gen/MarkupSites.lean: every place where jinja2 marks text safe.

READ with Python `ast` from filters.py, utils.py, runtime.py, ext.py, nodes.py, environment.py, compiler.py:
  * every call `Markup(...)` / `markupsafe.Markup(...)`: (module, enclosing function, argument text)
  * in compiler.py also every string constant (plain or part of an f-string) mentioning `Markup` that is written into the
    generated template code: (module, enclosing function, the constant's text)
C15's value-level model has one clause per site (Props/C15.lean `knownMarkupSites`); a new or changed site makes the pin fail, i.e.
somebody has to say which clause covers it.
"""
from __future__ import annotations

import ast

from .common import HEADER, Untranslatable, lstr, parse

MODULES = ["filters", "utils", "runtime", "ext", "nodes", "environment", "compiler"]


def norm(s):
    return " ".join(s.split())


def qualname(stack):
    return ".".join(stack) if stack else "<module>"


def sites_of(mod):
    tree = parse(mod)
    out = []
    docstrings = {id(n.value) for n in ast.walk(tree) if isinstance(n, ast.Expr) and isinstance(n.value, ast.Constant)}

    def visit(node, stack):
        if isinstance(node, (ast.FunctionDef, ast.AsyncFunctionDef, ast.ClassDef)):
            stack = stack + [node.name]
        if isinstance(node, ast.Call):
            f = node.func
            is_markup = (isinstance(f, ast.Name) and f.id == "Markup") or \
                (isinstance(f, ast.Attribute) and f.attr == "Markup" and isinstance(f.value, ast.Name) and f.value.id == "markupsafe")
            if is_markup:
                if node.keywords:
                    raise Untranslatable(f"{mod}.{qualname(stack)}: Markup(...) with keyword arguments")
                out.append((mod, qualname(stack), "call: " + norm(", ".join(ast.unparse(a) for a in node.args))))
        if mod == "compiler" and isinstance(node, ast.Constant) and isinstance(node.value, str) and "Markup" in node.value \
                and id(node) not in docstrings:
            out.append((mod, qualname(stack), "emits: " + norm(node.value)))
        for ch in ast.iter_child_nodes(node):
            visit(ch, stack)

    visit(tree, [])
    return out


def gen():
    rows = []
    for m in MODULES:
        rows += sites_of(m)
    if not rows:
        raise Untranslatable("no Markup( site found at all")
    L = [HEADER, "namespace JinjaV.Gen.MarkupSites\n",
         "-- READ: (module, enclosing function, what is wrapped) for every Markup(...) call and every emitted `Markup(` code string, in source order",
         "def sites : List (String × String × String) := ["]
    L.append(",\n".join(f"  ({lstr(a)}, {lstr(b)}, {lstr(c)})" for a, b, c in rows))
    L.append("]\n")
    L.append("end JinjaV.Gen.MarkupSites\n")
    return "MarkupSites.lean", "\n".join(L)
