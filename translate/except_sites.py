"""Gen/ExceptSites.lean: every `try/except` handler in src/jinja2/*.py (READ, Python ast).

For each handler: module, qualified name of the enclosing function, ordinal of the handler inside that function
(source order), line of the `try`, first and last line of the guarded body, the caught classes as written ("BARE" for a bare `except:`), the handler *kind* classified
from the shape of its body, whether the guarded `try` body contains a call into data (a builtin protocol call such as
getattr/str/iter/next/len/int, a subscription, a call/attribute of a parameter, a parameter handed on to another call,
iteration, await), and the
operations found in the try body (for the reader and for the harness, which maps them to template features).

Also READ: the shape of `Environment.handle_exception` and `debug.rewrite_traceback_stack` (the facts that make
"call handle_exception" a re-raise of the *same* object).

Handler kinds (a body that matches none is `other`, which the Lean side treats like a swallow, i.e. conservatively):
  reraiseSame      last statement is a bare `raise` / `raise <handler name>`, nothing before it leaves the handler
  condReraise      `if <cond>: raise` followed by statements that fall through / return / continue
  translate        last statement is `raise X(...)` [from ...]  (detail = X), or a call of `self.fail(...)`
  handleException  the body is a single (return/yield/expression) call of `...handle_exception(...)`
  returnUndefined  last statement returns `<...>.undefined(...)` / `.unsafe_undefined(...)`
  passSwallow      body is `pass`
  returnValue      last statement is `return` / `return <constant or name or attribute>` (detail = the expression)
  continueLoop     last statement is `continue`
  assignOnly       only assignments (execution falls through after the try statement)
  fallback         the body is another try statement (second attempt)
  callOnly         only expression-statement calls (falls through)
"""
from __future__ import annotations

import ast

from .common import HEADER, SRC, Untranslatable, lbool, llist, lstr

DATA_BUILTINS = {
    "getattr", "hasattr", "str", "repr", "iter", "next", "aiter", "anext", "len", "int", "float", "bool", "list", "tuple",
    "dict", "set", "sorted", "reversed", "sum", "min", "max", "hash", "abs", "round", "format", "auto_aiter", "auto_await",
    "auto_to_list", "soft_str", "escape", "Markup",
}
KINDS = ["reraiseSame", "condReraise", "translate", "handleException", "returnUndefined", "passSwallow", "returnValue",
         "continueLoop", "assignOnly", "fallback", "callOnly", "other"]


def dotted(n) -> str:
    if isinstance(n, ast.Name):
        return n.id
    if isinstance(n, ast.Attribute):
        return dotted(n.value) + "." + n.attr
    if isinstance(n, ast.Call):
        return dotted(n.func) + "()"
    return "<expr>"


def caught_of(h: ast.ExceptHandler) -> list[str]:
    if h.type is None:
        return ["BARE"]
    if isinstance(h.type, ast.Tuple):
        return [dotted(e) for e in h.type.elts]
    return [dotted(h.type)]


def leaves_handler(stmts) -> bool:
    """does any statement (at any depth, outside nested defs) return / continue / break?"""
    for s in stmts:
        for n in ast.walk(s):
            if isinstance(n, (ast.Return, ast.Continue, ast.Break)):
                return True
    return False


def is_handle_exception_call(e) -> bool:
    return isinstance(e, ast.Call) and isinstance(e.func, ast.Attribute) and e.func.attr == "handle_exception"


def classify(h: ast.ExceptHandler) -> tuple[str, str]:
    body = h.body
    last = body[-1]
    # handle_exception
    if len(body) == 1:
        s = body[0]
        v = None
        if isinstance(s, ast.Return):
            v = s.value
        elif isinstance(s, ast.Expr):
            v = s.value.value if isinstance(s.value, (ast.Yield, ast.Await)) else s.value
        if v is not None and is_handle_exception_call(v):
            return "handleException", dotted(v.func)
        if isinstance(s, ast.Pass):
            return "passSwallow", ""
        if isinstance(s, ast.Try):
            return "fallback", ""
    if isinstance(last, ast.Raise):
        if last.exc is None or (isinstance(last.exc, ast.Name) and last.exc.id == h.name):
            if not leaves_handler(body[:-1]):
                return "reraiseSame", ""
            return "other", "conditional exits before raise"
        tgt = last.exc.func if isinstance(last.exc, ast.Call) else last.exc
        return "translate", dotted(tgt)
    if isinstance(body[0], ast.If) and not body[0].orelse and len(body[0].body) == 1 \
            and isinstance(body[0].body[0], ast.Raise) and body[0].body[0].exc is None:
        return "condReraise", ast.unparse(body[0].test)
    if isinstance(last, ast.Return):
        v = last.value
        if isinstance(v, ast.Call) and isinstance(v.func, ast.Attribute) and v.func.attr in ("undefined", "unsafe_undefined"):
            return "returnUndefined", ""
        if v is None:
            return "returnValue", "None"
        if isinstance(v, (ast.Constant, ast.Name, ast.Attribute)):
            return "returnValue", ast.unparse(v)
        return "other", "return " + ast.unparse(v)[:60]
    if isinstance(last, ast.Continue):
        return "continueLoop", ""
    if all(isinstance(s, (ast.Assign, ast.AnnAssign, ast.AugAssign)) for s in body):
        return "assignOnly", ", ".join(ast.unparse(t) for s in body for t in (s.targets if isinstance(s, ast.Assign) else [s.target]))
    if all(isinstance(s, ast.Expr) and isinstance(s.value, ast.Call) for s in body):
        names = [dotted(s.value.func) for s in body]
        if names == ["self.fail"]:
            return "translate", "self.fail"
        return "callOnly", ", ".join(names)
    return "other", " ; ".join(type(s).__name__ for s in body)


def params_of(fn) -> set[str]:
    if fn is None:
        return set()
    a = fn.args
    names = [x.arg for x in a.posonlyargs + a.args + a.kwonlyargs]
    if a.vararg:
        names.append(a.vararg.arg)
    if a.kwarg:
        names.append(a.kwarg.arg)
    return {n for n in names if n not in ("self", "cls", "__self")}


def root_name(n):
    while isinstance(n, (ast.Attribute, ast.Subscript, ast.Call)):
        n = n.value if not isinstance(n, ast.Call) else n.func
    return n.id if isinstance(n, ast.Name) else None


def try_ops(body, params: set[str]) -> tuple[list[str], bool]:
    """operations in the guarded body; second component: does it contain a call into data?"""
    ops: list[str] = []
    data = False

    def add(o, is_data):
        nonlocal data
        if o not in ops:
            ops.append(o)
        data = data or is_data

    for s in body:
        for n in ast.walk(s):
            if isinstance(n, ast.Call):
                f = n.func
                if isinstance(f, ast.Name):
                    if f.id in DATA_BUILTINS:
                        add("builtin:" + f.id, True)
                    elif f.id in params:
                        add("param-call:" + f.id, True)
                    else:
                        add("call:" + f.id, False)
                else:
                    r = root_name(f)
                    if r in params:
                        add("param-method:" + dotted(f), True)
                    else:
                        add("call:" + dotted(f), False)
                if not (isinstance(f, ast.Name) and f.id in ("isinstance", "issubclass", "type", "id")):
                    for a in list(n.args) + [k.value for k in n.keywords]:
                        a = a.value if isinstance(a, ast.Starred) else a
                        if isinstance(a, ast.Name) and a.id in params:
                            add("passes-param:" + a.id, True)
            elif isinstance(n, ast.Subscript) and isinstance(n.ctx, ast.Load):
                add("subscript:" + dotted(n.value), True)
            elif isinstance(n, ast.Attribute) and isinstance(n.ctx, ast.Load) and isinstance(n.value, ast.Name) \
                    and n.value.id in params:
                add("param-attr:" + n.value.id + "." + n.attr, True)
            elif isinstance(n, (ast.For, ast.AsyncFor, ast.comprehension)):
                add("iterate:" + dotted(n.iter), True)
            elif isinstance(n, ast.Await):
                add("await", True)
            elif isinstance(n, (ast.YieldFrom,)):
                add("yield-from:" + dotted(n.value), False)
    return ops, data


def sites_of(modname: str, tree: ast.Module):
    out = []

    def walk(node, qual, fn, counter):
        for ch in ast.iter_child_nodes(node):
            q, f, c = qual, fn, counter
            if isinstance(ch, ast.ClassDef):
                q = qual + [ch.name]
            elif isinstance(ch, (ast.FunctionDef, ast.AsyncFunctionDef)):
                q, f, c = qual + [ch.name], ch, [0]
            if isinstance(ch, ast.Try):
                ops, data = try_ops(ch.body, params_of(fn))
                for h in ch.handlers:
                    kind, detail = classify(h)
                    out.append(dict(module=modname, func=".".join(qual) or "<module>", idx=counter[0], line=ch.lineno,
                                    caught=caught_of(h), kind=kind, detail=detail, data=data, ops=ops,
                                    body_from=ch.body[0].lineno, body_to=ch.body[-1].end_lineno,
                                    guards=" ".join(ast.unparse(ch.body[0]).split())[:70]))
                    counter[0] += 1
            elif hasattr(ast, "TryStar") and isinstance(ch, ast.TryStar):
                raise Untranslatable(f"{modname}:{ch.lineno}: except* is outside the supported subset")
            walk(ch, q, f, c)

    walk(tree, [], None, [0])
    return out


def handle_exception_facts():
    """(handle_exception raises what rewrite_traceback_stack returns, every return of rewrite_traceback_stack is
    `exc_value.with_traceback(..)`, exc_value is bound from sys.exc_info() and only re-bound by t.cast of itself)"""
    env = ast.parse((SRC / "environment.py").read_text())
    dbg = ast.parse((SRC / "debug.py").read_text())
    he = None
    for n in ast.walk(env):
        if isinstance(n, ast.FunctionDef) and n.name == "handle_exception":
            he = n
    rw = None
    for n in dbg.body:
        if isinstance(n, ast.FunctionDef) and n.name == "rewrite_traceback_stack":
            rw = n
    if he is None or rw is None:
        raise Untranslatable("handle_exception / rewrite_traceback_stack not found")
    stmts = [s for s in he.body if not (isinstance(s, ast.Expr) and isinstance(s.value, ast.Constant))]
    stmts = [s for s in stmts if not isinstance(s, (ast.Import, ast.ImportFrom))]
    raises_rewritten = len(stmts) == 1 and isinstance(stmts[0], ast.Raise) and isinstance(stmts[0].exc, ast.Call) \
        and dotted(stmts[0].exc.func) == "rewrite_traceback_stack" and stmts[0].cause is None
    rets = [n for n in ast.walk(rw) if isinstance(n, ast.Return)]
    returns_same = bool(rets) and all(
        isinstance(r.value, ast.Call) and dotted(r.value.func) == "exc_value.with_traceback" for r in rets)
    no_raise = not any(isinstance(n, ast.Raise) for n in ast.walk(rw))
    binds = []
    for n in ast.walk(rw):
        if isinstance(n, (ast.Assign, ast.AnnAssign, ast.AugAssign)):
            tg = n.targets if isinstance(n, ast.Assign) else [n.target]
            for t in tg:
                for m in ast.walk(t):
                    if isinstance(m, ast.Name) and m.id == "exc_value" and isinstance(m.ctx, ast.Store):
                        binds.append(" ".join(ast.unparse(n).split()))
    bound_ok = sorted(binds) == sorted(["_, exc_value, tb = sys.exc_info()", "exc_value = t.cast(BaseException, exc_value)"])
    return raises_rewritten, returns_same and no_raise, bound_ok


def gen():
    rows = []
    for p in sorted(SRC.glob("*.py")):
        rows += sites_of(p.stem, ast.parse(p.read_text(), filename=str(p)))
    a, b, c = handle_exception_facts()
    L = [HEADER, "namespace JinjaV.Gen.ExceptSites\n",
         "inductive HKind where\n  | " + " | ".join(KINDS) + "\n  deriving Repr, DecidableEq, BEq\n",
         "structure Site where\n  module : String\n  func : String\n  idx : Nat\n  line : Nat\n  bodyFrom : Nat\n  bodyTo : Nat\n  caught : List String\n"
         "  kind : HKind\n  detail : String\n  dataCall : Bool\n  ops : List String\n  guards : String\n  deriving Repr, DecidableEq\n",
         "/-- READ: every except handler of src/jinja2/*.py in source order -/",
         "def sites : List Site := ["]
    items = []
    for r in rows:
        items.append(
            f"  {{ module := {lstr(r['module'])}, func := {lstr(r['func'])}, idx := {r['idx']}, line := {r['line']}, bodyFrom := {r['body_from']}, bodyTo := {r['body_to']}, "
            f"caught := {llist(map(lstr, r['caught']))}, kind := .{r['kind']}, detail := {lstr(r['detail'])}, "
            f"dataCall := {lbool(r['data'])}, ops := {llist(map(lstr, r['ops']))}, guards := {lstr(r['guards'])} }}")
    L.append(",\n".join(items))
    L.append("]\n")
    L.append("/-- READ: `Environment.handle_exception` consists of `raise rewrite_traceback_stack(source=source)` -/")
    L.append(f"def handleExceptionRaisesRewritten : Bool := {lbool(a)}")
    L.append("/-- READ: every `return` of `debug.rewrite_traceback_stack` is `exc_value.with_traceback(..)` and it has no `raise` -/")
    L.append(f"def rewriteReturnsExcValue : Bool := {lbool(b)}")
    L.append("/-- READ: `exc_value` is bound from `sys.exc_info()` and re-bound only by `t.cast` of itself -/")
    L.append(f"def excValueIsCurrentException : Bool := {lbool(c)}\n")
    L.append("end JinjaV.Gen.ExceptSites\n")
    return "ExceptSites.lean", "\n".join(L)


if __name__ == "__main__":
    print(gen()[1])
