"""Gen/ConvertTable.lean: which exceptions `|int` and `|float` catch, and which exceptions the conversions raise.

READ from filters.py (Python ast): the try/except structure of do_int and do_float.  Supported shape only:

    do_int:    try: [if isinstance(value, str): return int(value, base)]; return int(value)
               except <outer classes>:
                   try: return int(float(value))
                   except <inner classes>: return default
    do_float:  try: return float(value)
               except <classes>: return default

Anything else raises Untranslatable (a broken tie).  The emitted facts are the three caught-class lists.

MEASURED on the running interpreter (facts about CPython's int()/float(), not about jinja): for each sample of the value
classes named by the property (str in many spellings, int, bool, None, float incl. inf/nan, huge ints, Decimal, Fraction,
complex, list, tuple, dict, set, object, bytes-free) the outcome of the three conversion expressions that occur in the
two filters: `int(value, base)` / `int(value)`, `float(value)`, `int(float(value))` - either ok or the raised exception's
class names along its MRO (so a handler naming a base class such as ArithmeticError or Exception counts as catching).
"""
from __future__ import annotations

import ast
import decimal
import fractions

from .common import HEADER, Untranslatable, find_func, llist, lstr, parse


# ----------------------------------------------------------------------------------------------- samples (shared with the runner)

class PlainObject:
    def __repr__(self):
        return "PlainObject()"


def samples():
    """name -> (kind, value factory).  Every row of the measured table is one (sample, base) pair."""
    S = {}

    def add(name, kind, f):
        assert name not in S
        S[name] = (kind, f)

    for name, text in [
        ("str-int", "42"), ("str-neg", "-7"), ("str-plus", "+5"), ("str-spaces", "  12  "), ("str-float", "42.23"),
        ("str-negfloat", "-0.5"), ("str-exp", "1e3"), ("str-dot", "."), ("str-lead-dot", ".5"), ("str-inf", "inf"),
        ("str-neginf", "-Infinity"), ("str-nan", "nan"), ("str-exp-overflow", "1e400"), ("str-empty", ""),
        ("str-blank", " \t\n"), ("str-alpha", "abc"), ("str-hex", "0x1f"), ("str-hexdigits", "ff"), ("str-bin", "0b101"),
        ("str-oct", "0o17"), ("str-underscore", "1_000"), ("str-bad-underscore", "1__0"), ("str-leading-zero", "007"),
        ("str-unicode-digits", "٤٢"), ("str-fullwidth", "１２"), ("str-nul", "1\x002"),
        ("str-many-digits", "9" * 5000), ("str-many-hexdigits", "f" * 5000), ("str-comma", "1,5"),
        ("str-two-dots", "1.2.3"), ("str-minus-only", "-"), ("str-percent", "50%"), ("str-trailing-junk", "12abc"),
        ("str-float-exp-junk", "1e"), ("str-superscript", "²"),
    ]:
        add(name, "str", lambda text=text: text)
    add("markup-int", "str", lambda: __import__("markupsafe").Markup("42"))
    add("markup-alpha", "str", lambda: __import__("markupsafe").Markup("<b>"))
    add("int-zero", "int", lambda: 0)
    add("int-neg", "int", lambda: -5)
    add("int-big", "int", lambda: 2 ** 70)
    add("bool-true", "bool", lambda: True)
    add("bool-false", "bool", lambda: False)
    add("none", "none", lambda: None)
    add("float-half", "float", lambda: 1.5)
    add("float-negzero", "float", lambda: -0.0)
    add("float-max", "float", lambda: 1.7976931348623157e308)
    add("float-inf", "float", lambda: float("inf"))
    add("float-neginf", "float", lambda: float("-inf"))
    add("float-nan", "float", lambda: float("nan"))
    add("hugeint", "hugeint", lambda: 10 ** 400)
    add("hugeint-neg", "hugeint", lambda: -(10 ** 400))
    add("hugeint-2pow1024", "hugeint", lambda: 2 ** 1024)
    add("int-below-2pow1024", "int", lambda: 2 ** 1024 - 2 ** 970)
    add("decimal", "decimal", lambda: decimal.Decimal("12.5"))
    add("decimal-inf", "decimal", lambda: decimal.Decimal("Infinity"))
    add("decimal-nan", "decimal", lambda: decimal.Decimal("NaN"))
    add("decimal-huge", "decimal", lambda: decimal.Decimal("1e400"))
    add("fraction", "fraction", lambda: fractions.Fraction(7, 2))
    add("fraction-huge", "fraction", lambda: fractions.Fraction(10 ** 400, 3))
    add("complex", "complex", lambda: 1 + 2j)
    add("list-empty", "list", lambda: [])
    add("list-one", "list", lambda: [1])
    add("list-str", "list", lambda: ["1"])
    add("tuple", "tuple", lambda: (1, 2))
    add("dict-empty", "dict", lambda: {})
    add("dict-one", "dict", lambda: {1: 2})
    add("set", "set", lambda: {1})
    add("range", "range", lambda: range(3))
    add("object", "object", PlainObject)
    add("function", "object", lambda: len)
    add("type", "object", lambda: int)
    add("ellipsis", "object", lambda: Ellipsis)
    return S


BASES_FOR_STR = [10, 16, 2, 0, 36, 1]


def row_keys():
    """the (sample name, base) pairs of the table, in order"""
    out = []
    for name, (kind, _f) in samples().items():
        if kind == "str":
            for b in BASES_FOR_STR:
                out.append((name, b))
        else:
            out.append((name, 10))
            out.append((name, 16))      # the base must be ignored for non-strings
    return out


def outcome(thunk):
    try:
        thunk()
        return None
    except BaseException as e:  # noqa: measured, every class matters
        return [c.__name__ for c in type(e).__mro__ if c is not object]


def measure():
    S = samples()
    rows = []
    for name, base in row_keys():
        kind, f = S[name]
        v = f()
        if isinstance(v, str):
            r_int = outcome(lambda: int(v, base))
        else:
            r_int = outcome(lambda: int(v))
        r_flt = outcome(lambda: float(v))
        r_intflt = outcome(lambda: int(float(v)))
        rows.append((name, kind, base, r_int, r_flt, r_intflt))
    return rows


# ----------------------------------------------------------------------------------------------- read

def norm(node):
    return " ".join(ast.unparse(node).split())


def body_wo_doc(fn):
    return [s for s in fn.body if not (isinstance(s, ast.Expr) and isinstance(s.value, ast.Constant))]


def caught(handler: ast.ExceptHandler):
    t = handler.type
    if t is None:
        return ["BaseException"]
    elts = t.elts if isinstance(t, ast.Tuple) else [t]
    names = []
    for e in elts:
        if isinstance(e, ast.Name):
            names.append(e.id)
        elif isinstance(e, ast.Attribute):
            names.append(e.attr)
        else:
            raise Untranslatable(f"except clause names a non-class expression: {norm(e)}")
    return names


def single_try(stmts, what):
    if len(stmts) != 1 or not isinstance(stmts[0], ast.Try):
        raise Untranslatable(f"{what}: body is not a single try statement")
    t = stmts[0]
    if t.orelse or t.finalbody or len(t.handlers) != 1:
        raise Untranslatable(f"{what}: try has else/finally or not exactly one handler")
    return t


def read():
    tree = parse("filters")
    fi = find_func(tree, "do_int")
    if [a.arg for a in fi.args.args] != ["value", "default", "base"]:
        raise Untranslatable("do_int: parameters changed")
    t = single_try(body_wo_doc(fi), "do_int")
    want = ["if isinstance(value, str): return int(value, base)", "return int(value)"]
    if [norm(s) for s in t.body] != want:
        raise Untranslatable("do_int: conversion attempt is not `int(value, base)` for str / `int(value)`: " + "; ".join(norm(s) for s in t.body))
    outer = caught(t.handlers[0])
    t2 = single_try(t.handlers[0].body, "do_int handler")
    if [norm(s) for s in t2.body] != ["return int(float(value))"]:
        raise Untranslatable("do_int: fallback is not `return int(float(value))`")
    inner = caught(t2.handlers[0])
    if [norm(s) for s in t2.handlers[0].body] != ["return default"]:
        raise Untranslatable("do_int: inner handler does not `return default`")
    ff = find_func(tree, "do_float")
    if [a.arg for a in ff.args.args] != ["value", "default"]:
        raise Untranslatable("do_float: parameters changed")
    t3 = single_try(body_wo_doc(ff), "do_float")
    if [norm(s) for s in t3.body] != ["return float(value)"]:
        raise Untranslatable("do_float: conversion attempt is not `return float(value)`")
    fl = caught(t3.handlers[0])
    if [norm(s) for s in t3.handlers[0].body] != ["return default"]:
        raise Untranslatable("do_float: handler does not `return default`")
    return outer, inner, fl


def lres(r):
    return ".ok" if r is None else f"(.raises {llist(map(lstr, r))})"


def gen():
    outer, inner, fl = read()
    rows = measure()
    L = [HEADER, "namespace JinjaV.Gen.ConvertTable\n",
         "/-- READ (filters.py do_int): classes named by the handler around `int(value, base)` / `int(value)` -/",
         f"def intOuterCaught : List String := {llist(map(lstr, outer))}",
         "/-- READ (filters.py do_int): classes named by the handler around the fallback `int(float(value))`; it returns the default -/",
         f"def intInnerCaught : List String := {llist(map(lstr, inner))}",
         "/-- READ (filters.py do_float): classes named by the handler around `float(value)`; it returns the default -/",
         f"def floatCaught : List String := {llist(map(lstr, fl))}\n",
         "/-- outcome of one conversion expression: fine, or the raised exception's class names along its MRO -/",
         "inductive Res where\n  | ok\n  | raises (mro : List String)\n  deriving Repr, DecidableEq, Inhabited\n",
         "/-- MEASURED on the running CPython: one sample value (and base, used by `int(value, base)` for strings only) -/",
         "structure Row where\n  name : String\n  kind : String\n  base : Int\n  /-- `int(value, base)` if the value is a str, else `int(value)` -/\n"
         "  int1 : Res\n  /-- `float(value)` -/\n  flt : Res\n  /-- `int(float(value))` -/\n  intflt : Res\n  deriving Repr, DecidableEq, Inhabited\n",
         "def rows : List Row := ["]
    items = []
    for name, kind, base, a, b, c in rows:
        items.append(f"  {{ name := {lstr(name)}, kind := {lstr(kind)}, base := {base}, int1 := {lres(a)}, flt := {lres(b)}, intflt := {lres(c)} }}")
    L.append(",\n".join(items))
    L.append("]\n")
    L.append("end JinjaV.Gen.ConvertTable\n")
    return "ConvertTable.lean", "\n".join(L)
