"""Gen/ExprTables.lean — facts about expressions READ from the source (Python ast):

* the `Impossible` guards of the `as_const` methods (nodes.py), of `_output_child_to_const` and `optimizeconst`
  (compiler.py) and of `Optimizer.generic_visit` / `Const.from_untrusted`  → `guards : Guards`
* decoration facts (pass_context / pass_eval_context / pass_environment, async variant) of the built-in filters and
  tests the expression model knows                                        → `tables : Tables`
* the precedence chain of the expression parser (which parse_* calls which, on which tokens), `_math_nodes`,
  `_compare_operators`, `compiler.operators`, `nodes._binop_to_func/_uaop_to_func/_cmpop_to_func`
"""
from __future__ import annotations

import ast

from .common import HEADER, Untranslatable, find_class, find_func, lbool, llist, lstr, parse

MODELLED_FILTERS = ["abs", "length", "count", "default", "d", "first", "last", "upper", "lower", "safe", "escape", "e",
                    "forceescape", "string", "list", "sum", "join", "replace"]
MODELLED_TESTS = ["defined", "undefined", "none", "odd", "even", "divisibleby", "string", "number", "integer", "boolean", "true",
                  "false", "mapping", "sequence", "iterable", "callable", "escaped", "upper", "lower", "eq", "==", "equalto", "ne", "!=", "lt", "<",
                  "lessthan", "le", "<=", "gt", ">", "greaterthan", "ge", ">=", "in"]


def method(cls: ast.ClassDef, name: str):
    for n in cls.body:
        if isinstance(n, (ast.FunctionDef, ast.AsyncFunctionDef)) and n.name == name:
            return n
    raise Untranslatable(f"{cls.name}.{name} not found")


def raises_impossible(stmts) -> bool:
    return bool(stmts) and isinstance(stmts[0], ast.Raise) and stmts[0].exc is not None and "Impossible" in ast.unparse(stmts[0].exc)


def guard_index(fn, needles: list[str]):
    """index of the first top-level `if <test>: raise Impossible()` whose test mentions all needles, else None"""
    for i, st in enumerate(fn.body):
        if isinstance(st, ast.If) and raises_impossible(st.body) and not st.orelse:
            src = ast.unparse(st.test)
            if all(nd in src for nd in needles):
                return i
    return None


def first_effect_index(fn) -> int:
    """index of the first top-level statement that evaluates operands (try / return / assignment calling as_const / func call)"""
    for i, st in enumerate(fn.body):
        src = ast.unparse(st)
        if isinstance(st, (ast.Try, ast.Return)):
            return i
        if "as_const(" in src and not src.startswith("eval_ctx = get_eval_context"):
            return i
    return len(fn.body)


def has_guard(fn, needles) -> bool:
    gi = guard_index(fn, needles)
    return gi is not None and gi < first_effect_index(fn)


def decorations(tree: ast.Module, table: str, names: list[str], rows_for: str):
    tab = None
    for n in tree.body:
        if isinstance(n, ast.Assign) and any(isinstance(t, ast.Name) and t.id == table for t in n.targets):
            tab = n.value
        if isinstance(n, ast.AnnAssign) and isinstance(n.target, ast.Name) and n.target.id == table:
            tab = n.value
    if not isinstance(tab, ast.Dict):
        raise Untranslatable(f"{table} is not a dict literal")
    mapping = {}
    for k, v in zip(tab.keys, tab.values):
        if not isinstance(k, ast.Constant):
            raise Untranslatable(f"{table} key not constant")
        mapping[k.value] = v
    defs = {n.name: n for n in tree.body if isinstance(n, (ast.FunctionDef, ast.AsyncFunctionDef))}

    def deco_names(fn):
        out = []
        for d in fn.decorator_list:
            if isinstance(d, ast.Call):
                out.append((ast.unparse(d.func).split(".")[-1], [ast.unparse(a) for a in d.args]))
            else:
                out.append((ast.unparse(d).split(".")[-1], []))
        return out

    rows = []
    for name in names:
        if name not in mapping:
            raise Untranslatable(f"{rows_for} {name!r} is not registered in {table}")
        v = mapping[name]
        pass_arg, is_async = "plain", False
        if isinstance(v, ast.Name) and v.id in defs:
            fn = defs[v.id]
            decos = deco_names(fn)
            for d, args in decos:
                if d == "async_variant":
                    is_async = True
                    if args and args[0] in defs:
                        decos = decos + deco_names(defs[args[0]])
            if isinstance(fn, ast.AsyncFunctionDef):
                is_async = True
            for d, _ in decos:
                if d == "pass_context":
                    pass_arg = "context"
                elif d == "pass_eval_context":
                    pass_arg = "evalContext"
                elif d == "pass_environment":
                    pass_arg = "environment"
        rows.append(f"⟨{lstr(name)}, .{pass_arg}, {lbool(is_async)}⟩")
    return rows


def parser_chain(tree: ast.Module):
    cls = find_class(tree, "Parser")
    chain = ["parse_condexpr", "parse_or", "parse_and", "parse_not", "parse_compare", "parse_math1", "parse_concat",
             "parse_math2", "parse_pow", "parse_unary"]
    rows = []
    for fname in chain:
        fn = method(cls, fname)
        callees, tokens = [], []
        for n in ast.walk(fn):
            if isinstance(n, ast.Call) and isinstance(n.func, ast.Attribute) and isinstance(n.func.value, ast.Name) \
                    and n.func.value.id == "self" and n.func.attr.startswith("parse_"):
                if n.func.attr not in callees:
                    callees.append(n.func.attr)
            if isinstance(n, ast.Constant) and isinstance(n.value, str) and n.value and not n.value.startswith(" ") \
                    and len(n.value) < 16 and not isinstance(getattr(n, "_doc", None), str):
                if n.value not in tokens:
                    tokens.append(n.value)
            if isinstance(n, ast.Name) and n.id in ("_compare_operators", "_math_nodes") and n.id not in tokens:
                tokens.append(n.id)
        # drop the docstring if any
        doc = ast.get_docstring(fn)
        tokens = [t for t in tokens if t != doc]
        rows.append(f"({lstr(fname)}, {llist([lstr(c) for c in sorted(callees)])}, {llist([lstr(t) for t in sorted(tokens)])})")
    return rows


def dict_table(tree: ast.Module, name: str):
    for n in tree.body:
        tgt = None
        if isinstance(n, ast.Assign):
            tgt = [t.id for t in n.targets if isinstance(t, ast.Name)]
            val = n.value
        elif isinstance(n, ast.AnnAssign) and isinstance(n.target, ast.Name):
            tgt = [n.target.id]
            val = n.value
        if tgt and name in tgt:
            if isinstance(val, ast.Dict):
                return [(k.value, ast.unparse(v)) for k, v in zip(val.keys, val.values)]
            if isinstance(val, ast.Call) and ast.unparse(val.func) == "frozenset":
                return [(e.value, "") for e in val.args[0].elts]
    raise Untranslatable(f"table {name} not found")


def pairs(rows):
    return llist([f"({lstr(a)}, {lstr(b)})" for a, b in rows])


def gen():
    nodes = parse("nodes")
    compiler = parse("compiler")
    optimizer = parse("optimizer")
    filters = parse("filters")
    tests = parse("tests")
    parser = parse("parser")

    bin_fn = method(find_class(nodes, "BinExpr"), "as_const")
    un_fn = method(find_class(nodes, "UnaryExpr"), "as_const")
    ft_fn = method(find_class(nodes, "_FilterTestCommon"), "as_const")
    cat_fn = method(find_class(nodes, "Concat"), "as_const")
    cond_fn = method(find_class(nodes, "CondExpr"), "as_const")
    out_fn = method(find_class(compiler, "CodeGenerator"), "_output_child_to_const")
    fu_fn = method(find_class(nodes, "Const"), "from_untrusted")
    gv_fn = method(find_class(optimizer, "Optimizer"), "generic_visit")
    oc_fn = find_func(compiler, "optimizeconst")

    concat_ae = False
    for st in cat_fn.body:
        if isinstance(st, ast.If) and "eval_ctx.autoescape" in ast.unparse(st.test) and "not " not in ast.unparse(st.test):
            body_src = ast.unparse(st)
            if "Markup" in body_src and any(isinstance(x, ast.Return) for x in ast.walk(st)):
                concat_ae = True
    cond_no_else = any(isinstance(st, ast.If) and "expr2 is None" in ast.unparse(st.test) and raises_impossible(st.body)
                       for st in ast.walk(cond_fn))
    from_untrusted = ("from_untrusted" in ast.unparse(gv_fn)) and any(
        isinstance(st, ast.If) and "has_safe_repr" in ast.unparse(st.test) and "not " in ast.unparse(st.test)
        and raises_impossible(st.body) for st in ast.walk(fu_fn))
    opt_skips = any(isinstance(st, ast.If) and "self.optimizer is not None" in ast.unparse(st.test)
                    and "not frame.eval_ctx.volatile" in ast.unparse(st.test) for st in ast.walk(oc_fn))

    # Filter/Test/Getattr/Getitem.as_const pass their result through `_const_result`, which rejects values without a safe repr
    cr_fn = find_func(nodes, "_const_result")
    cr_ok = any(isinstance(st, ast.If) and "has_safe_repr" in ast.unparse(st.test) and "not " in ast.unparse(st.test)
                and raises_impossible(st.body) for st in ast.walk(cr_fn))
    ga_fn = method(find_class(nodes, "Getattr"), "as_const")
    gi_fn = method(find_class(nodes, "Getitem"), "as_const")

    def returns_all_checked(fn):
        rets = [r for r in ast.walk(fn) if isinstance(r, ast.Return) and r.value is not None]
        return bool(rets) and all(isinstance(r.value, ast.Call) and ast.unparse(r.value.func) == "_const_result" for r in rets)
    result_safe = cr_ok and returns_all_checked(ft_fn) and returns_all_checked(ga_fn) and returns_all_checked(gi_fn)

    guards = dict(
        binIntercept=has_guard(bin_fn, ["sandboxed", "self.operator in", "intercepted_binops"]),
        unIntercept=has_guard(un_fn, ["sandboxed", "self.operator in", "intercepted_unops"]),
        filterVolatile=has_guard(ft_fn, ["eval_ctx.volatile"]),
        filterContext=has_guard(ft_fn, ["_PassArg.context"]),
        filterAsync=has_guard(ft_fn, ["is_async", "jinja_async_variant"]),
        concatVolatile=has_guard(cat_fn, ["eval_ctx.volatile"]),
        concatAutoescape=concat_ae,
        outputVolatile=has_guard(out_fn, ["frame.eval_ctx.volatile"]),
        condNoElse=cond_no_else,
        fromUntrusted=from_untrusted,
        optSkipsVolatile=opt_skips,
        resultSafeRepr=result_safe,
    )
    frows = decorations(filters, "FILTERS", MODELLED_FILTERS, "filter")
    trows = decorations(tests, "TESTS", MODELLED_TESTS, "test")

    out = [HEADER, "import JinjaV.Model.Expr\nnamespace JinjaV.Gen.ExprTables\nopen JinjaV.Expr\n"]
    out.append("/-- read: which `Impossible` guards are present (nodes.py as_const methods, compiler.py, optimizer.py) -/")
    out.append("def guards : Guards :=\n  { " + ",\n    ".join(f"{k} := {lbool(v)}" for k, v in guards.items()) + " }\n")
    out.append("/-- read: decoration facts of the modelled filters (filters.py FILTERS + decorators) -/")
    out.append("def filterRows : List FnInfo :=\n  [" + ",\n   ".join(frows) + "]\n")
    out.append("/-- read: decoration facts of the modelled tests (tests.py TESTS + decorators) -/")
    out.append("def testRows : List FnInfo :=\n  [" + ",\n   ".join(trows) + "]\n")
    out.append("def tables : Tables := ⟨filterRows, testRows⟩\n")
    out.append("/-- read: the precedence chain of parser.py: (function, parse_* functions it calls, token strings / tables it tests) -/")
    out.append("def parserChain : List (String × List String × List String) :=\n  [" + ",\n   ".join(parser_chain(parser)) + "]\n")
    out.append("def mathNodes : List (String × String) := " + pairs(dict_table(parser, "_math_nodes")))
    out.append("def compareOperators : List String := " + llist(sorted(lstr(a) for a, _ in dict_table(parser, "_compare_operators"))))
    out.append("def compilerOperators : List (String × String) := " + pairs(dict_table(compiler, "operators")))
    out.append("def binopToFunc : List (String × String) := " + pairs(dict_table(nodes, "_binop_to_func")))
    out.append("def uaopToFunc : List (String × String) := " + pairs(dict_table(nodes, "_uaop_to_func")))
    out.append("def cmpopToFunc : List (String × String) := " + pairs(dict_table(nodes, "_cmpop_to_func")))
    # which visitor writes which operator: visit_Add = _make_binop("+") …
    cg = find_class(compiler, "CodeGenerator")
    vis = []
    for st in cg.body:
        if isinstance(st, ast.Assign) and isinstance(st.value, ast.Call) and isinstance(st.value.func, ast.Name) \
                and st.value.func.id in ("_make_binop", "_make_unop"):
            vis.append((st.targets[0].id, st.value.args[0].value))
    out.append("def visitorOperators : List (String × String) := " + pairs(vis))
    # which visitors are wrapped by optimizeconst
    deco = sorted(n.name for n in cg.body if isinstance(n, ast.FunctionDef)
                  and any(ast.unparse(d) == "optimizeconst" for d in n.decorator_list))
    out.append("def optimizeconstVisitors : List String := " + llist([lstr(d) for d in deco]))
    # the optimizer's traversal: the model's `opt` rewrites bottom-up and folds every node in the evaluation context it was
    # called with.  Read: which methods Optimizer defines, and that the context handed to `optimizer.visit(node, eval_ctx)`
    # reaches every child visit and every as_const unchanged.
    visitor = parse("visitor")
    opt_cls = find_class(optimizer, "Optimizer")
    opt_methods = [n.name for n in opt_cls.body if isinstance(n, (ast.FunctionDef, ast.AsyncFunctionDef))]

    def forwards(call):
        return (any(isinstance(a, ast.Starred) and ast.unparse(a.value) == "args" for a in call.args)
                and any(k.arg is None and ast.unparse(k.value) == "kwargs" for k in call.keywords))

    def calls(fn, pred):
        return [c for c in ast.walk(fn) if isinstance(c, ast.Call) and pred(ast.unparse(c.func))]
    nv, nt = find_class(visitor, "NodeVisitor"), find_class(visitor, "NodeTransformer")
    walk_calls = (calls(method(nv, "visit"), lambda f: f in ("f", "self.generic_visit"))
                  + calls(method(nv, "generic_visit"), lambda f: f == "self.visit")
                  + calls(method(nt, "generic_visit"), lambda f: f == "self.visit")
                  + calls(method(nt, "visit_list"), lambda f: f == "self.visit"))
    super_calls = calls(gv_fn, lambda f: f == "super().generic_visit")
    asconst_calls = calls(gv_fn, lambda f: f.endswith(".as_const"))
    opt_forwards = (len(super_calls) == 1 and forwards(super_calls[0]) and len(asconst_calls) == 1
                    and [ast.unparse(a) for a in asconst_calls[0].args] == ["args[0] if args else None"]
                    and not asconst_calls[0].keywords
                    and [n.arg for n in gv_fn.args.args] == ["self", "node"] and gv_fn.args.vararg is not None
                    and gv_fn.args.kwarg is not None)
    oc_calls = calls(oc_fn, lambda f: f == "self.optimizer.visit")
    oc_passes = len(oc_calls) == 1 and [ast.unparse(a) for a in oc_calls[0].args] == ["node", "frame.eval_ctx"] \
        and not oc_calls[0].keywords
    out.append("/-- read: the methods class Optimizer defines (optimizer.py) -/")
    out.append("def optimizerMethods : List String := " + llist([lstr(m) for m in opt_methods]))
    out.append("/-- read: Optimizer.generic_visit hands `*args, **kwargs` to NodeTransformer.generic_visit and `args[0] if args else None` to as_const -/")
    out.append(f"def optimizerForwardsCtx : Bool := {lbool(opt_forwards)}")
    out.append("/-- read: how many child-visit calls NodeVisitor.visit/generic_visit and NodeTransformer.generic_visit/visit_list make, and how many of them forward `*args, **kwargs` -/")
    out.append(f"def visitorWalkCalls : Nat × Nat := ({len(walk_calls)}, {sum(1 for c in walk_calls if forwards(c))})")
    out.append("/-- read: optimizeconst calls `self.optimizer.visit(node, frame.eval_ctx)` (compiler.py) -/")
    out.append(f"def optimizeconstPassesCtx : Bool := {lbool(oc_passes)}")
    # has_safe_repr: which values may be written back into generated code as their repr.  The model's `resultSafeRepr`
    # treats exactly the builtin types as safe; a subclass instance (a namedtuple from groupby, a str subclass) has a repr
    # that does not rebuild it.  Read: every type test of has_safe_repr is an exact `type(value) in {...}` / `type(value) is T`
    # (no isinstance), and the sets of types.
    hs_fn = find_func(compiler, "has_safe_repr")
    exact_sets, loose = [], []
    for node in ast.walk(hs_fn):
        if isinstance(node, ast.Call) and ast.unparse(node.func) in ("isinstance", "issubclass"):
            loose.append(ast.unparse(node))
        if isinstance(node, ast.Compare) and ast.unparse(node.left) == "type(value)":
            op, right = node.ops[0], node.comparators[0]
            if isinstance(op, ast.In) and isinstance(right, (ast.Set, ast.Tuple, ast.List)):
                exact_sets.append(sorted(ast.unparse(e) for e in right.elts))
            elif isinstance(op, ast.Is):
                exact_sets.append([ast.unparse(right)])
            else:
                loose.append(ast.unparse(node))
    out.append("/-- read: the exact-type tests of has_safe_repr (compiler.py), in source order -/")
    out.append("def safeReprExactTypes : List (List String) := " + llist(llist(lstr(x) for x in st) for st in exact_sets))
    out.append("/-- read: type tests of has_safe_repr that are NOT exact (isinstance / issubclass / other comparisons) -/")
    out.append("def safeReprLooseTests : List String := " + llist(lstr(x) for x in loose))
    out.append("\nend JinjaV.Gen.ExprTables\n")
    return "ExprTables.lean", "\n".join(out)
