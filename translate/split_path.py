"""Gen/SplitPath.lean: the WHOLE body of `split_template_path` (loaders.py) as a `JinjaV.Path.SplitProg`
(Model/PathProg.lean): the refusing condition, the keeping condition and the expression that is stored, each over
expressions of the loop variable (chains of `str -> str` function symbols applied to the raw piece).  READ from the
source with `ast`; every statement of the function must be one the representation expresses, anything else raises
(broken tie).  A transformation applied to a piece anywhere — before the test (a re-binding of the loop variable),
inside a condition, or in the value that is appended — ends up in the program, and the property's theorems are re-proved
over it (Props/C28.lean: `gen_prog_safe`, `gen_split_safe`, `gen_split_join_inside`)."""
from __future__ import annotations

import ast

from .common import HEADER, Untranslatable, parse

FUNC = "split_template_path"
SEP = {"os.sep", "os.path.sep"}
ALT = {"os.altsep", "os.path.altsep"}
CONSTS = {"os.pardir": "..", "os.path.pardir": "..", "posixpath.pardir": "..", "ntpath.pardir": "..",
          "os.curdir": ".", "os.path.curdir": ".", "posixpath.curdir": ".", "ntpath.curdir": "."}


def dotted(node):
    parts = []
    while isinstance(node, ast.Attribute):
        parts.append(node.attr)
        node = node.value
    if isinstance(node, ast.Name):
        parts.append(node.id)
        return ".".join(reversed(parts))
    return None


def lchar(ch: str) -> str:
    o = ord(ch)
    if ch == "'":
        return "'\\''"
    if ch == "\\":
        return "'\\\\'"
    if 32 <= o < 127:
        return f"'{ch}'"
    if 0xD800 <= o <= 0xDFFF:
        raise Untranslatable("surrogate in a literal")
    return "'\\u{%x}'" % o


def lchars(s: str) -> str:
    return "[" + ", ".join(lchar(c) for c in s) + "]"


def lstring(s: str) -> str:
    out = []
    for ch in s:
        o = ord(ch)
        if ch in '"\\':
            out.append("\\" + ch)
        elif 32 <= o < 127:
            out.append(ch)
        elif 0xD800 <= o <= 0xDFFF:
            raise Untranslatable("surrogate in a literal")
        else:
            out.append("\\u{%x}" % o)
    return '"' + "".join(out) + '"'


def _const_arg(node) -> str:
    if isinstance(node, ast.Constant) and isinstance(node.value, (str, int, bool, bytes, type(None))):
        return repr(node.value)
    raise Untranslatable(f"argument is not a literal: {ast.dump(node)[:80]}")


class Tr:
    def __init__(self, fn: ast.FunctionDef):
        self.fn = fn
        self.param = None
        self.var = None      # loop variable
        self.cur = []        # expression currently bound to the loop variable (list of (fn, args))

    # -- expressions over the loop variable ---------------------------------------------------
    def is_ex(self, node) -> bool:
        try:
            self.ex(node)
            return True
        except Untranslatable:
            return False

    def ex(self, node):
        if isinstance(node, ast.Name) and node.id == self.var:
            return list(self.cur)
        if isinstance(node, ast.Call):
            kws = []
            for kw in node.keywords:
                if kw.arg is None:
                    raise Untranslatable("** argument")
                kws.append(f"{kw.arg}={_const_arg(kw.value)}")
            # method of the piece: piece.strip(), piece.replace("a", "b"), piece.encode().decode()
            if isinstance(node.func, ast.Attribute):
                try:
                    inner = self.ex(node.func.value)
                except Untranslatable:
                    inner = None
                if inner is not None:
                    return inner + [("." + node.func.attr, [_const_arg(a) for a in node.args] + kws)]
            name = dotted(node.func)
            if name is None:
                raise Untranslatable(f"call of {ast.dump(node.func)[:80]}")
            subs = [i for i, a in enumerate(node.args) if self.is_ex(a)]
            if len(subs) != 1:
                raise Untranslatable(f"{name}(...) is not a function of the piece alone")
            inner = self.ex(node.args[subs[0]])
            args = [("_" if i == subs[0] else _const_arg(a)) for i, a in enumerate(node.args)]
            return inner + [(name, args + kws)]
        if isinstance(node, ast.BinOp) and isinstance(node.op, (ast.Add, ast.Mod, ast.Mult)):
            op = type(node.op).__name__
            if self.is_ex(node.left) and not self.is_ex(node.right):
                return self.ex(node.left) + [("_" + op, [_const_arg(node.right)])]
            if self.is_ex(node.right) and not self.is_ex(node.left):
                return self.ex(node.right) + [(op + "_", [_const_arg(node.left)])]
            raise Untranslatable("binary operation on two pieces")
        if isinstance(node, ast.Subscript):
            inner = self.ex(node.value)
            sl = node.slice
            if isinstance(sl, ast.Slice):
                parts = [("None" if p is None else _const_arg(p)) for p in (sl.lower, sl.upper, sl.step)]
            else:
                parts = [_const_arg(sl)]
            return inner + [("_[]", parts)]
        raise Untranslatable(f"not an expression of the piece: {ast.dump(node)[:100]}")

    def lit(self, node):
        """a string the piece is compared with"""
        if isinstance(node, ast.Constant) and isinstance(node.value, str):
            return node.value
        d = dotted(node)
        if d in CONSTS:
            return CONSTS[d]
        return None

    # -- conditions ---------------------------------------------------------------------------
    def cond(self, node):
        if isinstance(node, ast.BoolOp):
            if isinstance(node.op, ast.And) and len(node.values) == 2 and dotted(node.values[0]) in ALT:
                c = node.values[1]
                if (isinstance(c, ast.Compare) and len(c.ops) == 1 and isinstance(c.ops[0], ast.In)
                        and dotted(c.left) in ALT):
                    return ("altIn", self.ex(c.comparators[0]))
                raise Untranslatable("os.path.altsep guard of something else")
            tag = "and" if isinstance(node.op, ast.And) else "or"
            parts = [self.cond(v) for v in node.values]
            out = parts[-1]
            for p in reversed(parts[:-1]):
                out = (tag, p, out)
            return out
        if isinstance(node, ast.UnaryOp) and isinstance(node.op, ast.Not):
            return ("not", self.cond(node.operand))
        if isinstance(node, ast.Compare):
            if len(node.ops) != 1:
                raise Untranslatable("chained comparison")
            op, left, right = node.ops[0], node.left, node.comparators[0]
            if isinstance(op, (ast.In, ast.NotIn)):
                if dotted(left) in SEP:
                    c = ("sepIn", self.ex(right))
                elif dotted(left) in ALT:
                    raise Untranslatable("os.path.altsep tested without the None guard")
                elif self.lit(left) is not None:
                    c = ("litIn", self.lit(left), self.ex(right))
                else:
                    raise Untranslatable(f"membership test of {ast.dump(left)[:80]}")
                return c if isinstance(op, ast.In) else ("not", c)
            if isinstance(op, (ast.Eq, ast.NotEq)):
                if self.lit(right) is not None:
                    c = ("eqLit", self.ex(left), self.lit(right))
                elif self.lit(left) is not None:
                    c = ("eqLit", self.ex(right), self.lit(left))
                else:
                    raise Untranslatable("comparison with something that is not a literal")
                return c if isinstance(op, ast.Eq) else ("not", c)
            raise Untranslatable(f"comparison {type(op).__name__}")
        return ("truthy", self.ex(node))

    # -- the function body --------------------------------------------------------------------
    def run(self):
        fn = self.fn
        a = fn.args
        if fn.decorator_list or a.posonlyargs or a.kwonlyargs or a.vararg or a.kwarg or a.defaults or len(a.args) != 1:
            raise Untranslatable(f"{FUNC}: signature/decorators changed")
        self.param = a.args[0].arg
        body = list(fn.body)
        if body and isinstance(body[0], ast.Expr) and isinstance(body[0].value, ast.Constant) \
                and isinstance(body[0].value.value, str):
            body = body[1:]
        if len(body) != 3:
            raise Untranslatable(f"{FUNC}: body is not `acc = []; for …; return acc` ({len(body)} statements)")
        init, loop, ret = body
        if not (isinstance(init, ast.Assign) and len(init.targets) == 1 and isinstance(init.targets[0], ast.Name)
                and isinstance(init.value, ast.List) and not init.value.elts):
            raise Untranslatable(f"{FUNC}: first statement is not `acc = []`")
        acc = init.targets[0].id
        if not (isinstance(ret, ast.Return) and isinstance(ret.value, ast.Name) and ret.value.id == acc):
            raise Untranslatable(f"{FUNC}: does not end with `return {acc}` (the result is transformed after the loop)")
        if not (isinstance(loop, ast.For) and not loop.orelse and isinstance(loop.target, ast.Name)):
            raise Untranslatable(f"{FUNC}: second statement is not a plain for loop")
        it = loop.iter
        if not (isinstance(it, ast.Call) and isinstance(it.func, ast.Attribute) and it.func.attr == "split"
                and isinstance(it.func.value, ast.Name) and it.func.value.id == self.param and not it.keywords
                and len(it.args) == 1 and isinstance(it.args[0], ast.Constant) and it.args[0].value == "/"):
            raise Untranslatable(f"{FUNC}: the loop is not over {self.param}.split('/') (the name is transformed first?)")
        self.var = loop.target.id
        if self.var in (acc, self.param):
            raise Untranslatable("loop variable shadows another name")
        stmts = list(loop.body)
        # re-bindings of the loop variable before the test
        while stmts and isinstance(stmts[0], ast.Assign):
            st = stmts.pop(0)
            if not (len(st.targets) == 1 and isinstance(st.targets[0], ast.Name) and st.targets[0].id == self.var):
                raise Untranslatable("assignment to something other than the loop variable")
            self.cur = self.ex(st.value)
        if len(stmts) == 1 and isinstance(stmts[0], ast.If) and len(stmts[0].orelse) == 1 \
                and isinstance(stmts[0].orelse[0], ast.If):
            rej, keep = stmts[0], stmts[0].orelse[0]
        elif len(stmts) == 2 and all(isinstance(s, ast.If) for s in stmts) and not stmts[0].orelse:
            rej, keep = stmts
        else:
            raise Untranslatable(f"{FUNC}: loop body is not `if …: raise … elif …: {acc}.append(…)`")
        if keep.orelse:
            raise Untranslatable(f"{FUNC}: the keeping branch has an else")
        r = rej.body
        if not (len(r) == 1 and isinstance(r[0], ast.Raise) and isinstance(r[0].exc, ast.Call)
                and dotted(r[0].exc.func) == "TemplateNotFound" and len(r[0].exc.args) >= 1
                and isinstance(r[0].exc.args[0], ast.Name) and r[0].exc.args[0].id == self.param):
            raise Untranslatable(f"{FUNC}: the refusing branch does not `raise TemplateNotFound({self.param})`")
        k = keep.body
        if not (len(k) == 1 and isinstance(k[0], ast.Expr) and isinstance(k[0].value, ast.Call)
                and dotted(k[0].value.func) == f"{acc}.append" and len(k[0].value.args) == 1
                and not k[0].value.keywords):
            raise Untranslatable(f"{FUNC}: the keeping branch is not a single `{acc}.append(…)`")
        return self.cond(rej.test), self.cond(keep.test), self.ex(k[0].value.args[0])


def _lean_ex(e) -> str:
    return "[" + ", ".join("{ fn := %s, args := [%s] }" % (lstring(f), ", ".join(lstring(a) for a in args))
                           for f, args in e) + "]"


def _lean_cond(c) -> str:
    t = c[0]
    if t in ("sepIn", "altIn", "truthy"):
        return f"(.{t} {_lean_ex(c[1])})"
    if t == "litIn":
        return f"(.litIn {lchars(c[1])} {_lean_ex(c[2])})"
    if t == "eqLit":
        return f"(.eqLit {_lean_ex(c[1])} {lchars(c[2])})"
    if t == "not":
        return f"(.not {_lean_cond(c[1])})"
    return f"(.{t} {_lean_cond(c[1])} {_lean_cond(c[2])})"


def read():
    tree = parse("loaders")
    defs = [n for n in tree.body if isinstance(n, (ast.FunctionDef, ast.AsyncFunctionDef)) and n.name == FUNC]
    if len(defs) != 1 or not isinstance(defs[0], ast.FunctionDef):
        raise Untranslatable(f"{FUNC}: expected exactly one module-level def, found {len(defs)}")
    for n in ast.walk(tree):
        # the name must not be re-bound anywhere (a wrapper installed after the def would not be read)
        if isinstance(n, ast.Name) and n.id == FUNC and isinstance(n.ctx, (ast.Store, ast.Del)):
            raise Untranslatable(f"{FUNC} is re-bound at line {n.lineno}")
        if isinstance(n, (ast.Import, ast.ImportFrom)):
            for al in n.names:
                if (al.asname or al.name) in (FUNC, "TemplateNotFound") and not (
                        isinstance(n, ast.ImportFrom) and n.module == "exceptions" and al.name == "TemplateNotFound"):
                    raise Untranslatable(f"{al.name} imported over at line {n.lineno}")
    return Tr(defs[0]).run()


def gen():
    reject, keep, store = read()
    return "SplitPath.lean", HEADER + f"""import JinjaV.Model.PathProg

namespace JinjaV.Gen.SplitPath
open JinjaV.Path

/-- `split_template_path` (loaders.py): the condition that raises TemplateNotFound, the condition under which a piece
    is appended, and the expression that is appended; `[]` is the raw piece of `template.split("/")` -/
def prog : SplitProg :=
  {{ reject := {_lean_cond(reject)},
    keep := {_lean_cond(keep)},
    store := {_lean_ex(store)} }}

end JinjaV.Gen.SplitPath
"""
