import JinjaV.Wire.All
