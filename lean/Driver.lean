/-
  jv-driver: line-protocol driver.  One request per line `(model arg…)`, one
  reply per line.  Imports models and specs only (no Mathlib, no proofs).
-/
import JinjaV.Wire.LRU
import JinjaV.Wire.Loop
import JinjaV.Wire.Stream
import JinjaV.Wire.Macro
import JinjaV.Wire.Sandbox
import JinjaV.Wire.Undefined
import JinjaV.Wire.Path
import JinjaV.Wire.Native
import JinjaV.Wire.FiltColl
import JinjaV.Wire.Lex
import JinjaV.Wire.Trim
import JinjaV.Wire.TplCache

open JinjaV

def dispatch (line : String) : Sx :=
  match Sx.parse line with
  | some (.list (.atom m :: args)) =>
    match m with
    | "ping" => Sx.ok (.list args)
    | "lru" => Wire.LRU.handle args
    | "lru-lin" => Wire.LRU.handleLin args
    | "loop" => Wire.Loop.handle args
    | "stream" => Wire.Stream.handle args
    | "macro" => Wire.Macro.handle args
    | "sbx" => Wire.Sandbox.handle args
    | "undef" => Wire.Undefined.handle args
    | "lex" => Wire.Lex.handle args
    | "trim" => Wire.Trim.handle args
    | "tplcache" => Wire.TplCache.handle args
    | "lex-plain" => Wire.Lex.handlePlain args
    | "filt" => Wire.FiltColl.handle args
    | "native" => Wire.Native.handle args
    | "path-split" => Wire.Path.handleSplit args
    | "path-join" => Wire.Path.handleJoin args
    | "path-choice" => Wire.Path.handleChoice args
    | "path-prefix" => Wire.Path.handlePrefix args
    | "sbx-unblocked" => Wire.Sandbox.handleUnblocked args
    | _ => Sx.bad
  | _ => Sx.bad

partial def loop (h : IO.FS.Stream) (out : IO.FS.Stream) : IO Unit := do
  let line ← h.getLine
  if line.isEmpty then return ()
  let l := String.ofList (line.toList.filter (fun c => c != '\n' && c != '\r'))
  out.putStrLn (dispatch l).render
  loop h out

def main : IO Unit := do
  let stdin ← IO.getStdin
  let stdout ← IO.getStdout
  loop stdin stdout
