/-
  jv-driver: line-protocol driver.  One request per line `(model arg…)`, one
  reply per line.  Imports models and specs only (no Mathlib, no proofs).
-/
import JinjaV.Wire.All

open JinjaV

def dispatch (line : String) : Sx :=
  match Sx.parse line with
  | some (.list (.atom m :: args)) =>
    if m == "ping" then Sx.ok (.list args)
    else match Wire.allHandlers.lookup m with
      | some h => h args
      | none => Sx.bad
  | _ => Sx.bad

partial def loop (h : IO.FS.Stream) (out : IO.FS.Stream) : IO Unit := do
  let line ← h.getLine
  if line.isEmpty then return ()
  let l := String.ofList (line.toList.filter (fun c => c != '\n' && c != '\r'))
  out.putStrLn (dispatch l).render
  loop h out

def main : IO Unit := do
  let stdin ← IO.getStdin
  let stdout ← IO.getStdout
  loop stdin stdout
