import JinjaV.Model.Sx
import JinjaV.Model.CtxState
import JinjaV.Model.CtxAudit
namespace JinjaV.Wire.CtxState
open JinjaV JinjaV.CtxState JinjaV.CtxAudit JinjaV.Gen.CtxWrites

def decPair : Sx → Option (String × Val)
  | .list [k, v] => do pure (← k.toStr?, ← v.toInt?)
  | _ => none

def decDict : Sx → Option AList
  | .list xs => Sx.mapM? decPair xs
  | _ => none

def decOptDict : Sx → Option (Option AList)
  | .atom "none" => some none
  | x => (decDict x).map some

def decLocal : Sx → Option (String × Option Val)
  | .list [k, .atom "missing"] => do pure (← k.toStr?, none)
  | .list [k, v] => do pure (← k.toStr?, some (← v.toInt?))
  | _ => none

def decLocals : Sx → Option (List (String × Option Val))
  | .list xs => Sx.mapM? decLocal xs
  | _ => none

def encDict (d : AList) : Sx := .list (d.map fun (k, v) => .list [.str k, Sx.ofInt v])

/-- name a dict object relative to the named inputs -/
def encRef (names : List (Nat × String)) (r : Nat) : Sx :=
  match names.lookup r with
  | some n => .atom n
  | none => .atom "fresh"

partial def decOp : Sx → Option Op
  | .list [.atom "set", k, v] => do pure (.set (← k.toStr?) (← v.toInt?))
  | .list [.atom "copy", k, s] => do pure (.copy (← k.toStr?) (← s.toStr?))
  | .list [.atom "out", k] => do pure (.out (← k.toStr?))
  | .list [.atom "scope", ls, .list body] => do pure (.scope (← decLocals ls) (← Sx.mapM? decOp body))
  | _ => none

def encOut : Option Val → Sx
  | some v => Sx.ofInt v
  | none => .atom "missing"

/-- `(c29 newctx vars shared globals locals)` → `(ok (parentIs parentContents varsAfter globalsAfter))`
    `(c29 getall vars parent)` → `(ok (which contents))`
    `(c29 derived vars parent locals)` → `(ok (parentIs parentContents varsAfter parentAfter))`
    `(c29 render vars globals (ops…))` → `(ok ((outputs…) varsAfter globalsAfter))`
    `(c29 audit)` → `(ok ((emitted offenders…) (store offenders…) nEmitted nStores))` -/
def handle : List Sx → Sx
  | [.atom "newctx", vars, shared, globals, locals] =>
    match decDict vars, shared.toBool?, decOptDict globals, decLocals locals with
    | some vars, some shared, some globals, some locals =>
      let (h, g) : Heap × Option Nat := match globals with
        | some g => (⟨[vars, g]⟩, some 1)
        | none => (⟨[vars]⟩, none)
      let (h', c) := newContext h 0 shared g locals
      let names := match g with | some _ => [(0, "vars"), (1, "globals")] | none => [(0, "vars")]
      Sx.ok (.list [encRef names c.parent, encDict (h'.get c.parent), encDict (h'.get 0),
                    match g with | some g => encDict (h'.get g) | none => .atom "none"])
    | _, _, _, _ => Sx.bad
  | [.atom "getall", vars, parent] =>
    match decDict vars, decDict parent with
    | some vars, some parent =>
      let h : Heap := ⟨[parent, vars]⟩
      let (h', r) := getAll h ⟨0, 1⟩
      Sx.ok (.list [encRef [(0, "parent"), (1, "vars")] r, encDict (h'.get r)])
    | _, _ => Sx.bad
  | [.atom "derived", vars, parent, locals] =>
    match decDict vars, decDict parent, decLocals locals with
    | some vars, some parent, some locals =>
      let h : Heap := ⟨[parent, vars]⟩
      let (h', c) := derived h ⟨0, 1⟩ locals
      Sx.ok (.list [encRef [(0, "parent"), (1, "vars")] c.parent, encDict (h'.get c.parent), encDict (h'.get 1), encDict (h'.get 0)])
    | _, _, _ => Sx.bad
  | [.atom "render", vars, globals, .list ops] =>
    match decDict vars, decDict globals, Sx.mapM? decOp ops with
    | some vars, some globals, some ops =>
      let (h', outs) := render ⟨[vars, globals]⟩ 0 1 ops
      Sx.ok (.list [.list (outs.map encOut), encDict (h'.get 0), encDict (h'.get 1)])
    | _, _, _ => Sx.bad
  | [.atom "audit"] =>
    Sx.ok (.list [
      .list (emittedOffenders.map fun e => .list [.str e.func, .str e.fragment, .str e.target, .str e.how, .atom (toString (repr e.cls))]),
      .list (storeOffenders.map fun s => .list [.str s.module, .str s.func, .str s.target, .str s.how, .atom (toString (repr s.cls))]),
      Sx.ofNat emitted.length, Sx.ofNat stores.length])
  | _ => Sx.bad

def handlers : List (String × (List Sx → Sx)) := [("c29", handle)]

end JinjaV.Wire.CtxState
