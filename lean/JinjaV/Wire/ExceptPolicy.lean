import JinjaV.Model.Sx
import JinjaV.Model.ExnFlow
namespace JinjaV.Wire.ExceptPolicy
open JinjaV JinjaV.Gen.ExceptSites JinjaV.ExceptPolicy JinjaV.ExnFlow

def strs? : Sx → Option (List String)
  | .list xs => Sx.mapM? Sx.toStr? xs
  | _ => none

/-- a frame on the wire: `(module func lineno genKind)` -/
def decFrame : Sx → Option (Frame × Nat)
  | .list [m, f, l, g] => do pure (⟨← m.toStr?, ← f.toStr?, ← g.toStr?⟩, ← l.toNat?)
  | _ => none

def encOutcome : Outcome → Sx
  | .same => .atom "same"
  | .signalHere => .atom "signalHere"
  | .signal => .atom "signal"

/-- the handlers of the source table whose guarded body contains the line the frame is executing, innermost try first -/
def activeSites (f : Frame) (line : Nat) : List Site :=
  let act := sites.filter fun s => s.module == f.module && s.func == f.func && s.bodyFrom ≤ line && line ≤ s.bodyTo
  -- narrower body = inner try; handlers of one try in source order
  (act.mergeSort fun a b => let wa := a.bodyTo - a.bodyFrom; let wb := b.bodyTo - b.bodyFrom; wa < wb || (wa == wb && a.idx ≤ b.idx))

/-- the construct tree seen from the raising hook: one event under the guards of every engine frame, innermost first -/
def treeOf (frames : List (Frame × Nat)) : Tree :=
  frames.foldl (fun t (f, line) => (activeSites f line).foldl (fun t s => .guard (keyOf s) t) t) .event

def encRes : Res → Sx
  | .done => .atom "swallowed"
  | .raised (.orig _) => .atom "same"
  | .raised (.translated _ _ _ target _) => .list [.atom "translated", .str target]

/-- `(c38-case hook (bases…) (frames…))` → `(ok (spec model guards))`.
    The model declines (`oom`) where Python itself consumes the exception (iterator protocol, hasattr, PEP 479). -/
def handleCase : List Sx → Sx
  | [hook, bases, .list frames] =>
    match hook.toStr?, strs? bases, Sx.mapM? decFrame frames with
    | some hook, some bases, some frames =>
      let stack := frames.map Prod.fst
      let t := treeOf frames
      let model : Sx :=
        if universalSignal stack hook bases then .atom "oom"
        else encRes (eval 0 ⟨0, bases⟩ t 0)
      Sx.ok (.list [encOutcome (expected stack hook bases), model,
                    .list (t.guards.map fun g => .str (g.module ++ "." ++ g.func ++ "#" ++ toString g.idx))])
    | _, _, _ => Sx.bad
  | _ => Sx.bad

def encSite (s : Site) : Sx :=
  .list [.str s.module, .str s.func, Sx.ofNat s.idx, Sx.ofNat s.line, .list (s.caught.map .str),
         .atom ((toString (repr s.kind)).replace "JinjaV.Gen.ExceptSites.HKind." ""), .list (s.ops.map .str)]

/-- `(c38-audit)` → the counterexample finders over the regenerated table:
    `(ok ((broad sites…) (policy sites…) (hooks sites…) (stale rows…) nSites nRenderTime))` -/
def handleAudit : List Sx → Sx
  | [] =>
    let tbl := documented
    Sx.ok (.list [
      .list (broadOffenders.map encSite),
      .list ((policyOffenders tbl).map encSite),
      .list ((hookRowsWithoutDataCall tbl).map encSite),
      .list ((staleRows tbl).map fun en => .str (en.module ++ "." ++ en.func ++ "#" ++ toString en.idx)),
      Sx.ofNat sites.length,
      Sx.ofNat (sites.filter renderTime).length,
      .list ((sites.filter fun s => renderTime s && !reraises s).map encSite)])
  | _ => Sx.bad

/-- `(c38-cache k)` → the module-cache state after rendering `{% import "lib" %}…one more event…` from an empty cache with
    the fault at event `k` (event 0 is inside the module body, event 1 after the import; any larger `k`: clean run):
    `(ok (completed (cached names…)))` -/
def handleCache : List Sx → Sx
  | [k] =>
    match k.toNat? with
    | some k =>
      let r := runSt (some k) (.seq (.imp "lib" .ev) .ev) 0 []
      Sx.ok (.list [Sx.ofBool r.1, .list (r.2.2.map .str)])
    | none => Sx.bad
  | _ => Sx.bad

def handlers : List (String × (List Sx → Sx)) :=
  [("c38-case", handleCase), ("c38-audit", handleAudit), ("c38-cache", handleCache)]

end JinjaV.Wire.ExceptPolicy
