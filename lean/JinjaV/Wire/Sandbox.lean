import JinjaV.Model.Sx
import JinjaV.Gen.Sandbox
namespace JinjaV.Wire.Sandbox
open JinjaV JinjaV.Gen.Sandbox

/-- `(sbx (class…) (flag…) attr)` or `(sbx (class…) (flag…) (subclass-of…) attr)` → `(ok (internal modifies safeAttr immutableSafeAttr safeCallable invoke))` -/
def handle : List Sx → Sx
  | [.list cs, .list fs, attr] =>
    match Sx.mapM? Sx.toStr? cs, Sx.mapM? Sx.toStr? fs, attr.toStr? with
    | some cs, some fs, some a =>
      let o : Obj := { classes := cs, flags := fs }
      Sx.ok (.list [Sx.ofBool (isInternalAttribute o a), Sx.ofBool (modifiesKnownMutable o a),
        Sx.ofBool (Sandboxed_is_safe_attribute o a), Sx.ofBool (Immutable_is_safe_attribute o a),
        Sx.ofBool (Sandboxed_is_safe_callable o), Sx.ofBool (Sandboxed_call o == .invoke)])
    | _, _, _ => Sx.bad
  | [.list cs, .list fs, .list subs, attr] =>
    match Sx.mapM? Sx.toStr? cs, Sx.mapM? Sx.toStr? fs, Sx.mapM? Sx.toStr? subs, attr.toStr? with
    | some cs, some fs, some subs, some a =>
      let o : Obj := { classes := cs, flags := fs, subclassOf := subs }
      Sx.ok (.list [Sx.ofBool (isInternalAttribute o a), Sx.ofBool (modifiesKnownMutable o a),
        Sx.ofBool (Sandboxed_is_safe_attribute o a), Sx.ofBool (Immutable_is_safe_attribute o a),
        Sx.ofBool (Sandboxed_is_safe_callable o), Sx.ofBool (Sandboxed_call o == .invoke)])
    | _, _, _, _ => Sx.bad
  | _ => Sx.bad

/-- `(sbx-unblocked)` → the (type, method) pairs that mutate but are admitted (counterexample finder) -/
def handleUnblocked : List Sx → Sx
  | _ => Sx.ok (.list ((unblockedMutators ++ unblockedClassMutators).map fun (t, m) => .list [.str t, .str m]))

/-- request names served by this module (collected into `JinjaV.Wire.All` by tools/gen_wire_all.py) -/
def handlers : List (String × (List Sx → Sx)) :=
  [("sbx", handle), ("sbx-unblocked", handleUnblocked)]

end JinjaV.Wire.Sandbox
