import JinjaV.Model.Sx
import JinjaV.Model.TplCache
namespace JinjaV.Wire.TplCache
open JinjaV JinjaV.TplCache

def decKV : Sx → Option (Nat × Nat)
  | .list [k, v] => do pure (← k.toNat?, ← v.toNat?)
  | _ => none

def decOp : Sx → Option Op
  | .list [.atom "get", n] => do pure (.get (← n.toNat?))
  | .list [.atom "select", .list ns] => (Sx.mapM? Sx.toNat? ns).map .select
  | .list [.atom "put", n, v] => do pure (.put (← n.toNat?) (← v.toNat?))
  | .list [.atom "delete", n] => do pure (.delete (← n.toNat?))
  | _ => none

def encRes : Option Res → Sx
  | some (.template v) => .list [.atom "template", Sx.ofNat v]
  | some .notFound => .atom "notFound"
  | none => .atom "none"

def runAll (ar : Bool) : Loader → St → List Op → List (Sx × Nat × Nat)
  | _, _, [] => []
  | ld, s, op :: ops =>
    let r := step ar ld s op
    (encRes r.2.2, cacheSize r.2.1.cache, r.2.1.loads) :: runAll ar r.1 r.2.1 ops

/-- `(tplcache autoReload size ((name version)…) (op…))` → `(ok ((result cacheSize loads)…))` -/
def handle : List Sx → Sx
  | [ar, size, .list ld, .list ops] =>
    match ar.toBool?, size.toInt?, Sx.mapM? decKV ld, Sx.mapM? decOp ops with
    | some ar, some size, some ld, some ops =>
      let s : St := { cache := initCache size, loads := 0 }
      Sx.ok (.list ((runAll ar ld s ops).map fun (r, c, l) => .list [r, Sx.ofNat c, Sx.ofNat l]))
    | _, _, _, _ => Sx.bad
  | _ => Sx.bad
/-- request names served by this module (collected into `JinjaV.Wire.All` by tools/gen_wire_all.py) -/
def handlers : List (String × (List Sx → Sx)) :=
  [("tplcache", handle)]

end JinjaV.Wire.TplCache
