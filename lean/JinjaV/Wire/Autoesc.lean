import JinjaV.Model.Sx
import JinjaV.Model.Autoesc
import JinjaV.Model.SelectAutoescape
import JinjaV.Model.AutoescRegion
namespace JinjaV.Wire.Autoesc
open JinjaV JinjaV.Escape JinjaV.HtmlFilt JinjaV.Autoesc

def S (l : List Char) : Sx := .str (String.ofList l)

partial def decTm : Sx → Option Tm
  | .list [.atom "lit", .str s] => some (.lit s.toList)
  | .list [.atom "var", i] => i.toNat?.map Tm.var
  | .list [.atom "cat", a, b] => do pure (.cat (← decTm a) (← decTm b))
  | .list [.atom "blk", a] => (decTm a).map Tm.blk
  | .list [.atom "text", .str s] => some (.text s.toList)
  | .list [.atom "emit", a] => (decTm a).map Tm.emit
  | .list [.atom "seq", a, b] => do pure (.seq (← decTm a) (← decTm b))
  | .list [.atom "bind", a, b] => do pure (.bind (← decTm a) (← decTm b))
  | .list [.atom "empty"] => some .empty
  | .list [.atom "esc", a] => (decTm a).map Tm.esc
  | .list [.atom "force", a] => (decTm a).map Tm.force
  | .list [.atom "add", a, b] => do pure (.add (← decTm a) (← decTm b))
  | .list [.atom "mod", a, b] => do pure (.mod (← decTm a) (← decTm b))
  | .list [.atom "join", d, a, b] => do pure (.join (← decTm d) (← decTm a) (← decTm b))
  | .list [.atom "replace", s, o, n] => do pure (.replace (← decTm s) (← decTm o) (← decTm n))
  | .list [.atom "indent", s, w] => do pure (.indent (← decTm s) (← decTm w))
  | .list [.atom "truncate", s, e, n] => do pure (.truncate (← decTm s) (← decTm e) (← n.toNat?))
  | _ => none

partial def decBody : Sx → Option AutoescRegion.Body
  | .list [.atom "data", .str s] => some (.data s.toList)
  | .list [.atom "text", .str s] => some (.text s.toList)
  | .list [.atom "seq", a, b] => do pure (.seq (← decBody a) (← decBody b))
  | .list [.atom "region", m, b] => do pure (.region (← m.toBool?) (← decBody b))
  | .list [.atom "block", b] => (decBody b).map AutoescRegion.Body.block
  | _ => none

def mfree (s : List Char) : Bool := s.all fun c => !isM c

/-- `(autoesc eval TERM ("data" …))` → `(ok on off neutral unescape(on) mfree(on))`; data are plain strings, innermost first -/
def handle : List Sx → Sx
  | [.atom "eval", t, .list ds] =>
    match decTm t, Sx.mapM? (fun x => x.toStr?.map String.toList) ds with
    | some t, some ds =>
      let on := outOn (fun l => [l]) t (ds.map Val.plain)
      let off := outOff t ds
      Sx.ok (.list [S on, S off, Sx.ofBool t.neutral, S (unescape on), Sx.ofBool (mfree on)])
    | _, _ => Sx.bad
  | [.atom "unescape", .str s] => Sx.ok (S (unescape s.toList))
  | [.atom "select", .list en, .list dis, dfs, dflt, name] =>
    let strs (xs : List Sx) := Sx.mapM? (fun x => x.toStr?.map String.toList) xs
    let asciiLower (s : List Char) : List Char := s.map Char.toLower
    let name? : Option (Option (List Char)) := match name with
      | .atom "none" => some none
      | .str s => some (some s.toList)
      | _ => none
    match strs en, strs dis, dfs.toBool?, dflt.toBool?, name? with
    | some en, some dis, some dfs, some dflt, some name =>
      Sx.ok (Sx.ofBool (JinjaV.SelectAutoescape.select asciiLower en dis dfs dflt name))
    | _, _, _, _, _ => Sx.bad
  | [.atom "region", tmode, b] =>
    match tmode.toBool?, decBody b with
    | some tm, some b =>
      Sx.ok (.list [S (AutoescRegion.render tm tm b), S (AutoescRegion.renderSpec tm b), Sx.ofBool (AutoescRegion.blocksAgree tm tm b)])
    | _, _ => Sx.bad
  | [.atom "mfree", .str s] => Sx.ok (Sx.ofBool (mfree s.toList))
  | [.atom "free", .str chars, .str s] => Sx.ok (Sx.ofBool (s.toList.all fun c => !chars.toList.contains c))
  | _ => Sx.bad

def handlers : List (String × (List Sx → Sx)) :=
  [("autoesc", handle)]

end JinjaV.Wire.Autoesc
