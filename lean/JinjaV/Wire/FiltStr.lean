import JinjaV.Model.Sx
import JinjaV.Model.FiltStr
namespace JinjaV.Wire.FiltStr
open JinjaV JinjaV.FiltStr JinjaV.Gen.ConvertTable

def decS (x : Sx) : Option Str := x.toStr?.map String.toList
def encS (s : Str) : Sx := .str (String.ofList s)

def encOpt : Option Str → Sx
  | some s => Sx.ok (encS s)
  | none => Sx.err "AssertionError"

def encConv : ConvOut → Sx
  | .value => .atom "value"
  | .default => .atom "default"
  | .raises c => .list [.atom "raises", .str c]

def encUnit : SizeUnit → Sx
  | .byte1 => .list [.atom "byte1"]
  | .bytes n => .list [.atom "bytes", Sx.ofInt n]
  | .pref i => .list [.atom "pref", Sx.ofNat i]

def isAsciiStr (s : Str) : Bool := s.all fun c => c.toNat < 128

/-- every (length, killwords, end, leeway) combination of a grid, in this nesting order -/
def truncGrid (s : Str) (lens : List Int) (ends : List Str) (lws : List Int) : Sx :=
  .list (lens.flatMap fun n => [false, true].flatMap fun kw => ends.flatMap fun e => lws.map fun lw =>
    match truncate s n kw e lw with
    | some r => encS r
    | none => .atom "assert")

def handle : List Sx → Sx
  | [.atom "truncate", s, n, kw, e, lw] =>
    match decS s, n.toInt?, kw.toBool?, decS e, lw.toInt? with
    | some s, some n, some kw, some e, some lw => encOpt (truncate s n kw e lw)
    | _, _, _, _, _ => Sx.bad
  | [.atom "truncate-grid", s, .list lens, .list ends, .list lws] =>
    match decS s, Sx.mapM? Sx.toInt? lens, Sx.mapM? decS ends, Sx.mapM? Sx.toInt? lws with
    | some s, some lens, some ends, some lws => Sx.ok (truncGrid s lens ends lws)
    | _, _, _, _ => Sx.bad
  | [.atom "indent", s, ind, first, blank] =>
    match decS s, decS ind, first.toBool?, blank.toBool? with
    | some s, some ind, some f, some b => Sx.ok (encS (indent s ind f b))
    | _, _, _, _ => Sx.bad
  | [.atom "indent-grid", s, .list inds] =>
    match decS s, Sx.mapM? decS inds with
    | some s, some inds => Sx.ok (.list (inds.flatMap fun ind => [false, true].flatMap fun f => [false, true].map fun b =>
        encS (indent s ind f b)))
    | _, _ => Sx.bad
  | [.atom "splitlines", s] =>
    match decS s with
    | some s => Sx.ok (.list ((splitlines s).map encS))
    | _ => Sx.bad
  | [.atom "center", s, w] =>
    match decS s, w.toInt? with
    | some s, some w => Sx.ok (encS (center s w))
    | _, _ => Sx.bad
  | [.atom "center-grid", s, .list ws] =>
    match decS s, Sx.mapM? Sx.toInt? ws with
    | some s, some ws => Sx.ok (.list (ws.map fun w => encS (center s w)))
    | _, _ => Sx.bad
  | [.atom "trim", s, chars] =>
    match decS s, chars with
    | some s, .atom "none" => Sx.ok (encS (trim s none))
    | some s, .str cs => Sx.ok (encS (trim s (some cs.toList)))
    | _, _ => Sx.bad
  | [.atom "trim-grid", s, .list charsets] =>
    match decS s, Sx.mapM? decS charsets with
    | some s, some cs => Sx.ok (.list (encS (trim s none) :: cs.map fun c => encS (trim s (some c))))
    | _, _ => Sx.bad
  | [.atom "replace", s, old, new, count] =>
    match decS s, decS old, decS new, count.toInt? with
    | some s, some o, some n, some c => Sx.ok (encS (replace s o n c))
    | _, _, _, _ => Sx.bad
  | [.atom "replace-grid", s, .list olds, .list news, .list counts] =>
    match decS s, Sx.mapM? decS olds, Sx.mapM? decS news, Sx.mapM? Sx.toInt? counts with
    | some s, some os, some ns, some cs => Sx.ok (.list (os.flatMap fun o => ns.flatMap fun n => cs.map fun c =>
        encS (replace s o n c)))
    | _, _, _, _ => Sx.bad
  | [.atom "wordcount", s] =>
    match decS s with
    | some s => if isAsciiStr s then Sx.ok (Sx.ofNat (wordcount s)) else Sx.oom
    | _ => Sx.bad
  | [.atom "filesize", num, den, binary] =>
    match num.toInt?, den.toNat?, binary.toBool? with
    | some n, some d, some b => if d = 0 then Sx.oom else Sx.ok (encUnit (sizeUnit n d b))
    | _, _, _ => Sx.bad
  | [.atom "wordwrap", s, ws, width, .list table] =>
    -- `table`: textwrap.wrap's actual output for every paragraph of `s` (the model's parameter), as (line segs) pairs
    let decRow : Sx → Option (Str × List Str) := fun
      | .list [l, .list segs] => do pure (← decS l, ← Sx.mapM? decS segs)
      | _ => none
    match decS s, decS ws, width.toNat?, Sx.mapM? decRow table with
    | some s, some ws, some width, some table =>
      let wrap : Str → List Str := fun line => ((table.find? fun r => r.1 == line).map Prod.snd).getD []
      if (splitlines s).all fun line => table.any fun r => r.1 == line then
        Sx.ok (.list [encS (wordwrap wrap ws s),
          Sx.ofBool (table.all fun r => nonws r.2.flatten == nonws r.1),
          Sx.ofBool (table.all fun r => r.2.all fun l => l.length ≤ width)])
      else Sx.oom
    | _, _, _, _ => Sx.bad
  | [.atom "striptags", s] =>
    match decS s with
    | some s => if s.contains '&' then Sx.oom else Sx.ok (encS (striptags s))
    | _ => Sx.bad
  | [.atom "format", fmt, .list args] =>
    let decArg : Sx → Option FmtArg := fun
      | .list [s, .atom "none"] => do pure ⟨← decS s, none⟩
      | .list [s, d] => do pure ⟨← decS s, some (← decS d)⟩
      | _ => none
    match decS fmt, Sx.mapM? decArg args with
    | some fmt, some args =>
      match format fmt args with
      | .ok out => Sx.ok (encS out)
      | .typeError => Sx.err "TypeError"
      | .valueError => Sx.err "ValueError"
      | .oom => Sx.oom
    | _, _ => Sx.bad
  | [.atom "suspect-workers"] =>
    Sx.ok (.list (suspectWorkers.map fun w => .list [.str w.module, .str w.name, Sx.ofStrs w.decorators, Sx.ofStrs w.filters]))
  | [.atom "convtable"] =>
    Sx.ok (.list (rows.map fun r => .list [.str r.name, Sx.ofInt r.base,
      encConv (intOut r), encConv (floatOut r)]))
  | [.atom "conv-escapes"] =>
    Sx.ok (.list (escapingRows.map fun (f, n, b, c) => .list [.str f, .str n, Sx.ofInt b, .str c]))
  | [.atom "spaces", lim] =>
    match lim.toNat? with
    | some lim => Sx.ok (.list [Sx.ofNats ((List.range lim).filter fun n => isPySpace (Char.ofNat n)),
                               Sx.ofNats ((List.range lim).filter fun n => isBreak (Char.ofNat n))])
    | _ => Sx.bad
  | _ => Sx.bad

/-- request names served by this module (collected into `JinjaV.Wire.All` by tools/gen_wire_all.py) -/
def handlers : List (String × (List Sx → Sx)) :=
  [("fs", handle)]

end JinjaV.Wire.FiltStr
