import JinjaV.Model.Sx
import JinjaV.Model.Precompiled
/-!
  Wire for Model/Precompiled.lean (C31).

  (c31-headers defer async ("block" …))                 header lines of the indentation-0 defs the generator emits
  (c31-filename "name" "sha1-hex-of-name")               module file name
  (c31-load (("name" "sha1hex" compiles?) …) "query" "sha1hex-of-query")
        the store `compile_templates` produces for the listed templates, then `ModuleLoader.load(query)`:
        (template "name-whose-code-it-is") | (notfound)
-/
namespace JinjaV.Wire.Precompiled
open JinjaV JinjaV.Precompiled

def handleHeaders : List Sx → Sx
  | [d, a, .list bs] =>
    match d.toBool?, a.toBool?, Sx.mapM? Sx.toStr? bs with
    | some d, some a, some bs =>
      let t : Tpl := { isAsync := a, runtimeNames := [], aliasImports := [], nameRepr := "", rootBody := [],
                       blocks := bs.map fun b => (b, []), debugRepr := "" }
      Sx.ok (Sx.ofStrs (headers (emit d t)))
    | _, _, _ => Sx.bad
  | _ => Sx.bad

def handleFilename : List Sx → Sx
  | [n, h] =>
    match n.toStr?, h.toStr? with
    | some n, some h => Sx.ok (.str (moduleFilename (fun _ => h) n))
    | _, _ => Sx.bad
  | _ => Sx.bad

def decEntry : Sx → Option (String × String × Bool)
  | .list [n, h, ok] => do pure (← n.toStr?, ← h.toStr?, ← ok.toBool?)
  | _ => none

def handleLoad : List Sx → Sx
  | [.list es, q, qh] =>
    match Sx.mapM? decEntry es, q.toStr?, qh.toStr? with
    | some es, some q, some qh =>
      let sha1 : String → String := fun n =>
        if n = q then qh else match es.find? (fun e => e.1 = n) with
          | some e => e.2.1
          | none => "?" ++ n
      let compile : String → Compiled String := fun n =>
        match es.find? (fun e => e.1 = n) with
        | some e => if e.2.2 then .ok n else .error "syntax"
        | none => .error "unknown"
      match moduleLoad sha1 (compileTemplates sha1 compile (es.map (·.1))) q with
      | .template c => Sx.ok (.list [.atom "template", .str c])
      | .notFound _ => Sx.ok (.list [.atom "notfound"])
      | .syntaxError _ => Sx.ok (.list [.atom "syntaxerror"])
    | _, _, _ => Sx.bad
  | _ => Sx.bad

def handlers : List (String × (List Sx → Sx)) :=
  [("c31-headers", handleHeaders), ("c31-filename", handleFilename), ("c31-load", handleLoad)]

end JinjaV.Wire.Precompiled
