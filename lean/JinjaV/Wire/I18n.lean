import JinjaV.Model.Sx
import JinjaV.Model.I18n
import JinjaV.Spec.I18n
/-
  Wire for M-I18n.  Requests (after the request name):
    i18n-parse   newstyle policyTrimmed BLOCK                 → (ok NODE) | (err kind)
    i18n-render  newstyle policyTrimmed autoescape tr BLOCK SIGMA → (ok MODEL ORACLE (log func strings…)) | (err kind)
    i18n-trim    "text"                                       → (ok "text")
    i18n-format  "fmt" ((key "value")…)                       → (ok "text") | (err keyError) | (oom)
    i18n-extract newstyle policyTrimmed (fn…) (TNODE…)        → (ok (extracted…) (recorded…)) | (err kind)
    i18n-covered (extracted…) (recorded…)                     → (ok (uncovered recorded…))
  BLOCK  = (ctx|none  ((name assigned)…)  (PIECE…)  none|((name|none) (PIECE…)))
  PIECE  = (d "text") | (v "name")
  SIGMA  = ((name (s "text" safe)) | (name (i n)) …)     names not listed are undefined
  TNODE  = (data "t") | (call "func" (ARG…) nkw) | (trans BLOCK) ;  ARG = (s "text") | dyn
-/
namespace JinjaV.Wire.I18n
open JinjaV JinjaV.I18n

def txt (s : Sx) : Option Text := s.toStr?.map String.toList
def enc (t : Text) : Sx := .str (String.ofList t)
def encOpt : Option Text → Sx
  | some t => enc t
  | none => .atom "none"
def encTexts (l : List Text) : Sx := .list (l.map enc)

def decPiece : Sx → Option Piece
  | .list [.atom "d", t] => (txt t).map Piece.data
  | .list [.atom "v", t] => (txt t).map Piece.var
  | _ => none

def decBody : Sx → Option Body
  | .list ps => Sx.mapM? decPiece ps
  | _ => none

def decOptText : Sx → Option (Option Text)
  | .atom "none" => some none
  | s => (txt s).map some

def decHeaderItem : Sx → Option (Text × Bool)
  | .list [n, a] => do pure (← txt n, ← a.toBool?)
  | _ => none

def decBlock : Sx → Option Block
  | .list [ctx, .list hdr, sing, plural] => do
    let ctx ← decOptText ctx
    let hdr ← Sx.mapM? decHeaderItem hdr
    let sing ← decBody sing
    let plural ← match plural with
      | .atom "none" => some none
      | .list [pn, pb] => do pure (some (← decOptText pn, ← decBody pb))
      | _ => none
    pure { ctx := ctx, header := hdr, singular := sing, plural := plural }
  | _ => none

def decVal : Sx → Option Val
  | .list [.atom "s", t, safe] => do pure (Val.str (← txt t) (← safe.toBool?))
  | .list [.atom "i", n] => n.toInt?.map Val.int
  | _ => none

def decSigma : Sx → Option (List (Text × Val))
  | .list es => Sx.mapM? (fun e => match e with
      | .list [n, v] => do pure (← txt n, ← decVal v)
      | _ => none) es
  | _ => none

def sigmaFn (m : List (Text × Val)) (k : Text) : Val :=
  match m.find? (fun e => e.1 == k) with
  | some e => e.2
  | none => Val.undefined

def encParseErr : ParseErr → Sx
  | .definedTwice _ => Sx.err "definedTwice"
  | .unknownPluralVar _ => Sx.err "unknownPluralVar"
  | .pluralizeWithoutVariables => Sx.err "pluralizeWithoutVariables"

def encFmtErr : FmtErr → Sx
  | .keyError _ => Sx.err "keyError"
  | .unsupported => Sx.err "unsupported"

def encNode (n : Node) : Sx :=
  .list [enc n.func.name, encOpt n.ctx, enc n.singular, encOpt n.plural, encOpt n.countKey,
         encTexts n.keys, encTexts n.kwargs,
         match n.modKeys with | some ks => encTexts ks | none => .atom "none"]

def encRecorded (r : Recorded) : Sx := .list (enc r.func :: r.strings.map enc)

def handleParse : List Sx → Sx
  | [ns, pt, blk] =>
    match ns.toBool?, pt.toBool?, decBlock blk with
    | some ns, some pt, some b =>
      match parseTrans ⟨ns, pt⟩ b with
      | .ok n => Sx.ok (encNode n)
      | .error e => encParseErr e
    | _, _, _ => Sx.bad
  | _ => Sx.bad

def encExcept : Except FmtErr Text → Sx
  | .ok t => Sx.ok (enc t)
  | .error e => encFmtErr e

/-- model output, spec oracle (`Spec.expected`: the source text, trimmed at the level of source symbols when
    trimming applies, the form chosen by the count, variables substituted), and the recorded call -/
def handleRender : List Sx → Sx
  | [ns, pt, ae, tr, blk, sg] =>
    match ns.toBool?, pt.toBool?, ae.toBool?, decBlock blk, decSigma sg with
    | some ns, some pt, some ae, some b, some sg =>
      let tr := match tr with | .atom "mark" => markTr | _ => identityTr
      match parseTrans ⟨ns, pt⟩ b with
      | .error e => encParseErr e
      | .ok n =>
        let σ := sigmaFn sg
        Sx.ok (.list [encExcept (renderNode ae tr σ n),
                      enc (Spec.I18n.expected pt ae σ b),
                      encRecorded n.recorded])
    | _, _, _, _, _ => Sx.bad
  | _ => Sx.bad

def handleTrim : List Sx → Sx
  | [t] => match txt t with
    | some t => Sx.ok (enc (trimWhitespace t))
    | none => Sx.bad
  | _ => Sx.bad

def handleFormat : List Sx → Sx
  | [f, .list m] =>
    match txt f, Sx.mapM? (fun e => match e with
        | .list [k, v] => do pure (← txt k, ← txt v)
        | _ => none) m with
    | some f, some m =>
      match pyPercentFormat (lookupIn m) f with
      | .ok t => Sx.ok (enc t)
      | .error (.keyError _) => Sx.err "keyError"
      | .error .unsupported => Sx.oom
    | _, _ => Sx.bad
  | _ => Sx.bad

def decArg : Sx → Option Arg
  | .list [.atom "s", t] => (txt t).map Arg.str
  | .atom "dyn" => some Arg.dyn
  | _ => none

def decTNode : Sx → Option TNode
  | .list [.atom "data", t] => (txt t).map TNode.data
  | .list [.atom "call", f, .list args, nkw] => do
    pure (TNode.call { func := ← txt f, args := ← Sx.mapM? decArg args, nkw := ← nkw.toNat? })
  | .list [.atom "trans", b] => (decBlock b).map TNode.trans
  | _ => none

def handleExtract : List Sx → Sx
  | [ns, pt, .list fns, .list nodes] =>
    match ns.toBool?, pt.toBool?, Sx.mapM? txt fns, Sx.mapM? decTNode nodes with
    | some ns, some pt, some fns, some nodes =>
      match callsOf ⟨ns, pt⟩ nodes with
      | .error e => encParseErr e
      | .ok calls =>
        Sx.ok (.list [
          .list ((extractFromAst fns calls).map fun e => .list (enc e.func :: e.strings.map encOpt)),
          .list (calls.map fun c => encRecorded c.recorded)])
    | _, _, _, _ => Sx.bad
  | _ => Sx.bad

/-- `i18n-covered ((func str|none …)…) ((func str…)…)` → the recorded calls not covered by the extracted entries -/
def handleCovered : List Sx → Sx
  | [.list ex, .list rec] =>
    let decEx := fun (e : Sx) => match e with
      | .list (f :: ss) => do pure ({ func := ← txt f, strings := ← Sx.mapM? decOptText ss } : Extracted)
      | _ => none
    let decRec := fun (e : Sx) => match e with
      | .list (f :: ss) => do pure ({ func := ← txt f, strings := ← Sx.mapM? txt ss } : Recorded)
      | _ => none
    match Sx.mapM? decEx ex, Sx.mapM? decRec rec with
    | some ex, some rec => Sx.ok (.list ((rec.filter fun r => !Spec.I18n.covered ex r).map encRecorded))
    | _, _ => Sx.bad
  | _ => Sx.bad

/-- request names served by this module (collected into `JinjaV.Wire.All` by tools/gen_wire_all.py) -/
def handlers : List (String × (List Sx → Sx)) :=
  [("i18n-parse", handleParse), ("i18n-render", handleRender), ("i18n-trim", handleTrim),
   ("i18n-format", handleFormat), ("i18n-extract", handleExtract), ("i18n-covered", handleCovered)]

end JinjaV.Wire.I18n
