import JinjaV.Model.Sx
import JinjaV.Model.Stmt
import JinjaV.Spec.StmtSyntax
import JinjaV.Wire.Expr
namespace JinjaV.Wire.Stmt
open JinjaV JinjaV.Expr JinjaV.Stmt

open JinjaV.Wire.Expr (decExpr decVal decVars encErr)

mutual
partial def decStmt : Sx → Option Stmt
  | .list [.atom "text", .str s] => some (.text s)
  | .list [.atom "out", e] => (decExpr e).map .out
  | .list [.atom "if", .list branches, .list els] => do
    let bs ← Sx.mapM? (fun b => match b with
      | .list [c, .list body] => do pure ((← decExpr c), (← decStmts body))
      | _ => none) branches
    pure (.ifs bs (← decStmts els))
  | .list [.atom "for", .str target, iter, filt, .list body, .list els] => do
    let f ← match filt with
      | .atom "_" => some none
      | x => (decExpr x).map some
    pure (.for_ target (← decExpr iter) f (← decStmts body) (← decStmts els))
  | .list [.atom "set", .str n, e] => do pure (.set n (← decExpr e))
  | .list [.atom "setblock", .str n, .list body] => do pure (.setBlock n (← decStmts body))
  | .list [.atom "with", .list binds, .list body] => do
    pure (.with_ (← decBinds binds) (← decStmts body))
  | .list [.atom "macro", .str n, .list params, .list body] => do
    let ps ← Sx.mapM? (fun p => match p with
      | .list [.str x] => some (x, none)
      | .list [.str x, d] => (decExpr d).map (fun d => (x, some d))
      | _ => none) params
    pure (.macro n ps (← decStmts body))
  | .list [.atom "callmacro", .str n, .list args] => do pure (.callMacro n (← Sx.mapM? decExpr args))
  | .list [.atom "callblock", .str n, .list args, .list body] => do
    pure (.callBlock n (← Sx.mapM? decExpr args) (← decStmts body))
  | .list [.atom "caller"] => some .callerOut
  | .list [.atom "filterblock", .str f, .list body] => do pure (.filterBlock f (← decStmts body))
  | .list [.atom "nsnew", .str n, .list inits] => do pure (.nsNew n (← decBinds inits))
  | .list [.atom "nsset", .str ns, .str attr, e] => do pure (.nsSet ns attr (← decExpr e))
  | .list [.atom "break"] => some .break_
  | .list [.atom "continue"] => some .continue_
  | _ => none
partial def decStmts (xs : List Sx) : Option (List Stmt) := Sx.mapM? decStmt xs
partial def decBinds (xs : List Sx) : Option (List (String × Expr)) :=
  Sx.mapM? (fun b => match b with
    | .list [.str n, e] => (decExpr e).map (fun e => (n, e))
    | _ => none) xs
end

/-- (stmt-run fuel (vars…) (stmts…)) → (ok "text" quirk) | (err kind quirk) -/
def handleRun : List Sx → Sx
  | [fuel, .list vars, .list body] =>
    match fuel.toNat?, decVars vars, decStmts body with
    | some fuel, some vars, some body =>
      (match render fuel vars body with
       | .ok (out, quirk) => .list [.atom "ok", .str out, Sx.ofBool quirk]
       | .error (e, quirk) => .list [.atom "err", encErr e, Sx.ofBool quirk])
    | _, _, _ => Sx.bad
  | _ => Sx.bad

/-- (stmt-show (stmts…)) → (ok "template source") -/
def handleShow : List Sx → Sx
  | [.list body] =>
    match decStmts body with
    | some body => Sx.ok (.str (StmtSyntax.show_ 200 body))
    | none => Sx.bad
  | _ => Sx.bad

def handlers : List (String × (List Sx → Sx)) :=
  [("stmt-run", handleRun), ("stmt-show", handleShow)]

end JinjaV.Wire.Stmt
