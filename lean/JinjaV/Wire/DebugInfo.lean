import JinjaV.Model.Sx
import JinjaV.Model.DebugInfo
namespace JinjaV.Wire.DebugInfo
open JinjaV JinjaV.DebugInfo

def decOp : Sx → Option Op
  | .list [.atom "w", .str s] => some (.write s.toList)
  | .list [.atom "n", .atom "none", e] => do pure (.newline none (← e.toNat?))
  | .list [.atom "n", ln, e] => do pure (.newline (some (← ln.toNat?)) (← e.toNat?))
  | .list [.atom "i"] => some .indent
  | .list [.atom "o", k] => do pure (.outdent (← k.toNat?))
  | _ => none

def decPair : Sx → Option (Nat × Nat)
  | .list [a, b] => do pure (← a.toNat?, ← b.toNat?)
  | _ => none

def encTable (t : List (Nat × Nat)) : Sx := .list (t.map fun (a, b) => .list [Sx.ofNat a, Sx.ofNat b])

/-- `(dbg-run (op…) maxl)` → `(ok code_lineno ((tl cl)…) "debug_info string" "stream" (line for ℓ = 0…maxl) pending)` -/
def handleRun : List Sx → Sx
  | [.list ops, maxl] =>
    match Sx.mapM? decOp ops, maxl.toNat? with
    | some ops, some maxl =>
      let g := run init ops
      .list [.atom "ok", Sx.ofNat g.codeLineno, encTable g.debugInfo, .str (String.ofList (encode g.debugInfo)),
             .str (String.ofList g.stream),
             Sx.ofNats ((List.range (maxl + 1)).map (correspondingLineno g.debugInfo)),
             match g.writeDebugInfo with | some w => Sx.ofNat w | none => .atom "none"]
    | _, _ => Sx.oom
  | _ => Sx.bad

/-- `(dbg-corr "debug_info string" (ℓ…))` → `(ok ((tl cl)…) (line…))` | `(oom)` when the string is not `a=b&…` in digits -/
def handleCorr : List Sx → Sx
  | [.str s, .list ls] =>
    match decode s.toList, Sx.mapM? Sx.toNat? ls with
    | some t, some ls => .list [.atom "ok", encTable t, Sx.ofNats (ls.map (correspondingLineno t))]
    | _, _ => Sx.oom
  | _ => Sx.bad

/-- `(dbg-encode ((tl cl)…))` → `(ok "string")` -/
def handleEncode : List Sx → Sx
  | [.list ps] =>
    match Sx.mapM? decPair ps with
    | some t => Sx.ok (.str (String.ofList (encode t)))
    | none => Sx.bad
  | _ => Sx.bad

/-- request names served by this module (collected into `JinjaV.Wire.All` by tools/gen_wire_all.py) -/
def handlers : List (String × (List Sx → Sx)) :=
  [("dbg-run", handleRun), ("dbg-corr", handleCorr), ("dbg-encode", handleEncode)]

end JinjaV.Wire.DebugInfo
