/- wire codec: LoopContext model and loop specification -/
import JinjaV.Model.Sx
import JinjaV.Model.Loop
import JinjaV.Spec.Loop

namespace JinjaV.Wire.Loop
open JinjaV JinjaV.Loop

def decOp : Sx → Option Op
  | .atom "next" => some .next
  | .atom "length" => some .length
  | .atom "revindex" => some .revindex
  | .atom "revindex0" => some .revindex0
  | .atom "first" => some .first
  | .atom "last" => some .last
  | .atom "previtem" => some .previtem
  | .atom "nextitem" => some .nextitem
  | .atom "index" => some .index
  | .atom "index0" => some .index0
  | .atom "depth" => some .depth
  | .atom "depth0" => some .depth0
  | .list (.atom "cycle" :: args) => (Sx.mapM? Sx.toInt? args).map .cycle
  | .list (.atom "changed" :: args) => (Sx.mapM? Sx.toInt? args).map .changed
  | _ => none

def encOut : Out → Sx
  | .item v => .list [.atom "item", Sx.ofInt v]
  | .stop => .atom "stop"
  | .int i => .list [.atom "int", Sx.ofInt i]
  | .bool b => .list [.atom "bool", Sx.ofBool b]
  | .val v => .list [.atom "val", Sx.ofInt v]
  | .undef => .atom "undef"
  | .missing => .atom "missing"
  | .typeError => .atom "typeError"

/-- `(loop sized depth0 (x…) (op…))` → `(ok ((model-out…) (spec-out…)))` -/
def handle : List Sx → Sx
  | [sized, d, .list xs, .list ops] =>
    match sized.toBool?, d.toNat?, Sx.mapM? Sx.toInt? xs, Sx.mapM? decOp ops with
    | some sized, some d, some xs, some ops =>
      let outs := (Loop.run (Loop.init xs sized d) ops).2
      let souts := (SpecLoop.run (SpecLoop.init xs d) ops).2
      Sx.ok (.list [.list (outs.map encOut), .list (souts.map encOut)])
    | _, _, _, _ => Sx.bad
  | _ => Sx.bad

/-- request names served by this module (collected into `JinjaV.Wire.All` by tools/gen_wire_all.py) -/
def handlers : List (String × (List Sx → Sx)) :=
  [("loop", handle)]

end JinjaV.Wire.Loop
