import JinjaV.Model.Sx
import JinjaV.Model.ParseShape
import JinjaV.Model.FailAllow
namespace JinjaV.Wire.ParseShape
open JinjaV JinjaV.ParseShape

def decKind : Sx → Option PK
  | .atom "data" => some .data
  | .atom "variable_begin" => some .variableBegin
  | .atom "variable_end" => some .variableEnd
  | .atom "block_begin" => some .blockBegin
  | .atom "block_end" => some .blockEnd
  | .atom "name" => some .name
  | .atom "colon" => some .colon
  | .atom _ => some .other
  | _ => none

/-- `(c01-shape (type…))` → `(ok true|false)`: is the list of token types (as the parser sees them) a word of
    `(data | variable_begin t* variable_end | block_begin t* block_end)*`, possibly cut short -/
def handleShape : List Sx → Sx
  | [.list ks] =>
    match Sx.mapM? decKind ks with
    | some ks => Sx.ok (Sx.ofBool (shapeOk ks))
    | none => Sx.bad
  | _ => Sx.bad

/-- `(c01-unlisted)` → `(ok ((file func cls idx)…) ((file func idx)…))`: raise / assert sites of the regenerated
    inventory that are neither syntax errors, control flow, nor on the allow-list -/
def handleUnlisted : List Sx → Sx
  | [] =>
    Sx.ok (.list [
      .list (C01.unlisted.map fun s => .list [.str s.file, .str s.func, .str s.cls, Sx.ofNat s.idx]),
      .list (C01.unlistedAsserts.map fun s => .list [.str s.file, .str s.func, Sx.ofNat s.idx])])
  | _ => Sx.bad

/-- request names served by this module (collected into `JinjaV.Wire.All` by tools/gen_wire_all.py) -/
def handlers : List (String × (List Sx → Sx)) :=
  [("c01-shape", handleShape), ("c01-unlisted", handleUnlisted)]

end JinjaV.Wire.ParseShape
