import JinjaV.Model.Sx
import JinjaV.Model.Scope
/-
  Wire for M-Scope (C32).  The harness sends the *real* `Environment.parse` AST (statements with their fields in
  `nodes.<Node>.fields` order, expressions as generic trees); expressions are flattened here to the `Name(ctx=load)`
  nodes in visiting order.

    (scope-analyze (globals "g" …) (stmt …))  →  (ok (sites n…) (undeclared n…) (root n…) (referenced r…) (refok b) (runs (n…) (n…) (n…)))
      r ::= (some "name") | none
-/
namespace JinjaV.Wire.Scope
open JinjaV JinjaV.Scope

/-- loaded names of a generic expression tree `(Name "x" load)` / `(Node child …)` in depth-first field order -/
partial def flat : Sx → List Name
  | .list [.atom "Name", .str n, .atom "load"] => [n]
  | .list (.atom _ :: xs) => xs.flatMap flat
  | _ => []

def flatL (xs : List Sx) : List Name := xs.flatMap flat

def decNames (xs : List Sx) : Option (List Name) := Sx.mapM? Sx.toStr? xs

def decTgt : Sx → Option Tgt
  | .list [.atom "store", .str n] => some (.store n)
  | .list [.atom "nsref", .str n] => some (.nsref n)
  | _ => none

def decItem : Sx → Option TItem
  | .list [.atom "str", .str s] => some (.str s)
  | .atom "other" => some .other
  | .atom "dyn" => some .dyn
  | _ => none

def decTExpr : Sx → Option TExpr
  | .list [.atom "constStr", .str s] => some (.constStr s)
  | .list (.atom "constSeq" :: xs) => (Sx.mapM? decItem xs).map .constSeq
  | .list [.atom "constOther"] => some .constOther
  | .list (.atom "seq" :: xs) => (Sx.mapM? decItem xs).map .seq
  | .list [.atom "dyn"] => some .dyn
  | _ => none

def decKind : Sx → Option RefKind
  | .atom "Extends" => some .extends_
  | .atom "Include" => some .include_
  | .atom "Import" => some .import_
  | .atom "FromImport" => some .fromImport
  | _ => none

mutual
partial def decStmt : Sx → Option Stmt
  | .list (.atom "Output" :: es) => some (.output (flatL es))
  | .list [.atom "If", t, .list b, .list ei, .list el] => do
    pure (.ite (flat t) (← decStmts b) (← decStmts ei) (← decStmts el))
  | .list [.atom "For", .list tg, it, .list b, .list el, test, rc] => do
    let test := match test with | .atom "none" => none | t => some (flat t)
    pure (.for_ (← decNames tg) (flat it) (← decStmts b) (← decStmts el) test (← rc.toBool?))
  | .list [.atom "Assign", .list ts, e] => do pure (.assign (← Sx.mapM? decTgt ts) (flat e))
  | .list [.atom "AssignBlock", t, f, .list b] => do pure (.assignBlock (← decTgt t) (flat f) (← decStmts b))
  | .list [.atom "With", .list tg, .list vs, .list b] => do pure (.with_ (← decNames tg) (flatL vs) (← decStmts b))
  | .list [.atom "Macro", .str n, .list args, .list ds, .list b] => do
    pure (.macro_ n (← decNames args) (flatL ds) (← decStmts b))
  | .list [.atom "CallBlock", c, .list args, .list ds, .list b] => do
    pure (.callBlock (flat c) (← decNames args) (flatL ds) (← decStmts b))
  | .list [.atom "FilterBlock", f, .list b] => do pure (.filterBlock (flat f) (← decStmts b))
  | .list [.atom "Block", .str n, sc, .list b] => do pure (.block n (← sc.toBool?) (← decStmts b))
  | .list [.atom "Ref", k, t, e, .list binds] => do pure (.ref (← decKind k) (← decTExpr t) (flat e) (← decNames binds))
  | .list [.atom "Scope", .list b] => do pure (.scope (← decStmts b))
  | .list [.atom "EvalCtx", .list os, .list b] => do pure (.evalctx (flatL os) (← decStmts b))
  | _ => none
partial def decStmts : List Sx → Option (List Stmt)
  | [] => some []
  | x :: xs => do let s ← decStmt x; let ss ← decStmts xs; pure (s :: ss)
end

def encRef : Option String → Sx
  | some s => .list [.atom "some", .str s]
  | none => .atom "none"

def tagged (t : String) (xs : List Sx) : Sx := .list (.atom t :: xs)

def handle : List Sx → Sx
  | [.list (.atom "globals" :: gs), .list stmts] =>
    match decNames gs, decStmts stmts with
    | some gs, some t =>
      let strs (l : List Name) := l.map Sx.str
      Sx.ok (.list [
        tagged "sites" (strs (resolveSites t).eraseDups),
        tagged "undeclared" (strs (undeclared gs t)),
        tagged "root" (strs (resolves (rootFrame t)).eraseDups),
        tagged "referenced" ((referenced t).map encRef),
        tagged "refok" [Sx.ofBool (refOkTemplate t)],
        -- three sample runs (the theorem quantifies over all oracles; these only show the executor is not degenerate)
        tagged "runs" [.list (strs (runtimeLookups (fun _ => 0) t).eraseDups),
                       .list (strs (runtimeLookups (fun _ => 1) t).eraseDups),
                       .list (strs (runtimeLookups (fun i => i % 3) t).eraseDups)]])
    | _, _ => Sx.bad
  | _ => Sx.bad

/-- request names served by this module (collected into `JinjaV.Wire.All` by tools/gen_wire_all.py) -/
def handlers : List (String × (List Sx → Sx)) :=
  [("scope-analyze", handle)]

end JinjaV.Wire.Scope
