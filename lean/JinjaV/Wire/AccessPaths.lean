import JinjaV.Model.Sx
import JinjaV.Gen.Sandbox
import JinjaV.Gen.AccessPaths
import JinjaV.Model.AccessCheck
namespace JinjaV.Wire.AccessPaths
open JinjaV JinjaV.Gen.Sandbox JinjaV.Gen.AccessPaths JinjaV.AccessCheck

def argOf : String → Option ArgKind
  | "exactStr" => some .exactStr | "strSubclass" => some .strSubclass | "int" => some .int | "other" => some .other
  | _ => none

def excOf : String → Option Exc
  | "typeError" => some .typeError | "keyError" => some .keyError | "indexError" => some .indexError
  | "attributeError" => some .attributeError | "other" => some .other | _ => none

def opOf (s : String) : Option OpRes :=
  if s == "ok" then some .ok else (excOf s).map .err

def boolOf : String → Option Bool
  | "true" => some true | "false" => some false | _ => none

def excName : Exc → String
  | .typeError => "typeError" | .keyError => "keyError" | .indexError => "indexError"
  | .attributeError => "attributeError" | .other => "other"

def argName : ArgKind → String
  | .exactStr => "exactStr" | .strSubclass => "strSubclass" | .int => "int" | .other => "other"

def opName : OpRes → String
  | .ok => "ok" | .err e => excName e

def outName : Outcome → String
  | .item => "item" | .rawAttr => "rawAttr" | .fmtWrapper => "fmtWrapper" | .unsafeUndefined => "unsafeUndefined"
  | .undefined => "undefined" | .returnedNone => "returnedNone" | .raised e => "raised:" ++ excName e

def fnOf : String → Option (World → Outcome)
  | "getitem" => some Sandboxed_getitem | "getattr" => some Sandboxed_getattr
  | "base-getitem" => some Base_getitem | "base-getattr" => some Base_getattr | _ => none

def worldSx (w : World) : Sx :=
  .list [.str (argName w.arg), .str (opName w.item), .str (opName w.attr), Sx.ofBool w.isFormat, Sx.ofBool w.safeAttr]

/-- `(access method arg item attr isFormat safeAttr)` (all strings) → `(ok "outcome")` -/
def handle : List Sx → Sx
  | [m, a, i, t, f, s] =>
    match m.toStr?, a.toStr?, i.toStr?, t.toStr?, f.toStr?, s.toStr? with
    | some m, some a, some i, some t, some f, some s =>
      match fnOf m, argOf a, opOf i, opOf t, boolOf f, boolOf s with
      | some fn, some a, some i, some t, some f, some s =>
        Sx.ok (.str (outName (fn { arg := a, item := i, attr := t, isFormat := f, safeAttr := s })))
      | _, _, _, _, _, _ => Sx.bad
    | _, _, _, _, _, _ => Sx.bad
  | _ => Sx.bad

/-- `(access-cex)` → the (method, world) pairs on which a sandboxed lookup hands out an unchecked attribute -/
def handleCex : List Sx → Sx
  | _ => Sx.ok (.list (counterexamples.map fun (n, w) => .list [.str n, worldSx w]))

/-- `(wrap-none (class…) name selfIsStr)` → does wrap_str_format return None -/
def handleWrap : List Sx → Sx
  | [.list cs, name, s] =>
    match Sx.mapM? Sx.toStr? cs, name.toStr?, s.toStr? with
    | some cs, some name, some s =>
      match boolOf s with
      | some s => Sx.ok (Sx.ofBool (wrapReturnsNone { classes := cs, flags := [] } name s))
      | none => Sx.bad
    | _, _, _ => Sx.bad
  | _ => Sx.bad

/-- `(access-facts)` → the structural facts read from wrap_str_format / SandboxedFormatter (for the report) -/
def handleFacts : List Sx → Sx
  | _ => Sx.ok (.list [.str unsafeUndefinedExc, .list (wrapFormatterClasses.map .str), Sx.ofBool wrapperReferencesRawMethod,
      .list (getFieldSteps.map fun (a, b) => .list [.str a, .str b])])

def handlers : List (String × (List Sx → Sx)) :=
  [("access", handle), ("access-cex", handleCex), ("wrap-none", handleWrap), ("access-facts", handleFacts)]

end JinjaV.Wire.AccessPaths
