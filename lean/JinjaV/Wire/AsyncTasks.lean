import JinjaV.Model.Sx
import JinjaV.Model.AsyncTasks
/-
  Wire for the AsyncTasks model (C37).

    instr ::= (e n) | (a) | (d t) | (f t)        emit / await / importDefault / importFresh
    (tasks-run (cost …) ((instr …) …) (i …))  →  (ok (writes (slot-template …) ((finished out…) …)))
  `make t = 100 + t`; `cost` lists the suspension points inside make_module_async per template id.
-/
namespace JinjaV.Wire.AsyncTasks
open JinjaV JinjaV.AsyncTasks

def decInstr : Sx → Option Instr
  | .list [.atom "e", n] => n.toNat?.map Instr.emit
  | .list [.atom "a"] => some .await_
  | .list [.atom "d", t] => t.toNat?.map Instr.importDefault
  | .list [.atom "f", t] => t.toNat?.map Instr.importFresh
  | _ => none

def decProg : Sx → Option (List Instr)
  | .list xs => Sx.mapM? decInstr xs
  | _ => none

def handle : List Sx → Sx
  | [.list cost, .list progs, .list sched] =>
    match Sx.mapM? Sx.toNat? cost, Sx.mapM? decProg progs, Sx.mapM? Sx.toNat? sched with
    | some cost, some progs, some sched =>
      let E : Env := ⟨fun t => 100 + t, fun t => cost.getD t 0⟩
      let s := runSched E sched (init progs)
      Sx.ok (.list [Sx.ofNat s.shared.writes, Sx.ofNats (s.shared.slots.map Prod.fst),
        .list (s.tasks.map fun t => .list (Sx.ofBool t.finished :: t.out.map Sx.ofNat))])
    | _, _, _ => Sx.bad
  | _ => Sx.bad

def handlers : List (String × (List Sx → Sx)) := [("tasks-run", handle)]

end JinjaV.Wire.AsyncTasks
