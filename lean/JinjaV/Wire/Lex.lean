import JinjaV.Model.Sx
import JinjaV.Model.Lex
namespace JinjaV.Wire.Lex
open JinjaV JinjaV.Lex

def decOptStr : Sx → Option (Option Str)
  | .atom "none" => some none
  | .str s => some (some s.toList)
  | _ => none

def decCfg : Sx → Option Cfg
  | .list [bs, be, vs, ve, cs, ce, ls, lc, tb, lb, kt] => do
    pure { blockStart := (← bs.toStr?).toList, blockEnd := (← be.toStr?).toList, varStart := (← vs.toStr?).toList,
           varEnd := (← ve.toStr?).toList, commentStart := (← cs.toStr?).toList, commentEnd := (← ce.toStr?).toList,
           lineStmt := ← decOptStr ls, lineComment := ← decOptStr lc,
           trimBlocks := ← tb.toBool?, lstripBlocks := ← lb.toBool?, keepTrailingNl := ← kt.toBool? }
  | _ => none

def tkName : TK → String
  | .data => "data" | .blockBegin => "block_begin" | .blockEnd => "block_end" | .variableBegin => "variable_begin"
  | .variableEnd => "variable_end" | .rawBegin => "raw_begin" | .rawEnd => "raw_end" | .commentBegin => "comment_begin"
  | .comment => "comment" | .commentEnd => "comment_end" | .lineStmtBegin => "linestatement_begin"
  | .lineStmtEnd => "linestatement_end" | .lineCommentBegin => "linecomment_begin" | .lineComment => "linecomment"
  | .lineCommentEnd => "linecomment_end" | .whitespace => "whitespace" | .float => "float" | .integer => "integer"
  | .name => "name" | .string => "string" | .operator => "operator" | .ghost => "ghost"

def encTok (t : Tok) : Sx := .list [Sx.ofNat t.lineno, .atom (tkName t.kind), .str (String.ofList t.text)]

def encErr : ErrKind → Sx
  | .missingEndComment => .atom "missingEndComment"
  | .missingEndRaw => .atom "missingEndRaw"
  | .unexpectedClose c => .list [.atom "unexpectedClose", .str (String.singleton c)]
  | .unexpectedCloseExpected c e => .list [.atom "unexpectedCloseExpected", .str (String.singleton c), .str (String.singleton e)]
  | .unexpectedChar c => .list [.atom "unexpectedChar", .str (String.singleton c)]

/-- `(lex cfg "source")` → `(ok (tok…) "preprocessed")` | `(syntax-error kind lineno (tok…))` | `(oom)` -/
def handle : List Sx → Sx
  | [cfg, src] =>
    match decCfg cfg, src.toStr? with
    | some cfg, some src =>
      if !cfg.Valid then Sx.oom else
      match tokeniter cfg src.toList with
      | .ok toks => .list [.atom "ok", .list (toks.map encTok), .str (String.ofList (preprocess cfg src.toList))]
      | .syntaxError toks k ln => .list [.atom "syntax-error", encErr k, Sx.ofNat ln, .list (toks.map encTok)]
      | .fuel _ => .list [.atom "fuel"]
    | _, _ => Sx.bad
  | _ => Sx.bad

def convertNl (nl : Str) : Str → Str
  | [] => []
  | '\n' :: r => nl ++ convertNl nl r
  | c :: r => c :: convertNl nl r

def plainKind : TK → Bool
  | .data | .ghost | .comment | .commentBegin | .commentEnd | .rawBegin | .rawEnd
  | .lineComment | .lineCommentBegin | .lineCommentEnd => true
  | _ => false

/-- `(lex-plain cfg "nlseq" "source")` → `(ok "rendered" single)` when the source consists of text, comments and
    raw blocks only (what such a template renders to: its data tokens with line breaks converted; `single` = the
    source lexes to one data token, i.e. contains no start sequence at all) | `(not-plain)` | `(syntax-error)` -/
def handlePlain : List Sx → Sx
  | [cfg, nl, src] =>
    match decCfg cfg, nl.toStr?, src.toStr? with
    | some cfg, some nl, some src =>
      if !cfg.Valid then Sx.oom else
      match tokeniter cfg src.toList with
      | .ok toks =>
        if toks.all (fun t => plainKind t.kind) then
          let data := (toks.filter (fun t => t.kind == .data)).map (·.text)
          .list [.atom "ok", .str (String.ofList (convertNl nl.toList data.flatten)),
                 Sx.ofBool (toks.length ≤ 1)]
        else .list [.atom "not-plain"]
      | _ => .list [.atom "syntax-error"]
    | _, _, _ => Sx.bad
  | _ => Sx.bad

/-- request names served by this module (collected into `JinjaV.Wire.All` by tools/gen_wire_all.py) -/
def handlers : List (String × (List Sx → Sx)) :=
  [("lex", handle), ("lex-plain", handlePlain)]

end JinjaV.Wire.Lex
