import JinjaV.Model.Sx
import JinjaV.Model.CtxFlow
import JinjaV.Model.CtxRun
namespace JinjaV.Wire.CtxFlow
open JinjaV JinjaV.CtxFlow JinjaV.CtxRun

def decStrs (x : Sx) : Option (List String) := do Sx.mapM? Sx.toStr? (← x.toList?)

def decVal : Sx → Option Val
  | .list [.atom "s", .str s] => some (.str s)
  | .list [.atom "t", .str s] => some (.tmpl s)
  | .list [.atom "u"] => some .undef
  | _ => none

def decEnv (x : Sx) : Option (Env Val) := do
  Sx.mapM? (fun p => match p with
    | .list [.str n, v] => do pure (n, ← decVal v)
    | _ => none) (← x.toList?)

def decStrEnv (x : Sx) : Option (Env Val) := do
  Sx.mapM? (fun p => match p with
    | .list [.str n, .str v] => some (n, Val.str v)
    | _ => none) (← x.toList?)

def decTarget : Sx → Option Target
  | .list [.atom "lit", .str t] => some (.lit t)
  | .list [.atom "var", .str v] => some (.var v)
  | _ => none

def decCallee : Sx → Option Callee
  | .list [.atom "name", .str m] => some (.name m)
  | .list [.atom "attr", .str a, .str m] => some (.attr a m)
  | _ => none

def decParam : Sx → Option (Name × Option String)
  | .list [.str p] => some (p, none)
  | .list [.str p, .str d] => some (p, some d)
  | _ => none

def decPair : Sx → Option (Name × Name)
  | .list [.str a, .str b] => some (a, b)
  | _ => none

mutual
partial def decStmt : Sx → Option Stmt
  | .list [.atom "text", .str s] => some (.text s)
  | .list [.atom "probe", .str tag, ns] => do pure (.probe tag (← decStrs ns))
  | .list [.atom "set", .str x, .str v, b] => do pure (.set x v (← b.toBool?))
  | .list [.atom "if", c, body] => do pure (.ifc (← c.toBool?) (← decBody body))
  | .list [.atom "for", .str x, vals, body] => do pure (.forIn x (← decStrs vals) (← decBody body))
  | .list [.atom "with", .str x, .str v, body] => do pure (.withB x v (← decBody body))
  | .list [.atom "macro", .str m, .list ps, body] => do pure (.macro m (← Sx.mapM? decParam ps) (← decBody body))
  | .list [.atom "call", c, args] => do pure (.call (← decCallee c) (← decStrs args))
  | .list [.atom "callblock", .str p, c, args, body] => do
    pure (.callBlock p (← decCallee c) (← decStrs args) (← decBody body))
  | .list [.atom "caller", .str a] => some (.caller a)
  | .list [.atom "include", .list ts, isList, wc, im] => do
    pure (.include (← Sx.mapM? decTarget ts) (← isList.toBool?) (← wc.toBool?) (← im.toBool?))
  | .list [.atom "import", t, .str a, wc] => do pure (.importAs (← decTarget t) a (← wc.toBool?))
  | .list [.atom "from", t, .list ns, wc] => do pure (.fromImport (← decTarget t) (← Sx.mapM? decPair ns) (← wc.toBool?))
  | .list [.atom "modprobe", .str a, ns] => do pure (.modProbe a (← decStrs ns))
  | .list [.atom "modprint", .str a] => some (.modPrint a)
  | .list [.atom "nameprobe", ns] => do pure (.nameProbe (← decStrs ns))
  | .list [.atom "block", .str b, sc, body] => do pure (.block b (← sc.toBool?) (← decBody body))
  | .list [.atom "extends", t] => do pure (.extendsT (← decTarget t))
  | .list [.atom "fail", .str cls] => some (.fail cls)
  | _ => none
partial def decBody : Sx → Option (List Stmt)
  | .list xs => Sx.mapM? decStmt xs
  | _ => none
end

def decTpl : Sx → Option Tpl
  | .list [.str name, .atom "ok", tplg, body] => do
    pure { name := name, defn := .ok (← decBody body), tplGlobals := ← decStrEnv tplg }
  | .list [.str name, .atom "broken", tplg] => do
    pure { name := name, defn := .broken, tplGlobals := ← decStrEnv tplg }
  | _ => none

def errName : Err → String
  | .templateNotFound => "TemplateNotFound"
  | .templatesNotFound => "TemplatesNotFound"
  | .undefinedError => "UndefinedError"
  | .syntaxError => "TemplateSyntaxError"
  | .keyError => "KeyError"
  | .other cls => cls

def shown (v : Val) : String :=
  match v with
  | .str s => s
  | .undef => missingMark
  | .macro _ m => "<Macro '" ++ m ++ "'>"
  | .module _ => "<module>"
  | .tmpl t => "<template " ++ t ++ ">"

def encOutcome : Except Fail Outcome → Sx
  | .ok o => .list [.atom "out", .str o.out,
      -- a dict: every exported name once
      .list (o.exports.keys.eraseDups.filterMap fun k => (o.exports.get k).map fun v => .list [.str k, .str (shown v)]),
      .list (o.notes.map Sx.str)]
  | .error (.err e p) => .list [.atom "err", .atom (errName e), .str p]
  | .error (.oom why) => .list [.atom "oom", .str why]

/-- `(c05-run mode entry envGlobals vars templates)` → `(ok (impl …) (spec …))` -/
def handleRun : List Sx → Sx
  | [.atom mode, .str entry, envg, vars, .list tpls] =>
    match decStrEnv envg, decEnv vars, Sx.mapM? decTpl tpls with
    | some envg, some vars, some tpls =>
      let w : World := { envGlobals := envg, templates := tpls }
      let go (sem : Sem) : Except Fail Outcome :=
        if mode == "render" then runRender w sem entry vars
        else if mode == "module" then runModule w sem entry none
        else runModule w sem entry (some vars)
      match go .impl with
      | .error (.oom why) => .list [.atom "oom", .str why]
      | ri => Sx.ok (.list [.list [.atom "impl", encOutcome ri], .list [.atom "spec", encOutcome (go .spec)]])
    | _, _, _ => Sx.bad
  | _ => Sx.bad

/-! L-unit: the context primitives on their own -/

def decSEnv (x : Sx) : Option (Env String) := do
  Sx.mapM? (fun p => match p with
    | .list [.str n, .str v] => some (n, v)
    | _ => none) (← x.toList?)

def decLocals (x : Sx) : Option (Locals String) := do
  Sx.mapM? (fun p => match p with
    | .list [.str n, .str v] => some (n, some v)
    | .list [.str n] => some (n, none)
    | _ => none) (← x.toList?)

def decOptEnv : Sx → Option (Option (Env String))
  | .atom "none" => some none
  | x => (decSEnv x).map some

/-- the mapping as a dict: every key once with its effective value -/
def encDict (e : Env String) : Sx :=
  .list ((e.keys.eraseDups).filterMap fun k => (e.get k).map fun v => .list [.str k, .str v])

def encCtx (c : Ctx String) : Sx :=
  .list [encDict c.parent, Sx.ofStrs c.gkeys.eraseDups]

def decKind : Sx → Option Kind
  | .atom "include" => some .inc
  | .atom "import" => some .imp
  | _ => none

def decBind : Sx → Option (TopBind String)
  | .list [.atom "assign", .str n, .str v] => some (.assign n v)
  | .list [.atom "imported", .str n, .str v] => some (.imported n v)
  | _ => none

def decLoad : Sx → Option Item
  | .list [.atom "found", .str t] => some (.name (.found t))
  | .atom "notfound" => some (.name .notFound)
  | .atom "undefined" => some (.name .undefinedName)
  | .atom "broken" => some (.name .broken)
  | .list [.atom "obj", .str t] => some (.obj t)
  | _ => none

def handleUnit : List Sx → Sx
  -- new_context(vars, shared, locals) over `globals`
  | [.atom "newctx", globals, vars, shared, locals] =>
    match decSEnv globals, decOptEnv vars, shared.toBool?, decLocals locals with
    | some g, some v, some sh, some l => Sx.ok (encCtx (newContext g v sh l))
    | _, _, _, _ => Sx.bad
  -- Context(parent, globals).vars := vars; get_all()
  | [.atom "getall", parent, vars] =>
    match decSEnv parent, decSEnv vars with
    | some p, some v => Sx.ok (encDict ({ parent := p, vars := v } : Ctx String).getAll)
    | _, _ => Sx.bad
  -- the target's context for a situation given as (ctx.parent ctx.vars ctx.gkeys ctx._globals locals tgtGlobals kind withCtx)
  | [.atom "target", parent, vars, gkeys, cglobals, locals, tgtg, kind, wc] =>
    match decSEnv parent, decSEnv vars, (do Sx.mapM? Sx.toStr? (← gkeys.toList?)), decSEnv cglobals, decLocals locals,
          decSEnv tgtg, decKind kind, wc.toBool? with
    | some p, some v, some gk, some cg, some l, some tg, some k, some wc =>
      let s : Situation String := { ctx := { parent := p, vars := v, gkeys := gk, globals := cg }, locals := l,
                                    srcGlobals := cg, tgtGlobals := tg, kind := k, withCtx := wc }
      Sx.ok (.list [encCtx (targetCtx s), Sx.ofBool (servedFromCache s)])
    | _, _, _, _, _, _, _, _ => Sx.bad
  -- Context.derived(locals) of Context(parent, vars, gkeys, _globals): (parent gkeys _globals) of the result
  | [.atom "derived", parent, vars, gkeys, cglobals, locals] =>
    match decSEnv parent, decSEnv vars, (do Sx.mapM? Sx.toStr? (← gkeys.toList?)), decSEnv cglobals, decLocals locals with
    | some p, some v, some gk, some cg, some l =>
      let c := ({ parent := p, vars := v, gkeys := gk, globals := cg } : Ctx String).derived l
      Sx.ok (.list [encCtx c, encDict c.globals])
    | _, _, _, _, _ => Sx.bad
  -- exported_vars bookkeeping over a list of top-level bindings
  | [.atom "exports", .list binds] =>
    match Sx.mapM? decBind binds with
    | some bs =>
      let c := bs.foldl Ctx.bindTop ({ parent := [] } : Ctx String)
      Sx.ok (.list [encDict c.getExported, encDict c.vars])
    | none => Sx.bad
  -- which template an include statement renders
  | [.atom "resolve", .list items, isList, im] =>
    match Sx.mapM? decLoad items, isList.toBool?, im.toBool? with
    | some its, some isl, some im =>
      let t : IncTarget := if isl then .many its else match its with
        | [i] => .single i
        | _ => .many its
      match includeResolve t im with
      | .ok (some n) => Sx.ok (.str n)
      | .ok none => Sx.ok (.atom "skip")
      | .error e => Sx.err (errName e)
    | _, _, _ => Sx.bad
  | _ => Sx.bad

/-- `(c05-locals body)` → for every include / import statement in source order, the keys of its locals dict -/
def handleLocals : List Sx → Sx
  | [body] => match decBody body with
    | some b => Sx.ok (.list ((localsKeysOf b).map Sx.ofStrs))
    | none => Sx.bad
  | _ => Sx.bad

/-- `(c05-guard)` → the try statement the model's `includeStmt` stands for -/
def handleGuard : List Sx → Sx
  | _ =>
    let g := includeGuard
    Sx.ok (.list [Sx.ofStrs g.guarded, .list (g.handlers.map fun h => .list [.str h.1, Sx.ofStrs h.2]), .str g.renderIn,
                  Sx.ofBool g.hasFinally])

def handlers : List (String × (List Sx → Sx)) :=
  [("c05-run", handleRun), ("c05-unit", handleUnit), ("c05-locals", handleLocals), ("c05-guard", handleGuard)]

end JinjaV.Wire.CtxFlow
