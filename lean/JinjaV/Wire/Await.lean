/- wire codec: the await model (auto_await / auto_aiter / auto_to_list / async-variant shapes / AsyncLoopContext) -/
import JinjaV.Model.Sx
import JinjaV.Model.Await
import JinjaV.Wire.Loop

namespace JinjaV.Wire.Await
open JinjaV JinjaV.Await

/-- `(plain prim n)` `(awaitable v)` `(iter n…)` `(aiter n…)` -/
partial def decAV : Sx → Option (AV Int)
  | .list [.atom "plain", p, n] => do some (.plain (← p.toBool?) (← n.toInt?))
  | .list [.atom "awaitable", v] => (decAV v).map .awaitable
  | .list (.atom "iter" :: xs) => (Sx.mapM? Sx.toInt? xs).map .iter
  | .list (.atom "aiter" :: xs) => (Sx.mapM? Sx.toInt? xs).map .asyncIter
  | _ => none

partial def encAV : AV Int → Sx
  | .plain p n => .list [.atom "plain", Sx.ofBool p, Sx.ofInt n]
  | .awaitable v => .list [.atom "awaitable", encAV v]
  | .iter xs => .list (.atom "iter" :: xs.map Sx.ofInt)
  | .asyncIter xs => .list (.atom "aiter" :: xs.map Sx.ofInt)

def encList : Except AErr (List Int) → Sx
  | .ok xs => Sx.ok (.list (xs.map Sx.ofInt))
  | .error _ => .list [.atom "err", .atom "typeError"]

/-- `(await-auto v)` → `(ok v')` : `await auto_await(v)` -/
def handleAuto : List Sx → Sx
  | [v] => match decAV v with
    | some v => Sx.ok (encAV (autoAwait v))
    | none => Sx.bad
  | _ => Sx.bad

/-- `(await-tolist v)` → `(ok (n…))` | `(err typeError)` : `await auto_to_list(v)` -/
def handleToList : List Sx → Sx
  | [v] => match decAV v with
    | some v => encList (autoToList v)
    | none => Sx.bad
  | _ => Sx.bad

/-- `(await-shape kind v)`: the async variants by shape on the items of `v`:
      sum      → `variantFold (+) id 100`                (do_sum with start=100)
      odd      → `variantGen` keeping odd items           (do_select("odd"))
      double   → `variantGen` emitting `2*x`              (do_map over a doubling function)
      first    → `variantFirst`                           (do_first; `(ok ())` = undefined)
      items    → `variantSyncOnList id`                   (a sync function applied to `await auto_to_list(v)`: do_join, do_unique, do_slice) -/
def handleShape : List Sx → Sx
  | [.atom kind, v] => match decAV v with
    | none => Sx.bad
    | some v =>
      match kind with
      | "sum" => encList ((variantFold (· + ·) id 100 v).map (fun n => [n]))
      | "odd" => encList (variantGen (fun x => if x % 2 == 1 then [x] else []) v)
      | "double" => encList (variantGen (fun x => [2 * x]) v)
      | "first" => encList ((variantFirst v).map Option.toList)
      | "items" => encList (variantSyncOnList id v)
      | _ => Sx.bad
  | _ => Sx.bad

/-- `(await-loop sized native depth0 (x…) (op…))` → `(ok (out…))`: the AsyncLoopContext model -/
def handleLoop : List Sx → Sx
  | [sized, native, d, .list xs, .list ops] =>
    match sized.toBool?, native.toBool?, d.toNat?, Sx.mapM? Sx.toInt? xs, Sx.mapM? Wire.Loop.decOp ops with
    | some sized, some native, some d, some xs, some ops =>
      Sx.ok (.list ((arun (ainit xs sized native d) ops).2.map Wire.Loop.encOut))
    | _, _, _, _, _ => Sx.bad
  | _ => Sx.bad

def handlers : List (String × (List Sx → Sx)) :=
  [("await-auto", handleAuto), ("await-tolist", handleToList), ("await-shape", handleShape), ("await-loop", handleLoop)]

end JinjaV.Wire.Await
