import JinjaV.Model.Sx
import JinjaV.Model.Stream
namespace JinjaV.Wire.Stream
open JinjaV

/-- `(stream size (piece…))` → `(ok ((chunk…) (non-empty count per chunk…) concat))` -/
def handle : List Sx → Sx
  | [size, .list ps] =>
    match size.toNat?, Sx.mapM? Sx.toStr? ps with
    | some n, some ps =>
      if n = 0 then Sx.oom else
      let gs := JinjaV.Stream.groups n ps
      Sx.ok (.list [Sx.ofStrs (gs.map String.join), Sx.ofNats (gs.map JinjaV.Stream.ne), .str (String.join ps)])
    | _, _ => Sx.bad
  | _ => Sx.bad
/-- request names served by this module (collected into `JinjaV.Wire.All` by tools/gen_wire_all.py) -/
def handlers : List (String × (List Sx → Sx)) :=
  [("stream", handle)]

end JinjaV.Wire.Stream
