import JinjaV.Model.Sx
import JinjaV.Model.UndefinedOps
namespace JinjaV.Wire.Undefined
open JinjaV JinjaV.SpecUndefined JinjaV.UndefinedOps

def decKind : Sx → Option Kind
  | .atom "default" => some .default
  | .atom "chainable" => some .chainable
  | .atom "debug" => some .debug
  | .atom "strict" => some .strict
  | .list [.atom "logging", b] => (decKind b).map .logging
  | _ => none

def opNames : List (String × Op) := allOps.map fun op => (toString (repr op) |>.replace "JinjaV.SpecUndefined.Op." "", op)

def decOp : Sx → Option Op
  | .atom s => opNames.lookup s
  | _ => none

def encOutcome (o : Outcome) : Sx :=
  .atom ((toString (repr o)).replace "JinjaV.SpecUndefined.Outcome." "")

/-- `(undef kind op)` → `(ok (model spec))` -/
def handle : List Sx → Sx
  | [k, op] =>
    match decKind k, decOp op with
    | some k, some op => Sx.ok (.list [encOutcome (outcome k op), encOutcome (spec k op)])
    | _, _ => Sx.bad
  | _ => Sx.bad

/-- request names served by this module (collected into `JinjaV.Wire.All` by tools/gen_wire_all.py) -/
def handlers : List (String × (List Sx → Sx)) :=
  [("undef", handle)]

end JinjaV.Wire.Undefined
