import JinjaV.Model.Sx
import JinjaV.Model.UndefinedEngine
import JinjaV.Wire.Undefined
import JinjaV.Spec.ExceptionHierarchy
namespace JinjaV.Wire.UndefinedEngine
open JinjaV JinjaV.SpecUndefined JinjaV.UndefinedOps JinjaV.UndefinedEngine

def decEnv : Sx → Option EnvKind
  | .atom "plain" => some .plain
  | .atom "sandbox" => some .sandbox
  | _ => none

def decAcc : Sx → Option Acc
  | .atom "attr" => some .attr
  | .atom "itemStr" => some .itemStr
  | .atom "itemOther" => some .itemOther
  | .atom "slice" => some .slice
  | .atom "attrFilter" => some .attrFilter
  | _ => none

def shortName (s : String) : String := ((s.splitOn ".").getLast?).getD s

def binNames : List (String × BinOp) := allBinOps.map fun o => (shortName (toString (repr o)), o)

/-- finals without arguments, by constructor name -/
def finalNames : List (String × Final) :=
  allFinals.filterMap fun f => match f with
    | .bin _ _ => none
    | f => some (shortName (toString (repr f)), f)

def decFinal : Sx → Option Final
  | .atom s => finalNames.lookup s
  | .list [.atom "bin", .atom o, r] => do pure (.bin (← binNames.lookup o) (← r.toBool?))
  | _ => none

def encPiece : Piece → Sx
  | .lit s => .str s
  | .dbg => .atom "dbg"

def encOut : FOut → Sx
  | .raises b => .list [.atom "raises", Sx.ofBool b]
  | .text ps b => .list [.atom "text", .list (ps.map encPiece), Sx.ofBool b]
  | .oom => .list [.atom "oom"]

def encStep (s : Step) : Sx := .atom (shortName (toString (repr s)))

/-- `(undef-engine env async kind (acc …) final)` → `(ok (model spec))` -/
def handleEngine : List Sx → Sx
  | [e, a, k, .list accs, f] =>
    match decEnv e, a.toBool?, Wire.Undefined.decKind k, Sx.mapM? decAcc accs, decFinal f with
    | some e, some a, some k, some accs, some f => Sx.ok (.list [encOut (run e a k accs f), encOut (runSpec e a k accs f)])
    | _, _, _, _, _ => Sx.bad
  | _ => Sx.bad

/-- `(undef-step env kind acc)` → `(ok (model spec))` -/
def handleStep : List Sx → Sx
  | [e, k, a] =>
    match decEnv e, Wire.Undefined.decKind k, decAcc a with
    | some e, some k, some a => Sx.ok (.list [encStep (step outcome srcGuards e k a), encStep (stepSpec k)])
    | _, _, _ => Sx.bad
  | _ => Sx.bad

/-- `(exc-ancestors "Name")` → `(ok ("Name" "Base" …))`: the classes `Name` is a subclass of, from the tables read from the source -/
def handleAncestors : List Sx → Sx
  | [.str c] => Sx.ok (.list ((ancestors c).map Sx.str))
  | _ => Sx.bad

/-- `(exc-tables)` → `(ok (class …) (builtin …) (caughtBuiltin …) undefinedException)` -/
def handleTables : List Sx → Sx
  | [] => Sx.ok (.list [
      .list (Gen.ExceptionClasses.classes.map fun p => Sx.str p.1),
      .list (Gen.ExceptionClasses.builtinClasses.map fun p => Sx.str p.1),
      .list (Gen.ExceptionClasses.caughtBuiltins.map Sx.str),
      .str Gen.ExceptionClasses.undefinedException,
      .list (Gen.ExceptionClasses.sites.map fun s => .list [.str s.1, .list (s.2.map fun h => .list (h.map Sx.str))])])
  | _ => Sx.bad

/-- `(exc-documented "Name")` → `(ok ("Name" "Base" …))` documented ancestors, `(ok none)` for an undocumented class -/
def handleDocumented : List Sx → Sx
  | [.str c] =>
    match SpecExceptionHierarchy.documentedAncestors.lookup c with
    | some l => Sx.ok (.list (l.map Sx.str))
    | none => Sx.ok (.atom "none")
  | _ => Sx.bad

def handlers : List (String × (List Sx → Sx)) :=
  [("undef-engine", handleEngine), ("undef-step", handleStep), ("exc-ancestors", handleAncestors), ("exc-tables", handleTables),
   ("exc-documented", handleDocumented)]

end JinjaV.Wire.UndefinedEngine
