import JinjaV.Model.Sx
import JinjaV.Model.Literal
import JinjaV.Spec.PyLiteral
namespace JinjaV.Wire.Literal
open JinjaV JinjaV.Lex JinjaV.Literal

/-- code points → source text; `none` if one is not a Unicode scalar value (lone surrogate): outside the model -/
def toChars? : List Nat → Option Str
  | [] => some []
  | n :: r =>
    if n < 0xd800 || (0xdfff < n && n < 0x110000) then (toChars? r).map (Char.ofNat n :: ·) else none

def decCPs (x : Sx) : Option (List Nat) :=
  match x with
  | .list xs => Sx.mapM? Sx.toNat? xs
  | _ => none

def encDec (d : Dec) : List Sx := [Sx.ofNat d.mant, Sx.ofInt d.exp]

def encNum : Option (Option NumVal) → Sx
  | none => .list [.atom "notone"]
  | some none => .list [.atom "one", .atom "error"]
  | some (some (.int n)) => .list [.atom "one", .atom "int", Sx.ofNat n]
  | some (some (.float d)) => .list ([.atom "one", .atom "float"] ++ encDec d)

/-- Python's reading of the spelling as one number, by the reference grammar -/
def specNum (s : Str) : Sx :=
  match Spec.PyLit.pyInteger? s, Spec.PyLit.pyFloat? s with
  | some n, _ => .list [.atom "int", Sx.ofNat n]
  | none, some (m, e) => .list [.atom "float", Sx.ofNat m, Sx.ofInt e]
  | none, none => .list [.atom "none"]

/-- `(lit-num (cp…))` → `(ok <model> <spec>)` -/
def handleNum : List Sx → Sx
  | [cps] =>
    match decCPs cps with
    | some cps =>
      (match toChars? cps with
       | some s => .list [.atom "ok", encNum (oneNumber s), specNum s]
       | none => Sx.oom)
    | none => Sx.bad
  | _ => Sx.bad

/-- depth-first enumeration of every spelling of length 1..n over the alphabet; the grammar derivatives are
    carried along the prefix.  Collects the spellings the model reads as one number and those the reference
    grammar reads as one number. -/
partial def enumerate (alpha : Str) : Nat → Str → Spec.PyLit.G → Spec.PyLit.G → (List Sx × List Sx × Nat) →
    (List Sx × List Sx × Nat)
  | 0, _, _, _, acc => acc
  | n + 1, prefRev, gi, gf, acc =>
    alpha.foldl (fun acc c =>
      let sp := (c :: prefRev).reverse
      let gi' := gi.deriv c
      let gf' := gf.deriv c
      let m := oneNumber sp
      let accM := match m with
        | none => acc.1
        | some _ => .list [.str (String.ofList sp), encNum m] :: acc.1
      let accS :=
        if gi'.nullable then .list [.str (String.ofList sp), .list [.atom "int", Sx.ofNat (Spec.PyLit.integerValue sp)]] :: acc.2.1
        else if gf'.nullable then
          .list [.str (String.ofList sp), .list [.atom "float", Sx.ofNat (Spec.PyLit.floatDecimal sp).1,
                                                  Sx.ofInt (Spec.PyLit.floatDecimal sp).2]] :: acc.2.1
        else acc.2.1
      enumerate alpha n (c :: prefRev) gi' gf' (accM, accS, acc.2.2 + 1)) acc

/-- `(lit-num-enum "alphabet" n "prefix")` → `(ok (model…) (spec…) count)` over all spellings `prefix ++ w`,
    `1 ≤ |w| ≤ n` -/
def handleEnum : List Sx → Sx
  | [alpha, n, pre] =>
    match alpha.toStr?, n.toNat?, pre.toStr? with
    | some alpha, some n, some pre =>
      let p := pre.toList
      let r := enumerate alpha.toList n p.reverse (Spec.PyLit.integer.derivs p) (Spec.PyLit.floatnumber.derivs p) ([], [], 0)
      .list [.atom "ok", .list r.1.reverse, .list r.2.1.reverse, Sx.ofNat r.2.2]
    | _, _, _ => Sx.bad
  | _ => Sx.bad

def encStrRes : Except DErr (List Nat) → Sx
  | .ok v => .list [.atom "ok", Sx.ofNats v]
  | .error .syntax => .list [.atom "err", .atom "syntax"]
  | .error .oom => .list [.atom "oom"]

def encSpecStr : Except Spec.PyLit.StrErr (List Nat) → Sx
  | .ok v => .list [.atom "ok", Sx.ofNats v]
  | .error .syntax => .list [.atom "err", .atom "syntax"]
  | .error .named => .list [.atom "oom"]

/-- `(lit-str (cp…))`: an expression of adjacent string literals through the tag lexer →
    `(ok (cp…))` | `(err syntax)` | `(oom)` | `(notstrings)` -/
def handleStr : List Sx → Sx
  | [cps] =>
    match decCPs cps with
    | some cps =>
      (match toChars? cps with
       | some s =>
         (match stringsValue s with
          | some r => encStrRes r
          | none => .list [.atom "notstrings"])
       | none => Sx.oom)
    | none => Sx.bad
  | _ => Sx.bad

/-- `(lit-body (cp…))`: the text between the quotes → `(<model> <spec> f13free)` -/
def handleBody : List Sx → Sx
  | [cps] =>
    match decCPs cps with
    | some cps => .list [encStrRes (unescapeBody cps), encSpecStr (Spec.PyLit.strValue (normNl cps)), Sx.ofBool (f13Free cps)]
    | none => Sx.bad
  | _ => Sx.bad

def decStyle : Sx → Option Style
  | .atom "raw" => some .raw | .atom "simple" => some .simple | .atom "hex2" => some .hex2
  | .atom "oct3" => some .oct3 | .atom "u4" => some .u4 | .atom "u8" => some .u8
  | _ => none

/-- `(lit-repr q (cp…) (printable cp…))` → `(ok (cp…))`: the text `repr` puts between quotes `q` -/
def handleRepr : List Sx → Sx
  | [q, cps, pr] =>
    match q.toNat?, decCPs cps, decCPs pr with
    | some q, some cps, some pr => Sx.ok (Sx.ofNats (reprBody (fun c => pr.contains c) q cps))
    | _, _, _ => Sx.bad
  | _ => Sx.bad

/-- `(lit-spell q (style…) (cp…))` → `(ok (cp…) valid)`: the body written with the given styles -/
def handleSpell : List Sx → Sx
  | [q, .list sts, cps] =>
    match q.toNat?, Sx.mapM? decStyle sts, decCPs cps with
    | some q, some sts, some cps =>
      .list [.atom "ok", Sx.ofNats (spellBody sts cps),
             Sx.ofBool (stylesOk q sts cps)]
    | _, _, _ => Sx.bad
  | _ => Sx.bad

/-- request names served by this module (collected into `JinjaV.Wire.All` by tools/gen_wire_all.py) -/
def handlers : List (String × (List Sx → Sx)) :=
  [("lit-num", handleNum), ("lit-num-enum", handleEnum), ("lit-str", handleStr), ("lit-body", handleBody),
   ("lit-repr", handleRepr), ("lit-spell", handleSpell)]

end JinjaV.Wire.Literal
