import JinjaV.Model.Sx
import JinjaV.Model.Symbols
/-!
  Wire for Model/Symbols.lean (C30).

  chooser  ::= (id) | (rev) | (sort) | (sortrev) | (mix N) | (explicit "a" "b" …)
  prog     ::= ( op* )            op ::= (param "n") | (store "n") | (load "n") | (branch prog prog prog)
  flags    ::= (loop block toplevel pyscope)          -- four booleans
  code     ::= ( act* )           act ::= (derive) | (assign "n"*) | (deps ("f"*) ("t"*)) | (frame flags prog code)

  (c30-sym chooser (prog₀ prog₁ … progₙ))   analyse a chain of frames, frame i at level i with frames <i as parents;
        reply per frame: ((refs) (loads) (stores sorted) (param-targets sorted) (enter…) (leave…) "dump_local_context")
  (c30-cg chooser flags prog code)          emitted lines of the root frame
-/
namespace JinjaV.Wire.Symbols
open JinjaV JinjaV.Symbols

def rot (n : Nat) (l : List String) : List String :=
  if l.isEmpty then l else l.drop (n % l.length) ++ l.take (n % l.length)

def decChooser : Sx → Option Chooser
  | .list [.atom "id"] => some fun _ l => l
  | .list [.atom "rev"] => some fun _ l => l.reverse
  | .list [.atom "sort"] => some fun _ l => sortStr l
  | .list [.atom "sortrev"] => some fun _ l => (sortStr l).reverse
  | .list [.atom "mix", n] => do
    let n ← n.toNat?
    pure fun p l => let k := n + p.length + p.foldl (· + ·) 0
                    if k % 2 = 0 then rot k l else (rot k l).reverse
  | .list (.atom "explicit" :: xs) => do
    let xs ← Sx.mapM? Sx.toStr? xs
    pure fun _ l => if sortStr xs = sortStr l then xs else l
  | _ => none

partial def decProg : Sx → Option Prog
  | .list [] => some .done
  | .list (.list [.atom "param", n] :: k) => do pure (.param (← n.toStr?) (← decProg (.list k)))
  | .list (.list [.atom "store", n] :: k) => do pure (.store (← n.toStr?) (← decProg (.list k)))
  | .list (.list [.atom "load", n] :: k) => do pure (.load (← n.toStr?) (← decProg (.list k)))
  | .list (.list [.atom "branch", a, b, c] :: k) => do
    pure (.branch (← decProg a) (← decProg b) (← decProg c) (← decProg (.list k)))
  | _ => none

def decFlags : Sx → Option Flags
  | .list [a, b, c, d] => do
    pure { loopFrame := ← a.toBool?, blockFrame := ← b.toBool?, toplevel := ← c.toBool?, withPythonScope := ← d.toBool? }
  | _ => none

partial def decCode : Sx → Option Code
  | .list [] => some .done
  | .list (.list [.atom "derive"] :: k) => do pure (.derive (← decCode (.list k)))
  | .list (.list (.atom "assign" :: ns) :: k) => do pure (.assign (← Sx.mapM? Sx.toStr? ns) (← decCode (.list k)))
  | .list (.list [.atom "deps", .list fs, .list ts] :: k) => do
    pure (.deps (← Sx.mapM? Sx.toStr? fs) (← Sx.mapM? Sx.toStr? ts) (← decCode (.list k)))
  | .list (.list [.atom "frame", fl, a, body] :: k) => do
    pure (.frame (← decFlags fl) (← decProg a) (← decCode body) (← decCode (.list k)))
  | _ => none

def encLoad : Load → List Sx
  | .param => [.atom "param", .atom "none"]
  | .resolve n => [.atom "resolve", .str n]
  | .alias t => [.atom "alias", .str t]
  | .undefined => [.atom "undefined", .atom "none"]

def encSym (o : List String → List String) (chain : List Sym) (s : Sym) : Sx :=
  .list [ .list (s.refs.map fun kv => .list [.str kv.1, .str kv.2]),
          .list (s.loads.map fun kv => .list (.str kv.1 :: encLoad kv.2)),
          Sx.ofStrs (sortStr s.stores),
          Sx.ofStrs (sortStr (dumpParamTargets s)),
          Sx.ofStrs (enterFrame "resolve" s),
          Sx.ofStrs (leaveFrame false s),
          .str (dumpLocalContext o chain) ]

def runChain (o : Chooser) : Nat → List Sym → List Prog → List Sx → List Sx
  | _, _, [], acc => acc.reverse
  | lvl, chain, p :: rest, acc =>
    let s := analyze o chain [lvl] (emptySym lvl) p
    runChain o (lvl + 1) (s :: chain) rest (encSym (o [lvl, 99]) (s :: chain) s :: acc)

def handleSym : List Sx → Sx
  | [ch, .list progs] =>
    match decChooser ch, Sx.mapM? decProg progs with
    | some o, some ps => Sx.ok (.list (runChain o 0 [] ps []))
    | _, _ => Sx.bad
  | _ => Sx.bad

def handleCg : List Sx → Sx
  | [ch, fl, a, code] =>
    match decChooser ch, decFlags fl, decProg a, decCode code with
    | some o, some fl, some a, some c => Sx.ok (Sx.ofStrs (cgTemplate o fl a c))
    | _, _, _, _ => Sx.bad
  | _ => Sx.bad

def handlers : List (String × (List Sx → Sx)) :=
  [("c30-sym", handleSym), ("c30-cg", handleCg)]

end JinjaV.Wire.Symbols
