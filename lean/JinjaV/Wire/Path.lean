import JinjaV.Model.Sx
import JinjaV.Model.Path
import JinjaV.Model.PathProg
import JinjaV.Gen.SplitPath
namespace JinjaV.Wire.Path
open JinjaV JinjaV.Path

def encStrs (l : List Str) : Sx := .list (l.map fun s => .str (String.ofList s))

def decChar? : Sx → Option (Option Char)
  | .atom "none" => some none
  | .str s => match s.toList with | [c] => some (some c) | _ => none
  | _ => none

/-- `(path-split sep altsep name)` → `(ok (piece…))` | `(err notfound)` -/
def handleSplit : List Sx → Sx
  | [sep, alt, name] =>
    match decChar? sep, decChar? alt, name.toStr? with
    | some (some sep), some alt, some n =>
      match splitTemplatePath sep alt n.toList with
      | some ps => Sx.ok (encStrs ps)
      | none => Sx.err "notfound"
    | _, _, _ => Sx.bad
  | _ => Sx.bad

/-- `(path-join root (piece…))` → `(ok (joined (component…)))` -/
def handleJoin : List Sx → Sx
  | [root, .list ps] =>
    match root.toStr?, Sx.mapM? Sx.toStr? ps with
    | some r, some ps =>
      let j := posixJoin r.toList (ps.map String.toList)
      Sx.ok (.list [.str (String.ofList j), encStrs (components j)])
    | _, _ => Sx.bad
  | _ => Sx.bad

def decLoader : Sx → Option Loader
  | .list kvs => do
    let kv ← Sx.mapM? (fun x => match x with
      | .list [k, v] => do pure ((← k.toStr?).toList, ← v.toNat?)
      | _ => none) kvs
    pure (fun n => (kv.find? (fun p => p.1 == n)).map Prod.snd)
  | _ => none

def encRes : Option Nat → Sx
  | some s => Sx.ok (Sx.ofNat s)
  | none => Sx.err "notfound"

/-- `(path-choice (loader…) name)` -/
def handleChoice : List Sx → Sx
  | [.list ls, name] =>
    match Sx.mapM? decLoader ls, name.toStr? with
    | some ls, some n => encRes (choice ls n.toList)
    | _, _ => Sx.bad
  | _ => Sx.bad

/-- `(path-prefix ((prefix loader)…) delim name)` -/
def handlePrefix : List Sx → Sx
  | [.list ms, delim, name] =>
    match Sx.mapM? (fun x => match x with
        | .list [p, l] => do pure ((← p.toStr?).toList, ← decLoader l)
        | _ => none) ms, delim.toStr?, name.toStr? with
    | some ms, some d, some n => if d.isEmpty then Sx.oom else encRes (prefixLoad ms d.toList n.toList)
    | _, _, _ => Sx.bad
  | _ => Sx.bad

/-- `(path-split-gen sep altsep name)`: the program READ from loaders.py (Gen/SplitPath.lean) run by the
    interpreter; `(oom)` when the program applies `str → str` functions (they are uninterpreted in the model) -/
def handleSplitGen : List Sx → Sx
  | [sep, alt, name] =>
    match decChar? sep, decChar? alt, name.toStr? with
    | some (some sep), some alt, some n =>
      if !Gen.SplitPath.prog.syms.isEmpty then Sx.oom
      else match runProg semId Gen.SplitPath.prog sep alt n.toList with
        | some ps => Sx.ok (encStrs ps)
        | none => Sx.err "notfound"
    | _, _, _ => Sx.bad
  | _ => Sx.bad

/-- `(path-prog)` → `(ok (safe functions-in-the-stored-expression all-functions))` for the program read from the source -/
def handleProg : List Sx → Sx
  | _ => Sx.ok (.list [.atom (if safeProg Gen.SplitPath.prog then "true" else "false"),
      .list (Gen.SplitPath.prog.store.map fun x => .str x.fn),
      .list (Gen.SplitPath.prog.syms.map fun x => .str x.fn)])

/-- request names served by this module (collected into `JinjaV.Wire.All` by tools/gen_wire_all.py) -/
def handlers : List (String × (List Sx → Sx)) :=
  [("path-split", handleSplit), ("path-join", handleJoin), ("path-choice", handleChoice), ("path-prefix", handlePrefix),
   ("path-split-gen", handleSplitGen), ("path-prog", handleProg)]

end JinjaV.Wire.Path
