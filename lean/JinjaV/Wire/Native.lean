import JinjaV.Model.Sx
import JinjaV.Model.Native
namespace JinjaV.Wire.Native
open JinjaV JinjaV.Native

def decVal : Sx → Option Val
  | .list [.atom "str", s] => (s.toStr?).map Val.str
  | .list [.atom "obj", i, s] => do pure (.obj (← i.toNat?) (← s.toStr?))
  | _ => none

/-- `(native isGen (val…))` → `none` | `(value id)` | `(parse "text")`: the text is handed back for the
    harness to apply Python's own `literal_eval` (the model's parameter) -/
def handle : List Sx → Sx
  | [g, .list vs] =>
    match g.toBool?, Sx.mapM? decVal vs with
    | some g, some vs =>
      -- run the model with an evaluator that never succeeds: `text raw` then means "parse raw"
      match nativeConcat (fun _ => (none : Option Unit)) g vs with
      | .none => Sx.ok (.atom "none")
      | .value (.obj i _) => Sx.ok (.list [.atom "value", Sx.ofNat i])
      | .value (.str s) => Sx.ok (.list [.atom "parse", .str s])
      | .text raw => Sx.ok (.list [.atom "parse", .str raw])
      | .literal _ => Sx.bad
    | _, _ => Sx.bad
  | _ => Sx.bad
/-- request names served by this module (collected into `JinjaV.Wire.All` by tools/gen_wire_all.py) -/
def handlers : List (String × (List Sx → Sx)) :=
  [("native", handle)]

end JinjaV.Wire.Native
