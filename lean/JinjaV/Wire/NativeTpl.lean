import JinjaV.Model.Sx
import JinjaV.Model.NativeTpl
import JinjaV.Wire.Lex
import JinjaV.Wire.Native
namespace JinjaV.Wire.NativeTpl
open JinjaV JinjaV.Native JinjaV.NativeTpl

def decVar : Sx → Option (Lex.Str × Option Val)
  | .list [n, v] => do pure ((← n.toStr?).toList, some (← JinjaV.Wire.Native.decVal v))
  | _ => none

def decCond : Sx → Option (Lex.Str × Bool)
  | .list [n, b] => do pure ((← n.toStr?).toList, ← b.toBool?)
  | _ => none

def decConst : Sx → Option (Lex.Str × String)
  | .list [k, v] => do pure ((← k.toStr?).toList, ← v.toStr?)
  | _ => none

def encVal : Val → Sx
  | .str s => .list [.atom "str", .str s]
  | .obj i _ => .list [.atom "obj", Sx.ofNat i]

/-- `(native-tpl cfg "source" ((name val)…) ((name bool)…) ((key "text")…))` →
    `(ok (piece…) result (assumed…))` | `(oom)` | `(syntax-error)`;
    `result` as for `native`: `none` | `(value id)` | `(parse "text")`; the last argument names the compile-time constant
    expressions (token texts joined) with their documented text; `assumed` lists macro results the model took to be text
    (the harness confirms with Python's `literal_eval` that they are not literals, else the case is out of model).
    The pieces are the DOCUMENTED ones: the lexer model's data tokens are never empty and an empty data token is
    skipped by the parser (`guard = true`), whatever `Gen/NativeGuards.lean` reads from the changed source. -/
def run (cfg src : Sx) (vars conds consts : List Sx) : Sx :=
  match JinjaV.Wire.Lex.decCfg cfg, src.toStr?, Sx.mapM? decVar vars, Sx.mapM? decCond conds, Sx.mapM? decConst consts with
  | some cfg, some src, some vars, some conds, some consts =>
    if !cfg.Valid then Sx.oom else
    match JinjaV.Lex.tokeniter cfg src.toList with
    | .ok toks =>
      match piecesWith true (wrap toks) vars conds consts with
      | some (ps, assumed) =>
        let r : Sx := match nativeConcat (fun _ => (none : Option Unit)) false ps with
          | .none => .atom "none"
          | .value (.obj i _) => .list [.atom "value", Sx.ofNat i]
          | .value (.str s) => .list [.atom "parse", .str s]
          | .text raw => .list [.atom "parse", .str raw]
          | .literal _ => .atom "bad"
        .list [.atom "ok", .list (ps.map encVal), r, .list (assumed.map Sx.str)]
      | none => Sx.oom
    | .syntaxError _ _ _ => .list [.atom "syntax-error"]
    | .fuel _ => Sx.oom
  | _, _, _, _, _ => Sx.bad

def handle : List Sx → Sx
  | [cfg, src, .list vars, .list conds] => run cfg src vars conds []
  | [cfg, src, .list vars, .list conds, .list consts] => run cfg src vars conds consts
  | _ => Sx.bad

/-- request names served by this module (collected into `JinjaV.Wire.All` by tools/gen_wire_all.py) -/
def handlers : List (String × (List Sx → Sx)) :=
  [("native-tpl", handle)]

end JinjaV.Wire.NativeTpl
