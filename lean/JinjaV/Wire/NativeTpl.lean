import JinjaV.Model.Sx
import JinjaV.Model.NativeTpl
import JinjaV.Wire.Lex
import JinjaV.Wire.Native
namespace JinjaV.Wire.NativeTpl
open JinjaV JinjaV.Native JinjaV.NativeTpl

def decVar : Sx → Option (Lex.Str × Option Val)
  | .list [n, v] => do pure ((← n.toStr?).toList, some (← JinjaV.Wire.Native.decVal v))
  | _ => none

def decCond : Sx → Option (Lex.Str × Bool)
  | .list [n, b] => do pure ((← n.toStr?).toList, ← b.toBool?)
  | _ => none

def encVal : Val → Sx
  | .str s => .list [.atom "str", .str s]
  | .obj i _ => .list [.atom "obj", Sx.ofNat i]

/-- `(native-tpl cfg "source" ((name val)…) ((name bool)…))` → `(ok (piece…) result)` | `(oom)` | `(syntax-error)`;
    `result` as for `native`: `none` | `(value id)` | `(parse "text")`.
    The pieces are the DOCUMENTED ones: the lexer model's data tokens are never empty and an empty data token is
    skipped by the parser (`guard = true`), whatever `Gen/NativeGuards.lean` reads from the changed source. -/
def handle : List Sx → Sx
  | [cfg, src, .list vars, .list conds] =>
    match JinjaV.Wire.Lex.decCfg cfg, src.toStr?, Sx.mapM? decVar vars, Sx.mapM? decCond conds with
    | some cfg, some src, some vars, some conds =>
      if !cfg.Valid then Sx.oom else
      match JinjaV.Lex.tokeniter cfg src.toList with
      | .ok toks =>
        match pieces true (wrap toks) vars conds with
        | some ps =>
          let r : Sx := match nativeConcat (fun _ => (none : Option Unit)) false ps with
            | .none => .atom "none"
            | .value (.obj i _) => .list [.atom "value", Sx.ofNat i]
            | .value (.str s) => .list [.atom "parse", .str s]
            | .text raw => .list [.atom "parse", .str raw]
            | .literal _ => .atom "bad"
          .list [.atom "ok", .list (ps.map encVal), r]
        | none => Sx.oom
      | .syntaxError _ _ _ => .list [.atom "syntax-error"]
      | .fuel _ => Sx.oom
    | _, _, _, _ => Sx.bad
  | _ => Sx.bad

/-- request names served by this module (collected into `JinjaV.Wire.All` by tools/gen_wire_all.py) -/
def handlers : List (String × (List Sx → Sx)) :=
  [("native-tpl", handle)]

end JinjaV.Wire.NativeTpl
