import JinjaV.Model.Sx
import JinjaV.Model.BcCache
import JinjaV.Spec.BcCache
namespace JinjaV.Wire.BcCache
open JinjaV JinjaV.BcCache JinjaV.Gen.BcCacheSites JinjaV.SpecBcCache

def encExc (e : Exc) : List Sx := e.map .str

def encBytes (b : Bytes) : Sx := Sx.ofNats b

def decBytes : Sx → Option Bytes
  | .list xs => Sx.mapM? Sx.toNat? xs
  | _ => none

/-- `(ok id)` | `(raise "Cls" …)` | `(none)` (decoder not reached) -/
def decOutcome : Sx → Option (Option (Dec Nat))
  | .list [.atom "ok", v] => do pure (some (.ok (← v.toNat?) []))
  | .list (.atom "raise" :: cs) => do pure (some (.raise (← Sx.mapM? Sx.toStr? cs)))
  | .list [.atom "none"] => some none
  | _ => none

def decKind : Sx → Option Kind
  | .atom "intact" => some .intact
  | .atom "truncated" => some .truncated
  | .atom "foreign-magic" => some .foreignMagic
  | .atom "stale" => some .stale
  | .atom "other-source" => some .otherSource
  | .atom "corrupted" => some .corrupted
  | _ => none

def encRes : Res Nat → Sx
  | .miss => .list [.atom "miss"]
  | .hit c => .list [.atom "hit", Sx.ofNat c]
  | .raises e => .list (.atom "raises" :: encExc e)

def encVerdict : Verdict → Sx
  | .ok => .atom "ok"
  | .violated => .atom "violated"
  | .unjudged => .atom "unjudged"

def inContract (set : List String) : Option (Dec Nat) → Bool
  | some (.raise e) => inSet set e && decide (∀ c ∈ set, c ∈ e → ∀ x ∈ mroOf c, x ∈ e)
  | _ => true

/-- `(bc-load kind magic head ck pickleOutcome marshalOutcome storedCode)`: `Bucket.load_bytecode` of the model with the
    handlers read from the source, on a byte string beginning with `head`, the decoders answering as measured →
    `(ok result verdict)`; verdict is the Spec's judgement of the model's result -/
def handleLoad : List Sx → Sx
  | [kind, magic, head, ck, po, mo, stored] =>
    match decKind kind, decBytes magic, decBytes head, ck.toNat?, decOutcome po, decOutcome mo, stored.toNat? with
    | some kind, some magic, some head, some ck, some po, some mo, some stored =>
      let pl : Bytes → Dec Nat := fun _ => po.getD (.raise ["NotReached"])
      let ml : Bytes → Dec Nat := fun _ => mo.getD (.raise ["NotReached"])
      let r := loadBytecode (genCfg magic) pl ml ck head
      let outcome : Nat := match r with
        | .miss => 0
        | .hit c => if c = stored then 1 else 2
        | .raises _ => 3
      let inC := inContract pickleExc po && inContract marshalExc mo
      Sx.ok (.list [encRes r, encVerdict (entryVerdict kind outcome inC), Sx.ofBool inC])
    | _, _, _, _, _, _, _ => Sx.bad
  | _ => Sx.bad

def decDir : Sx → Option Dir
  | .list xs => Sx.mapM? (fun x => match x with
      | .list [n, b] => do pure ((← n.toStr?), (← decBytes b))
      | _ => none) xs
  | _ => none

def encDir (d : Dir) : Sx := .list (d.map fun (n, b) => .list [.str n, encBytes b])

def decChunks : Sx → Option (List Bytes)
  | .list xs => Sx.mapM? decBytes xs
  | _ => none

/-- `(bc-crash k name rnd dir chunks)` → `(ok (dir' tmpName numberOfOperations))`: the directory after the first k
    operations of dump_bytecode (as read from the source) -/
def handleCrash : List Sx → Sx
  | [k, name, rnd, dir, chunks] =>
    match k.toNat?, name.toStr?, rnd.toStr?, decDir dir, decChunks chunks with
    | some k, some name, some rnd, some dir, some chunks =>
      let tmp := tmpName name rnd (tmpSuffix dumpSteps)
      let ops := expand chunks dumpSteps
      Sx.ok (.list [encDir (runOps tmp name dir (ops.take k)), .str tmp, Sx.ofNat ops.length])
    | _, _, _, _, _ => Sx.bad
  | _ => Sx.bad

def decFault : Sx → Option Fault
  | .list [.atom "none"] => some .none
  | .list (.atom "create" :: cs) => (Sx.mapM? Sx.toStr? cs).map .atCreate
  | .list (.atom "write" :: k :: cs) => do pure (.atWrite (← k.toNat?) (← Sx.mapM? Sx.toStr? cs))
  | .list (.atom "replace" :: cs) => (Sx.mapM? Sx.toStr? cs).map .atReplace
  | _ => none

/-- `(bc-fault fault name rnd dir chunks)` → `(ok (dir' tmpName (none)|(raise …)))`: dump_bytecode with an exception
    injected, handlers as read from the source -/
def handleFault : List Sx → Sx
  | [f, name, rnd, dir, chunks] =>
    match decFault f, name.toStr?, rnd.toStr?, decDir dir, decChunks chunks with
    | some f, some name, some rnd, some dir, some chunks =>
      let tmp := tmpName name rnd (tmpSuffix dumpSteps)
      let r := dumpRun tmp name chunks f dumpSteps dir
      Sx.ok (.list [encDir r.1, .str tmp, match r.2 with
        | none => .list [.atom "none"]
        | some e => .list (.atom "raise" :: encExc e)])
    | _, _, _, _, _ => Sx.bad
  | _ => Sx.bad

def decClient : Sx → Option Client
  | .atom "ok" => some .ok
  | .atom "getfails" => some .getFails
  | .atom "setfails" => some .setFails
  | .list [.atom "truncates", k] => k.toNat?.map .truncates
  | _ => none

/-- `none` = the harness-only operation `newenv` (a new Environment on the same cache: no state in the model) -/
def decXOp : Sx → Option (Option (XOp Nat Nat))
  | .list [.atom "load", c, n] => do pure (some (.base (.load (← c.toNat?) (← n.toNat?))))
  | .list [.atom "modify", n, v] => do pure (some (.base (.modify (← n.toNat?) (← v.toNat?))))
  | .list [.atom "clear"] => some (some (.base .clear))
  | .list [.atom "drop", n] => do pure (some (.base (.drop (← n.toNat?))))
  | .list [.atom "truncate", n, k] => do pure (some (.truncate (← n.toNat?) (← k.toNat?)))
  | .list [.atom "mcload", c, n, ig, cl] => do pure (some (.mcLoad (← c.toNat?) (← n.toNat?) (← ig.toBool?) (← decClient cl)))
  | .list [.atom "newenv"] => some none
  | _ => none

def encOut : Out Nat → Sx
  | .none => .list [.atom "none"]
  | .served c => .list [.atom "served", Sx.ofNat c]
  | .raised e => .list (.atom "raised" :: encExc e)

/-- configuration c compiles source version v to the code `100*c + v` -/
def compile (c v : Nat) : Nat := 100 * c + v

/-- the Spec's expectation for one operation: a load executes compile(loading configuration, current source) -/
def specOf (src : Nat → Nat) : XOp Nat Nat → Sx
  | .base (.load c n) => encOut (.served (compile c (src n)))
  | .mcLoad c n _ _ => encOut (.served (compile c (src n)))
  | _ => encOut .none

def runHist (s : Sys Nat) : List (Option (XOp Nat Nat)) → List Sx
  | [] => []
  | none :: ops => .list [encOut .none, encOut .none] :: runHist s ops
  | some op :: ops =>
    let r := Sys.stepX (genCfg exCodec.magic) exCodec compile (mcCaught "client.get") (mcCaught "client.set") s op
    .list [encOut r.2, specOf s.src op] :: runHist r.1 ops

/-- `(bc-history initialVersion (op …))` → `(ok ((modelOut specOut) …))` over the small concrete codec -/
def handleHistory : List Sx → Sx
  | [v0, .list ops] =>
    match v0.toNat?, Sx.mapM? decXOp ops with
    | some v0, some ops => Sx.ok (.list (runHist { src := fun _ => v0, cache := fun _ => none } ops))
    | _, _ => Sx.bad
  | _ => Sx.bad

/-- `(bc-sites)` → what the theorems read: per decoder call whether it is guarded, and the class table -/
def handleSites : List Sx → Sx
  | _ => Sx.ok (.list [
      .list (decoderSites.map fun s => .list [.str s.call, Sx.ofNat s.line, Sx.ofStrs s.caught,
        Sx.ofBool (covers s.caught (if s.call == "pickle.load" then pickleExc else marshalExc))]),
      .list ((pickleExc ++ marshalExc ++ ["UnicodeDecodeError", "OSError", "FileNotFoundError", "KeyboardInterrupt", "Exception"]).map
        fun c => .list [.str c, Sx.ofStrs (mroOf c)]),
      Sx.ofStrs pickleExc, Sx.ofStrs marshalExc, Sx.ofStrs fsOpenCaught,
      Sx.ofBool (tmpWellFormed dumpSteps), Sx.ofStrs keyInputs, Sx.ofStrs checksumInputs])

/-- `(bc-verdict kind outcome decodersInContract)` → the Spec's judgement of an observed outcome
    (0 miss, 1 hit with the stored code, 2 hit with something else, 3 raised) -/
def handleVerdict : List Sx → Sx
  | [kind, o, c] =>
    match decKind kind, o.toNat?, c.toBool? with
    | some kind, some o, some c => Sx.ok (encVerdict (entryVerdict kind o c))
    | _, _, _ => Sx.bad
  | _ => Sx.bad

/-- `(bc-open-fault "Cls" …)` → `(ok (miss))` | `(ok (raises …))`: `open` in FileSystemBytecodeCache.load_bytecode fails -/
def handleOpenFault : List Sx → Sx
  | cs => match Sx.mapM? Sx.toStr? cs with
    | some e => Sx.ok (encRes (fsOpenFails (Code := Nat) fsOpenCaught e))
    | none => Sx.bad

/-- `(bc-escapes)` → OSError classes that would escape from the rename step / from `open` in load_bytecode, by the
    handlers read from the source (counterexample finders) -/
def handleEscapes : List Sx → Sx
  | _ => Sx.ok (.list [
      Sx.ofStrs (osErrorClasses.filter (fun c => (dumpRun "t" "e" [] (.atReplace (mroOf c)) dumpSteps []).2.isSome)),
      Sx.ofStrs (osErrorClasses.filter (fun c => fsOpenFails (Code := Nat) fsOpenCaught (mroOf c) != .miss)),
      .list (osErrorClasses.map fun c => .list [.str c, Sx.ofStrs (mroOf c)])])

def handlers : List (String × (List Sx → Sx)) :=
  [("bc-load", handleLoad), ("bc-crash", handleCrash), ("bc-fault", handleFault), ("bc-history", handleHistory), ("bc-verdict", handleVerdict),
   ("bc-sites", handleSites), ("bc-open-fault", handleOpenFault),
   ("bc-escapes", handleEscapes)]

end JinjaV.Wire.BcCache
