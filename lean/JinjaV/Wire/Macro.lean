import JinjaV.Model.Sx
import JinjaV.Model.Macro
import JinjaV.Spec.Macro
namespace JinjaV.Wire.Macro
open JinjaV JinjaV.Macro

def encKw (kw : Kw) : Sx := .list (kw.map fun (k, v) => .list [.str k, Sx.ofInt v])

def encArg : Arg → Sx
  | .val v => .list [.atom "val", Sx.ofInt v]
  | .missing => .atom "missing"
  | .undefCaller => .atom "undefCaller"
  | .kwargs kv => .list [.atom "kwargs", encKw kv]
  | .varargs vs => .list [.atom "varargs", Sx.ofInts vs]

def encRes : Res → Sx
  | .ok as => .list [.atom "ok", .list (as.map encArg)]
  | .typeErrorKw b => .list [.atom "typeErrorKw", Sx.ofBool b]
  | .typeErrorPos => .atom "typeErrorPos"

def decKV : Sx → Option (String × V)
  | .list [k, v] => do pure (← k.toStr?, ← v.toInt?)
  | _ => none

/-- `(macro (param…) catchKw catchVar caller (arg…) ((k v)…))` → `(ok (model spec))` -/
def handle : List Sx → Sx
  | [.list ps, ck, cv, c, .list as, .list kw] =>
    match Sx.mapM? Sx.toStr? ps, ck.toBool?, cv.toBool?, c.toBool?, Sx.mapM? Sx.toInt? as, Sx.mapM? decKV kw with
    | some ps, some ck, some cv, some c, some as, some kw =>
      if !(ps.eraseDups.length == ps.length) || !((kw.map Prod.fst).eraseDups.length == kw.length) then Sx.oom
      else
        let s : Sig := { params := ps, catchKwargs := ck, catchVarargs := cv, caller := c }
        Sx.ok (.list [encRes (call s as kw), encRes (SpecMacro.bind s as kw)])
    | _, _, _, _, _, _ => Sx.bad
  | _ => Sx.bad
/-- request names served by this module (collected into `JinjaV.Wire.All` by tools/gen_wire_all.py) -/
def handlers : List (String × (List Sx → Sx)) :=
  [("macro", handle)]

end JinjaV.Wire.Macro
