import JinjaV.Model.Sx
import JinjaV.Spec.Trim
import JinjaV.Wire.Lex
namespace JinjaV.Wire.Trim
open JinjaV JinjaV.Trim

def decSign : Sx → Option Sign
  | .atom "n" => some .none
  | .atom "m" => some .minus
  | .atom "p" => some .plus
  | _ => none

def decSeg : Sx → Option Seg
  | .list [.atom "text", s] => do pure (.text (← s.toStr?).toList)
  | .list [.atom "tag", .atom k, l, r, i] => do
    let kind ← match k with | "block" => some TagKind.block | "comment" => some .comment | "variable" => some .variable | _ => none
    pure (.tag kind (← decSign l) (← decSign r) (← i.toStr?).toList)
  | .list [.atom "raw", l1, m, body, l2, r2] => do
    pure (.raw (← decSign l1) (← m.toBool?) (← body.toStr?).toList (← decSign l2) (← decSign r2))
  | _ => none

def encPiece : Piece → Sx
  | .data s => .list [.atom "data", .str (String.ofList s)]
  | .value i => .list [.atom "value", .str (String.ofList i)]

/-- `(trim cfg (seg…))` → `(ok "source" (piece…))` -/
def handle : List Sx → Sx
  | [cfg, .list segs] =>
    match JinjaV.Wire.Lex.decCfg cfg, Sx.mapM? decSeg segs with
    | some cfg, some segs =>
      if !cfg.Valid then Sx.oom else
      let segs := mergeTexts segs
      .list [.atom "ok", .str (String.ofList (unparse cfg segs)), .list ((documented cfg segs).map encPiece)]
    | _, _ => Sx.bad
  | _ => Sx.bad
/-- request names served by this module (collected into `JinjaV.Wire.All` by tools/gen_wire_all.py) -/
def handlers : List (String × (List Sx → Sx)) :=
  [("trim", handle)]

end JinjaV.Wire.Trim
