import JinjaV.Model.Sx
import JinjaV.Model.GenTree
/-
  Wire for the GenTree model (C36).

    body  ::= (stmt …)
    stmt  ::= (y) | (a) | (o b|r "label" body body) | (d "label" body)
              o = open: b bracketed / r bare (raw); first body = the child generator, second = loop body

    (gentree-run body (bool …))  → (ok (nOpened (leaked ids…) outcome points))
    (gentree-check body)         → (ok (allBracketed bareCount ("label of bare site" …)))
-/
namespace JinjaV.Wire.GenTree
open JinjaV JinjaV.GenTree

mutual
partial def decBody (xs : List Sx) : Option G :=
  match xs with
  | [] => some .nil
  | x :: rest => do
    let k ← decBody rest
    match x with
    | .list [.atom "y"] => pure (.yld k)
    | .list [.atom "a"] => pure (.awt k)
    | .list [.atom "o", .atom br, .str _, .list ch, .list bo] =>
      let b ← (if br == "b" then some Br.bracketed else if br == "r" then some Br.bare else none)
      pure (.opn b (← decBody ch) (← decBody bo) k)
    | .list [.atom "d", .str _, .list ch] => pure (.drain (← decBody ch) k)
    | _ => none
end

partial def bareLabels (xs : List Sx) : List String :=
  xs.flatMap fun x =>
    match x with
    | .list [.atom "o", .atom br, .str l, .list ch, .list bo] =>
      (if br == "r" then [l] else []) ++ bareLabels ch ++ bareLabels bo
    | .list [.atom "d", .str _, .list ch] => bareLabels ch
    | _ => []

def outName : Out → String
  | .done => "done" | .raised => "raised" | .exited _ => "exited" | .abandoned _ => "abandoned"

def handleRun : List Sx → Sx
  | [.list body, .list adv] =>
    match decBody body, Sx.mapM? Sx.toBool? adv with
    | some g, some adv =>
      let r := run g adv
      Sx.ok (.list [Sx.ofNat r.1.nOpened, Sx.ofNats (leaked r.1), .atom (outName r.2), Sx.ofNat r.1.points])
    | _, _ => Sx.bad
  | _ => Sx.bad

def handleCheck : List Sx → Sx
  | [.list body] =>
    match decBody body with
    | some g => Sx.ok (.list [Sx.ofBool (allBracketed g), Sx.ofNat (bareCount g), Sx.ofStrs (bareLabels body)])
    | none => Sx.bad
  | _ => Sx.bad

def handlers : List (String × (List Sx → Sx)) :=
  [("gentree-run", handleRun), ("gentree-check", handleCheck)]

end JinjaV.Wire.GenTree
