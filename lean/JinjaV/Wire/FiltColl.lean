import JinjaV.Model.Sx
import JinjaV.Model.FiltColl
namespace JinjaV.Wire.FiltColl
open JinjaV JinjaV.FiltColl

abbrev Item := String × Nat

def decItem : Sx → Option Item
  | .list [k, i] => do pure (← k.toStr?, ← i.toNat?)
  | _ => none

def decFill : Sx → Option (Option Int)
  | .atom "none" => some none
  | x => x.toInt?.map some

def keyOf (cs : Bool) (it : Item) : String := if cs then it.1 else it.1.toLower
def leStr (a b : String) : Bool := !(b < a)

def encLL (l : List (List Int)) : Sx := .list (l.map Sx.ofInts)
def ids (l : List Item) : Sx := Sx.ofNats (l.map Prod.snd)

def handle : List Sx → Sx
  | [.atom "slice", .list xs, n, fill] =>
    match Sx.mapM? Sx.toInt? xs, n.toNat?, decFill fill with
    | some xs, some n, some f => if n = 0 then Sx.err "zero" else Sx.ok (encLL (sliceF xs n f))
    | _, _, _ => Sx.bad
  | [.atom "batch", .list xs, n, fill] =>
    match Sx.mapM? Sx.toInt? xs, n.toNat?, decFill fill with
    | some xs, some n, some f => if n = 0 then Sx.oom else Sx.ok (encLL (batchF xs n f))
    | _, _, _ => Sx.bad
  | [.atom "unique", .list xs, cs] =>
    match Sx.mapM? decItem xs, cs.toBool? with
    | some xs, some cs => Sx.ok (ids (uniqueF (keyOf cs) xs))
    | _, _ => Sx.bad
  | [.atom "sort", .list xs, rev, cs] =>
    match Sx.mapM? decItem xs, rev.toBool?, cs.toBool? with
    | some xs, some rev, some cs => Sx.ok (ids (sortF (keyOf cs) leStr rev xs))
    | _, _, _ => Sx.bad
  | [.atom "groupby", .list xs, cs] =>
    match Sx.mapM? decItem xs, cs.toBool? with
    | some xs, some cs => Sx.ok (.list ((groupbyF (keyOf cs) leStr xs).map fun (_, g) => ids g))
    | _, _ => Sx.bad
  | [.atom "min", .list xs, cs] =>
    match Sx.mapM? decItem xs, cs.toBool? with
    | some xs, some cs => Sx.ok (match minF (keyOf cs) leStr xs with | some r => Sx.ofNat r.2 | none => .atom "none")
    | _, _ => Sx.bad
  | [.atom "max", .list xs, cs] =>
    match Sx.mapM? decItem xs, cs.toBool? with
    | some xs, some cs => Sx.ok (match maxF (keyOf cs) leStr xs with | some r => Sx.ofNat r.2 | none => .atom "none")
    | _, _ => Sx.bad
  | [.atom "sum", .list xs, start] =>
    match Sx.mapM? Sx.toInt? xs, start.toInt? with
    | some xs, some s => Sx.ok (Sx.ofInt (sumF xs s))
    | _, _ => Sx.bad
  | _ => Sx.bad
/-! attribute paths: `(attr <op> <undefined kind> <default> <attribute> <items> <extra>…)` -/

partial def decVal : Sx → Option Val
  | .list [.atom "i", n] => n.toInt?.map Val.int
  | .list [.atom "s", .str s] => some (.str s)
  | .list [.atom "n"] => some .none
  | .list (.atom "d" :: kvs) => (Sx.mapM? decKV kvs).map Val.dict
  | .list (.atom "o" :: kvs) => (Sx.mapM? decKV kvs).map Val.obj
  | .list (.atom "l" :: xs) => (Sx.mapM? decVal xs).map Val.list
  | _ => none
where decKV : Sx → Option (String × Val)
  | .list [.str k, v] => (decVal v).map fun w => (k, w)
  | _ => none

partial def encVal : Val → Sx
  | .int n => .list [.atom "i", Sx.ofInt n]
  | .str s => .list [.atom "s", .str s]
  | .none => .list [.atom "n"]
  | .dict kvs => .list (.atom "d" :: kvs.map fun (k, v) => .list [.str k, encVal v])
  | .obj kvs => .list (.atom "o" :: kvs.map fun (k, v) => .list [.str k, encVal v])
  | .list xs => .list (.atom "l" :: xs.map encVal)

def encRes : Res → Sx
  | .val v => .list [.atom "val", encVal v]
  | .undef => .atom "undef"
  | .err => .atom "err"

def encPart : Part → Sx
  | .name s => .list [.atom "name", .str s]
  | .idx n => .list [.atom "idx", Sx.ofNat n]

def decDefault : Sx → Option (Option Val)
  | .atom "nodefault" => some none
  | x => (decVal x).map some

/-- the attribute argument: a string (dotted path), an integer, or None -/
def decAttr : Sx → Option (List Part)
  | .list [.atom "s", .str a] => some (prepareParts a)
  | .list [.atom "i", n] => n.toNat?.map fun k => [Part.idx k]
  | .atom "none" => some []
  | _ => none

/-- `make_multi_attrgetter`: comma separated paths -/
def decMultiAttr : Sx → Option (List (List Part))
  | .list [.atom "s", .str a] => some ((a.splitOn ",").map prepareParts)
  | .list [.atom "i", n] => n.toNat?.map fun k => [[Part.idx k]]
  | .atom "none" => some [[]]
  | _ => none

def decUm : Sx → Option (Bool × Bool)      -- (chain, strict)
  | .atom "default" => some (false, false)
  | .atom "chainable" => some (true, false)
  | .atom "strict" => some (false, true)
  | _ => none

def encOut {α : Type} (f : α → Sx) : Out α → Sx
  | .ok a => Sx.ok (f a)
  | .raised => Sx.err "raised"
  | .oom => Sx.oom

def encOptNat : Option Nat → Sx
  | some n => Sx.ofNat n
  | none => .atom "none"

def handleAttr : List Sx → Sx
  | [.atom "parts", a] =>
    match decMultiAttr a with
    | some cols => Sx.ok (.list (cols.map fun c => .list (c.map encPart)))
    | none => Sx.bad
  | .atom op :: um :: d :: a :: .list items :: extra =>
    match decUm um, decDefault d, Sx.mapM? decVal items with
    | some (chain, strict), some d, some items =>
      match op, decAttr a, extra with
      | "get", some ps, [post] =>
        match post.toBool? with
        | some post => Sx.ok (.list (items.map fun it => encRes (attrget chain d post ps it)))
        | none => Sx.bad
      | "map", some ps, [] => encOut (fun rs => .list (rs.map encRes)) (mapAttr chain d ps items)
      | "groupby", some ps, [cs] =>
        match cs.toBool? with
        | some cs => encOut (fun gs => .list (gs.map fun g =>
            .list [match g.head? with
                   | some i => encRes (attrget chain d false ps (items.getD i .none))
                   | none => .atom "undef", Sx.ofNats g])) (groupbyAttr chain d (!cs) ps items)
        | none => Sx.bad
      | "unique", some ps, [cs] =>
        match cs.toBool? with
        | some cs => encOut Sx.ofNats (uniqueAttr chain (!cs) ps items)
        | none => Sx.bad
      | "sort", _, [cs, rev] =>
        match decMultiAttr a, cs.toBool?, rev.toBool? with
        | some cols, some cs, some rev => encOut Sx.ofNats (sortMultiAttr chain (!cs) rev cols items)
        | _, _, _ => Sx.bad
      | "min", some ps, [cs] =>
        match cs.toBool? with
        | some cs => encOut encOptNat (minAttr chain (!cs) ps items)
        | none => Sx.bad
      | "max", some ps, [cs] =>
        match cs.toBool? with
        | some cs => encOut encOptNat (maxAttr chain (!cs) ps items)
        | none => Sx.bad
      | "sum", some ps, [start] =>
        match start.toInt? with
        | some st => encOut Sx.ofInt (sumAttr chain ps st items)
        | none => Sx.bad
      | "join", some ps, [.str sep] => encOut Sx.str (joinAttr chain strict ps sep items)
      | "selectattr", some ps, [] => encOut Sx.ofNats (selectAttr chain strict true ps items)
      | "rejectattr", some ps, [] => encOut Sx.ofNats (selectAttr chain strict false ps items)
      | _, _, _ => Sx.bad
    | _, _, _ => Sx.bad
  | _ => Sx.bad

/-- request names served by this module (collected into `JinjaV.Wire.All` by tools/gen_wire_all.py) -/
def handlers : List (String × (List Sx → Sx)) :=
  [("filt", handle), ("attr", handleAttr)]

end JinjaV.Wire.FiltColl
