import JinjaV.Model.Sx
import JinjaV.Model.FiltColl
namespace JinjaV.Wire.FiltColl
open JinjaV JinjaV.FiltColl

abbrev Item := String × Nat

def decItem : Sx → Option Item
  | .list [k, i] => do pure (← k.toStr?, ← i.toNat?)
  | _ => none

def decFill : Sx → Option (Option Int)
  | .atom "none" => some none
  | x => x.toInt?.map some

def keyOf (cs : Bool) (it : Item) : String := if cs then it.1 else it.1.toLower
def leStr (a b : String) : Bool := !(b < a)

def encLL (l : List (List Int)) : Sx := .list (l.map Sx.ofInts)
def ids (l : List Item) : Sx := Sx.ofNats (l.map Prod.snd)

def handle : List Sx → Sx
  | [.atom "slice", .list xs, n, fill] =>
    match Sx.mapM? Sx.toInt? xs, n.toNat?, decFill fill with
    | some xs, some n, some f => if n = 0 then Sx.err "zero" else Sx.ok (encLL (sliceF xs n f))
    | _, _, _ => Sx.bad
  | [.atom "batch", .list xs, n, fill] =>
    match Sx.mapM? Sx.toInt? xs, n.toNat?, decFill fill with
    | some xs, some n, some f => if n = 0 then Sx.oom else Sx.ok (encLL (batchF xs n f))
    | _, _, _ => Sx.bad
  | [.atom "unique", .list xs, cs] =>
    match Sx.mapM? decItem xs, cs.toBool? with
    | some xs, some cs => Sx.ok (ids (uniqueF (keyOf cs) xs))
    | _, _ => Sx.bad
  | [.atom "sort", .list xs, rev, cs] =>
    match Sx.mapM? decItem xs, rev.toBool?, cs.toBool? with
    | some xs, some rev, some cs => Sx.ok (ids (sortF (keyOf cs) leStr rev xs))
    | _, _, _ => Sx.bad
  | [.atom "groupby", .list xs, cs] =>
    match Sx.mapM? decItem xs, cs.toBool? with
    | some xs, some cs => Sx.ok (.list ((groupbyF (keyOf cs) leStr xs).map fun (_, g) => ids g))
    | _, _ => Sx.bad
  | [.atom "min", .list xs, cs] =>
    match Sx.mapM? decItem xs, cs.toBool? with
    | some xs, some cs => Sx.ok (match minF (keyOf cs) leStr xs with | some r => Sx.ofNat r.2 | none => .atom "none")
    | _, _ => Sx.bad
  | [.atom "max", .list xs, cs] =>
    match Sx.mapM? decItem xs, cs.toBool? with
    | some xs, some cs => Sx.ok (match maxF (keyOf cs) leStr xs with | some r => Sx.ofNat r.2 | none => .atom "none")
    | _, _ => Sx.bad
  | [.atom "sum", .list xs, start] =>
    match Sx.mapM? Sx.toInt? xs, start.toInt? with
    | some xs, some s => Sx.ok (Sx.ofInt (sumF xs s))
    | _, _ => Sx.bad
  | _ => Sx.bad
/-- request names served by this module (collected into `JinjaV.Wire.All` by tools/gen_wire_all.py) -/
def handlers : List (String × (List Sx → Sx)) :=
  [("filt", handle)]

end JinjaV.Wire.FiltColl
