import JinjaV.Model.Sx
import JinjaV.Spec.Trim
import JinjaV.Wire.Lex
import JinjaV.Wire.Trim
/-
  `trim-env`: what a skeleton renders to under *all* the whitespace options of an environment, from the documented
  rules only (Spec/Trim.lean for `-`/`+`/trim_blocks/lstrip_blocks; docs/api.rst for the other two):

    * keep_trailing_newline = False: "a single newline, if present, [is] stripped from the end of the template";
    * newline_sequence: "the sequence that starts a newline" — every line break of the template text that reaches
      the output is written as this sequence.

  Used by the environment-construction checks of C12/C13 (harness/envways.py): the same skeleton is rendered by
  environments built in different ways; this is the value all of them must produce.
-/
namespace JinjaV.Wire.EnvWays
open JinjaV JinjaV.Trim
open JinjaV.Lex (Str)

/-- the template without its final line break (the last segment is a text after `mergeTexts`) -/
def dropFinalNl : List Seg → List Seg
  | [] => []
  | [.text t] => [.text (if t.getLast? == some '\n' then t.dropLast else t)]
  | s :: rest => s :: dropFinalNl rest

/-- a variable tag of a skeleton holds a string literal `'V…'`: its value is the text between the quotes -/
def valueOf (i : Str) : Str := i.filter (· != '\'')

def renderNl (nl : Str) (ps : List Piece) : Str :=
  (ps.map fun p => match p with
    | .data s => JinjaV.Wire.Lex.convertNl nl s
    | .value i => valueOf i).flatten

/-- `(trim-env cfg "newline_sequence" (seg…))` → `(ok "source" "rendered")` | `(oom)` -/
def handle : List Sx → Sx
  | [cfg, nl, .list segs] =>
    match JinjaV.Wire.Lex.decCfg cfg, nl.toStr?, Sx.mapM? JinjaV.Wire.Trim.decSeg segs with
    | some cfg, some nl, some segs =>
      if !cfg.Valid || !(nl == "\n" || nl == "\r\n" || nl == "\r") then Sx.oom else
      let segs := mergeTexts segs
      let norm := segs.map normSeg
      let eff := if cfg.keepTrailingNl then norm else dropFinalNl norm
      .list [.atom "ok", .str (String.ofList (unparse cfg segs)),
             .str (String.ofList (renderNl nl.toList (trimSpec cfg eff .nothing true)))]
    | _, _, _ => Sx.bad
  | _ => Sx.bad

/-- request names served by this module (collected into `JinjaV.Wire.All` by tools/gen_wire_all.py) -/
def handlers : List (String × (List Sx → Sx)) :=
  [("trim-env", handle)]

end JinjaV.Wire.EnvWays
