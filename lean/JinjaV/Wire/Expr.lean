import JinjaV.Model.Sx
import JinjaV.Model.Expr
import JinjaV.Spec.ExprSyntax
import JinjaV.Gen.ExprTables
namespace JinjaV.Wire.Expr
open JinjaV JinjaV.Expr

partial def decVal : Sx → Option Val
  | .atom "none" => some .none
  | .atom "true" => some (.bool true)
  | .atom "false" => some (.bool false)
  | .atom a => a.toInt?.map .int
  | .list [.atom "s", .str s] => some (.str s)
  | .list [.atom "m", .str s] => some (.markup s)
  | .list (.atom "l" :: xs) => (Sx.mapM? decVal xs).map .list
  | .list (.atom "t" :: xs) => (Sx.mapM? decVal xs).map .tuple
  | .list (.atom "d" :: kvs) =>
    (Sx.mapM? (fun p => match p with
      | .list [k, v] => do pure ((← decVal k), (← decVal v))
      | _ => none) kvs).map .dict
  | .list [.atom "u"] => some (.undef "")
  | .list [.atom "o", n] => n.toNat?.map .obj
  | .list [.atom "f", n] => n.toNat?.map .fn
  | _ => none

partial def encVal : Val → Sx
  | .none => .atom "none"
  | .bool b => Sx.ofBool b
  | .int i => Sx.ofInt i
  | .str s => .list [.atom "s", .str s]
  | .markup s => .list [.atom "m", .str s]
  | .list xs => .list (.atom "l" :: xs.map encVal)
  | .tuple xs => .list (.atom "t" :: xs.map encVal)
  | .dict kvs => .list (.atom "d" :: kvs.map fun (k, v) => .list [encVal k, encVal v])
  | .undef _ => .list [.atom "u"]
  | .obj n => .list [.atom "o", Sx.ofNat n]
  | .fn n => .list [.atom "f", Sx.ofNat n]

def decBin : String → Option BinOp
  | "+" => some .add | "-" => some .sub | "*" => some .mul | "/" => some .div | "//" => some .floordiv
  | "%" => some .mod | "**" => some .pow | _ => none
def decUn : String → Option UnOp
  | "-" => some .neg | "+" => some .pos | _ => none
def decCmp : String → Option CmpOp
  | "eq" => some .eq | "ne" => some .ne | "lt" => some .lt | "lteq" => some .le | "gt" => some .gt | "gteq" => some .ge
  | "in" => some .in_ | "notin" => some .notin | _ => none

def atomOrStr : Sx → Option String
  | .atom a => some a
  | .str s => some s
  | _ => none

partial def decExpr : Sx → Option Expr
  | .list [.atom "c", v] => (decVal v).map .const
  | .list [.atom "n", .str x] => some (.name x)
  | .list (.atom "tuple" :: es) => (Sx.mapM? decExpr es).map .tuple
  | .list (.atom "list" :: es) => (Sx.mapM? decExpr es).map .list
  | .list (.atom "dict" :: kvs) =>
    (Sx.mapM? (fun p => match p with
      | .list [k, v] => do pure ((← decExpr k), (← decExpr v))
      | _ => none) kvs).map .dict
  | .list [.atom "cond", t, a] => do pure (.cond (← decExpr t) (← decExpr a) none)
  | .list [.atom "cond", t, a, b] => do pure (.cond (← decExpr t) (← decExpr a) (some (← decExpr b)))
  | .list [.atom "and", a, b] => do pure (.and_ (← decExpr a) (← decExpr b))
  | .list [.atom "or", a, b] => do pure (.or_ (← decExpr a) (← decExpr b))
  | .list [.atom "not", a] => do pure (.not_ (← decExpr a))
  | .list (.atom "cmp" :: e :: ops) => do
    let e ← decExpr e
    let ops ← Sx.mapM? (fun p => match p with
      | .list [op, x] => do pure ((← decCmp (← atomOrStr op)), (← decExpr x))
      | _ => none) ops
    pure (.compare e ops)
  | .list [.atom "bin", op, a, b] => do pure (.bin (← decBin (← atomOrStr op)) (← decExpr a) (← decExpr b))
  | .list (.atom "cat" :: es) => (Sx.mapM? decExpr es).map .concat
  | .list [.atom "un", op, a] => do pure (.un (← decUn (← atomOrStr op)) (← decExpr a))
  | .list [.atom "attr", e, .str a] => do pure (.getattr (← decExpr e) a)
  | .list [.atom "item", e, i] => do pure (.getitem (← decExpr e) (← decExpr i))
  | .list [.atom "slice", e, a, b, s] => do
    let o := fun (x : Sx) => match x with
      | .atom "_" => some none
      | x => (decExpr x).map some
    pure (.slice (← decExpr e) (← o a) (← o b) (← o s))
  | .list (.atom "call" :: f :: args) => do pure (.call (← decExpr f) (← Sx.mapM? decExpr args))
  | .list (.atom "filter" :: e :: .str name :: args) => do pure (.filter (← decExpr e) name (← Sx.mapM? decExpr args))
  | .list (.atom "test" :: e :: .str name :: args) => do pure (.test (← decExpr e) name (← Sx.mapM? decExpr args))
  | _ => none

def encErr : Err → Sx
  | .typeError => .atom "TypeError" | .undefinedError => .atom "UndefinedError" | .zeroDiv => .atom "ZeroDivisionError"
  | .valueError => .atom "ValueError" | .keyError => .atom "KeyError" | .overflow => .atom "OverflowError" | .oom => .atom "oom"

def binStr : BinOp → String := ExprSyntax.binSym
def encEv : Ev → Sx
  | .bin op l r => .list [.atom "bin", .str (binStr op), encVal l, encVal r]
  | .un op v => .list [.atom "un", .str (match op with | .neg => "-" | .pos => "+"), encVal v]

def perturb (r : Except Err Val) : Except Err Val :=
  match r with
  | .ok (.int i) => .ok (.int (i + 1000))
  | r => r

structure ObjRow where
  id : Nat
  attrs : List (String × Val)
  items : List (Val × Val)

def decObj : Sx → Option ObjRow
  | .list [n, .list attrs, .list items] => do
    let id ← n.toNat?
    let attrs ← Sx.mapM? (fun p => match p with
      | .list [.str a, v] => do pure (a, ← decVal v)
      | _ => none) attrs
    let items ← Sx.mapM? (fun p => match p with
      | .list [k, v] => do pure ((← decVal k), (← decVal v))
      | _ => none) items
    pure ⟨id, attrs, items⟩
  | _ => none

def mkCtx (vars : List (String × Val)) (objs : List ObjRow) (hook : String) : Ctx :=
  { vars := vars
    attrs := fun n a => match objs.find? (·.id == n) with
      | some o => (o.attrs.find? (·.1 == a)).map Prod.snd
      | none => none
    items := fun n k => match objs.find? (·.id == n) with
      | some o => if hashable k then (o.items.find? (fun p => pyEq p.1 k)).map Prod.snd else none
      | none => none
    fnApply := fun n args => match n with
      | 0 => .ok (.list args)
      | 1 => .ok (.int args.length)
      | _ => .error .typeError
    hookBin := fun op a b => if hook == "perturb" then perturb (pyBin op a b) else pyBin op a b
    hookUn := fun op a => if hook == "perturb" then perturb (pyUn op a) else pyUn op a }

def decCfg : Sx → Option CCfg
  | .list [ae, vol, sb, .list bins, .list uns, asy] => do
    pure { autoescape := ← ae.toBool?, volatile := ← vol.toBool?, sandboxed := ← sb.toBool?,
           icBin := ← Sx.mapM? (fun x => do decBin (← atomOrStr x)) bins,
           icUn := ← Sx.mapM? (fun x => do decUn (← atomOrStr x)) uns,
           isAsync := ← asy.toBool? }
  | _ => none

def encRes {α} (enc : α → Sx) (m : M α) : Sx :=
  .list [match m.2 with | .ok a => .list [.atom "ok", enc a] | .error e => .list [.atom "err", encErr e],
         .list (m.1.map encEv)]

def decVars : List Sx → Option (List (String × Val)) :=
  Sx.mapM? (fun p => match p with
    | .list [.str x, v] => do pure (x, ← decVal v)
    | _ => none)

/-- (expr-run cfg ae optimized hook (vars…) (objs…) expr) →
      (ok (ref <res> <log>) (comp <res> <log>) (value <res> <log>) (folded bool))
    ref = reference rendering of `{{ e }}`, comp = the modelled compile pipeline over the guards/tables read from the
    source, value = the expression's value (compile_expression) -/
def handleRun : List Sx → Sx
  | [cfg, ae, optimized, .atom hook, .list vars, .list objs, e] =>
    match decCfg cfg, ae.toBool?, optimized.toBool?, decVars vars, Sx.mapM? decObj objs, decExpr e with
    | some c, some ae, some optimized, some vars, some objs, some e =>
      let ctx := mkCtx vars objs hook
      let g := Gen.ExprTables.guards
      let t := Gen.ExprTables.tables
      let e' := if optimized && !(g.optSkipsVolatile && c.volatile) then opt g t c e else e
      Sx.ok (.list [
        .list [.atom "ref", encRes Sx.str (renderExpr c ae ctx e)],
        .list [.atom "comp", encRes Sx.str (compileRender g t c optimized ae ctx e)],
        .list [.atom "value", encRes encVal (eval c ae ctx e)],
        .list [.atom "folded", Sx.ofBool (outputConst g t c e').isSome]])
    | _, _, _, _, _, _ => Sx.bad
  | _ => Sx.bad

def handlePretty : List Sx → Sx
  | [e] => match decExpr e with
    | some e => Sx.ok (.str (ExprSyntax.pretty e))
    | none => Sx.bad
  | _ => Sx.bad

def handlers : List (String × (List Sx → Sx)) :=
  [("expr-run", handleRun), ("expr-pretty", handlePretty)]

end JinjaV.Wire.Expr
