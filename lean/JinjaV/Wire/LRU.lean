/- wire codec: LRU model and reference map -/
import JinjaV.Model.Sx
import JinjaV.Model.LRU
import JinjaV.Spec.LRU
import JinjaV.Spec.Linearizable

namespace JinjaV.Wire.LRU
open JinjaV JinjaV.LRU

def decOp : Sx → Option Op
  | .list [.atom "getitem", k] => do pure (.getitem (← k.toNat?))
  | .list [.atom "get", k, d] => do pure (.get (← k.toNat?) (← d.toNat?))
  | .list [.atom "set", k, v] => do pure (.set (← k.toNat?) (← v.toNat?))
  | .list [.atom "del", k] => do pure (.del (← k.toNat?))
  | .list [.atom "setdefault", k, d] => do pure (.setdefault (← k.toNat?) (← d.toNat?))
  | .list [.atom "contains", k] => do pure (.contains (← k.toNat?))
  | .atom "len" => some .len
  | .atom "clear" => some .clear
  | .atom "copy" => some .copy
  | .atom "pickle" => some .pickle
  | .atom "keys" => some .keys
  | .atom "values" => some .values
  | .atom "items" => some .items
  | .atom "iter" => some .iter
  | .atom "reversed" => some .reversed
  | _ => none

def encOut : Out → Sx
  | .none => .atom "none"
  | .val v => .list [.atom "val", Sx.ofNat v]
  | .bool b => .list [.atom "bool", Sx.ofBool b]
  | .nat n => .list [.atom "nat", Sx.ofNat n]
  | .keys ks => .list [.atom "keys", Sx.ofNats ks]
  | .vals vs => .list [.atom "vals", Sx.ofNats vs]
  | .items kvs => .list [.atom "items", .list (kvs.map fun (k, v) => .list [Sx.ofNat k, Sx.ofNat v])]
  | .keyError => .atom "keyError"
  | .internal => .atom "internal"

/-- `(lru cap (op…))` → `(ok ((model-out…) (spec-out…) (final-queue) ))` -/
def handle : List Sx → Sx
  | [cap, .list ops] =>
    match cap.toNat?, Sx.mapM? decOp ops with
    | some c, some ops =>
      if c = 0 then Sx.oom else
      let (s, outs) := LRU.run (LRU.init c) ops
      let (_, souts) := SpecLRU.run (SpecLRU.init c) ops
      Sx.ok (.list [.list (outs.map encOut), .list (souts.map encOut), Sx.ofNats s.queue,
        Sx.ofNat s.mapping.length])
    | _, _ => Sx.bad
  | _ => Sx.bad

def decOut : Sx → Option Out
  | .atom "none" => some .none
  | .atom "keyError" => some .keyError
  | .atom "internal" => some .internal
  | .list [.atom "val", v] => do pure (.val (← v.toNat?))
  | .list [.atom "bool", b] => do pure (.bool (← b.toBool?))
  | .list [.atom "nat", n] => do pure (.nat (← n.toNat?))
  | _ => none

def decCall : Sx → Option Lin.Call
  | .list [tid, op, out, t0, t1] => do
    pure { tid := ← tid.toNat?, op := ← decOp op, out := ← decOut out, inv := ← t0.toNat?, res := ← t1.toNat? }
  | _ => none

def decKV : Sx → Option (K × V)
  | .list [k, v] => do pure (← k.toNat?, ← v.toNat?)
  | _ => none

/-- `(lru-lin cap (setup…) (call…) final)` → `(ok true|false)` -/
def handleLin : List Sx → Sx
  | [cap, .list setup, .list calls, fin] =>
    match cap.toNat?, Sx.mapM? decOp setup, Sx.mapM? decCall calls with
    | some c, some setup, some calls =>
      let fin' : Option (Option (List (K × V))) := match fin with
        | .atom "internal" => some none
        | .list kvs => (Sx.mapM? decKV kvs).map some
        | _ => none
      match fin' with
      | some (some f) => Sx.ok (Sx.ofBool (Lin.linearizable c setup calls (some f)))
      | some none => Sx.ok (Sx.ofBool false)
      | none => Sx.bad
    | _, _, _ => Sx.bad
  | _ => Sx.bad

/-- request names served by this module (collected into `JinjaV.Wire.All` by tools/gen_wire_all.py) -/
def handlers : List (String × (List Sx → Sx)) :=
  [("lru", handle), ("lru-lin", handleLin)]

end JinjaV.Wire.LRU
