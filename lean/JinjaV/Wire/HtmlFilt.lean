import JinjaV.Model.Sx
import JinjaV.Model.HtmlFilt
namespace JinjaV.Wire.HtmlFilt
open JinjaV JinjaV.Escape JinjaV.HtmlFilt

def S (l : List Char) : Sx := .str (String.ofList l)

def decVal : Sx → Option Val
  | .list [.atom "plain", .str s] => some (.plain s.toList)
  | .list [.atom "markup", .str s] => some (.markup s.toList)
  | _ => none

def encVal : Val → Sx
  | .plain s => .list [.atom "plain", S s]
  | .markup s => .list [.atom "markup", S s]

def decOptVal : Sx → Option (Option Val)
  | .atom "none" => some none
  | x => (decVal x).map some

def decOptNat : Sx → Option (Option Nat)
  | .atom "none" => some none
  | x => x.toNat?.map some

def decOptInt : Sx → Option (Option Int)
  | .atom "none" => some none
  | x => x.toInt?.map some

def decItem : Sx → Option (List Char × XVal)
  | .list [.str k, .atom "none"] => some (k.toList, .none)
  | .list [.str k, .atom "undefined"] => some (k.toList, .undefined)
  | .list [.str k, v] => (decVal v).map fun v => (k.toList, .val v)
  | _ => none

def decStrs (xs : List Sx) : Option (List (List Char)) := Sx.mapM? (fun x => x.toStr?.map String.toList) xs

/-- oracle table for the regular expressions: (middle, http match, e-mail match of middle, e-mail match of middle[7:]) -/
def decRow : Sx → Option (List Char × Bool × Bool × Bool)
  | .list [.str m, a, b, c] => do pure (m.toList, ← a.toBool?, ← b.toBool?, ← c.toBool?)
  | _ => none

def middlesOf (text : List Char) : List (List Char) :=
  (splitWs (escape text)).map fun w => (splitWord w).2.1

def encExc : Option (Except Unit Val) → Sx
  | none => Sx.oom
  | some (.error _) => Sx.err "TypeError"
  | some (.ok v) => Sx.ok (encVal v)

def handle : List Sx → Sx
  | [.atom "escape", .str s] =>
    let e := escape s.toList
    Sx.ok (.list [S e, S (escape1 s.toList), Sx.ofBool (isEsc e), S (unescape e)])
  | [.atom "unescape", .str s] => Sx.ok (S (unescape s.toList))
  | [.atom "isesc", .str s] => Sx.ok (Sx.ofBool (isEsc s.toList))
  | [.atom "mfree", .str s] => Sx.ok (Sx.ofBool (s.toList.all fun c => !isM c))
  | [.atom "tojson", .str d] => Sx.ok (encVal (tojson d.toList))
  | [.atom "jsondec", .str b] =>
    match jsonStrDecode b.toList with
    | some l => Sx.ok (Sx.ofNats l)
    | none => Sx.ok (.atom "none")
  | [.atom "xmlattr", ae, asp, .list items] =>
    match ae.toBool?, asp.toBool?, Sx.mapM? decItem items with
    | some ae, some asp, some items =>
      match xmlattr ae items asp with
      | .ok v => Sx.ok (encVal v)
      | .error _ => Sx.err "ValueError"
    | _, _, _ => Sx.bad
  | [.atom "urlize-middles", .str t] => Sx.ok (.list ((middlesOf t.toList).map S))
  | [.atom "urlize", .str t, limit, rel, target, schemes, .list table] =>
    match decOptInt limit, decOptVal rel, decOptVal target, Sx.mapM? decRow table with
    | some limit, some rel, some target, some table =>
      let schemes? : Option (Option (List (List Char))) := match schemes with
        | .atom "none" => some none
        | .list xs => (decStrs xs).map some
        | _ => none
      match schemes? with
      | none => Sx.bad
      | some schemes =>
        let look (f : Bool × Bool × Bool → Bool) (m : List Char) : Bool :=
          match table.find? (fun r => r.1 == m) with
          | some r => f r.2
          | none => false
        let A : UrlizeArgs := {
          isUrl := look (·.1), isEmail := fun m =>
            -- the e-mail pattern is asked about `middle` and about `middle[7:]`; rows are keyed by `middle`
            match table.find? (fun r => r.1 == m) with
            | some r => r.2.2.1
            | none => match table.find? (fun r => r.1.drop 7 == m && "mailto:".toList.isPrefixOf r.1) with
              | some r => r.2.2.2
              | none => false,
          limit := limit, rel := attrArg rel, target := attrArg target, schemes := schemes }
        let out := urlize A t.toList
        Sx.ok (.list [S out, Sx.ofBool (shapeOK out)])
    | _, _, _, _ => Sx.bad
  | [.atom "attrs", .str s] => Sx.ok (Sx.ofBool (attrsOK s.toList))
  | [.atom "attrs-strict", .str s] => Sx.ok (Sx.ofBool (attrsStrictOK s.toList))
  | [.atom "shape", .str s] => Sx.ok (Sx.ofBool (shapeOK s.toList))
  | [.atom "valid-scheme", .str s, .str wordchars] =>
    Sx.ok (Sx.ofBool (validScheme (fun c => wordchars.toList.contains c) s.toList))
  | [.atom "indent", s, width, first, blank] =>
    let w : Option Width := match width with
      | .list [.atom "num", n] => n.toInt?.map Width.num
      | .list [.atom "str", v] => (decVal v).map Width.str
      | _ => none
    match decVal s, w, first.toBool?, blank.toBool? with
    | some s, some w, some f, some b =>
      match doIndent s w f b with
      | some v => Sx.ok (encVal v)
      | none => Sx.err "IndexError"
    | _, _, _, _ => Sx.bad
  | [.atom "replace", ae, s, old, new, count] =>
    match ae.toBool?, decVal s, decVal old, decVal new, decOptNat count with
    | some ae, some s, some o, some n, some c => Sx.ok (encVal (doReplace ae s o n c))
    | _, _, _, _, _ => Sx.bad
  | [.atom "join", ae, .list vals, d] =>
    match ae.toBool?, Sx.mapM? decVal vals, decVal d with
    | some ae, some vs, some d => Sx.ok (encVal (doJoin ae vs d))
    | _, _, _ => Sx.bad
  | [.atom "format", v, .list args] =>
    match decVal v, Sx.mapM? decVal args with
    | some v, some args => encExc (doFormat v args)
    | _, _ => Sx.bad
  | [.atom "truncate", s, length, kill, end_, leeway] =>
    match decVal s, length.toNat?, kill.toBool?, decVal end_, leeway.toNat? with
    | some s, some l, some k, some e, some lw =>
      match doTruncate s l k e lw with
      | some v => Sx.ok (encVal v)
      | none => Sx.err "AssertionError"
    | _, _, _, _, _ => Sx.bad
  | [.atom "wordwrap", s, ws, .list table] =>
    let rows := Sx.mapM? (fun r => match r with
      | .list [.str l, .list ps] => (decStrs ps).map fun ps => (l.toList, ps)
      | _ => none) table
    match decVal s, decVal ws, rows with
    | some s, some ws, some rows =>
      let missing := (vSplitlines s).any fun l => !(rows.any fun r => r.1 == l.text)
      if missing then Sx.err "line-not-in-table" else
      let wrap (l : List Char) : List (List Char) := match rows.find? (fun r => r.1 == l) with
        | some r => r.2
        | none => []
      Sx.ok (encVal (doWordwrap wrap s ws))
    | _, _, _ => Sx.bad
  | [.atom "splitlines", .str s] => Sx.ok (.list ((splitlines s.toList).map S))
  | [.atom "forceescape", v] => match decVal v with
    | some v => Sx.ok (encVal (doForceescape v))
    | none => Sx.bad
  | [.atom "escapef", v] => match decVal v with
    | some v => Sx.ok (encVal (doEscape v))
    | none => Sx.bad
  | _ => Sx.bad

def handlers : List (String × (List Sx → Sx)) :=
  [("c24", handle)]

end JinjaV.Wire.HtmlFilt
