import JinjaV.Model.Sx
import JinjaV.Model.Inherit
import JinjaV.Spec.Inherit
/-
  Wire for C04.  The harness sends the *structure* of a template hierarchy (it renders the template text itself from
  the same structure); the reply carries the model's result, the specification's result where the specification
  speaks, and the oracle's verdict on the pair.
-/
namespace JinjaV.Wire.Inherit
open JinjaV JinjaV.Inherit

partial def decPiece : Sx → Option Piece
  | .list [.atom "t", .str s] => some (.text s.toList)
  | .list [.atom "v", .str x] => some (.var x)
  | .list [.atom "b", .str n, sc, rq, .list body] => do
    pure (.block n (← sc.toBool?) (← rq.toBool?) (← Sx.mapM? decPiece body))
  | .list [.atom "sup", k] => do pure (.superCall (← k.toNat?))
  | .list [.atom "self", .str n] => some (.selfCall n)
  | .list [.atom "for", .str x, .list items, .list body] => do
    pure (.forLoop x ((← Sx.mapM? Sx.toStr? items).map String.toList) (← Sx.mapM? decPiece body))
  | .list [.atom "if", .str f, .list body] => do pure (.ifc f (← Sx.mapM? decPiece body))
  | .list [.atom "with", .str x, .str v, .list body] => do pure (.withv x v.toList (← Sx.mapM? decPiece body))
  | .list [.atom "la", .str a] => some (.loopAttr a)
  | .list [.atom "extl", .str n] => some (.ext (.lit n))
  | .list [.atom "extd", .str v] => some (.ext (.dyn v))
  | _ => none

def decTpl : Sx → Option Tpl
  | .list [.str n, .list body] => do pure ⟨n, ← Sx.mapM? decPiece body⟩
  | _ => none

def decVar : Sx → Option (Name × Text)
  | .list [.str k, .str v] => some (k, v.toList)
  | _ => none

def errName : Err → String
  | .undefined => "undefined"
  | .required => "required"
  | .extendedTwice => "extendedTwice"
  | .notFound => "notFound"
  | .syntax => "syntax"
  | .fuel => "fuel"
  | .internal => "internal"

def encRes : Res → Sx
  | .ok s => .list [.atom "out", .str (String.ofList s)]
  | .error e => .list [.atom "err", .atom (errName e)]

def encBlocks (B : Blocks) : Sx :=
  .list (B.map fun (n, st) => .list [.str n, .list (st.map fun r => .str r.tpl)])

/-- `(inh-render hops fuel (tpl…) ((var value)…) main)` →
    `(ok (model spec verdict (chain names) blocks-after))` -/
def handleRender : List Sx → Sx
  | [hops, fuel, .list tpls, .list vars, .str main] =>
    match hops.toNat?, fuel.toNat?, Sx.mapM? decTpl tpls, Sx.mapM? decVar vars with
    | some hops, some fuel, some L, some vars =>
      let model := renderTemplate L hops fuel vars main
      let blocks : Sx := match load L main with
        | .ok t => (match blocksAfter L fuel vars hops (initBlocks t) t with
          | .ok B => encBlocks B
          | .error _ => .atom "none")
        | .error _ => .atom "none"
      if model == .error .fuel then Sx.oom else
      match SpecInherit.resolveChain L vars hops main with
      | none => Sx.ok (.list [encRes model, .atom "none", .atom "nojudge", .list [], blocks])
      | some chain =>
        let names := Sx.ofStrs (chain.map (·.name))
        let distinct := nodupNames (chain.map (·.name))
        let spec := SpecInherit.renderChain fuel chain vars
        if !distinct || spec == .error .fuel then
          Sx.ok (.list [encRes model, .atom "none", .atom "nojudge", names, blocks])
        else if spec == model then Sx.ok (.list [encRes model, encRes spec, .atom "agree", names, blocks])
        else
          -- the model (= the code, if the correspondence holds) departs from the documentation; `render_chain`
          -- says this cannot happen for chains of the documented shape
          Sx.ok (.list [encRes model, encRes spec, .atom "unexplained", names, blocks])
    | _, _, _, _ => Sx.bad
  | _ => Sx.bad

/-- `(inh-spec fuel (tpl…most-derived first) ((var value)…))` → the specification on an explicit chain -/
def handleSpec : List Sx → Sx
  | [fuel, .list tpls, .list vars] =>
    match fuel.toNat?, Sx.mapM? decTpl tpls, Sx.mapM? decVar vars with
    | some fuel, some chain, some vars => Sx.ok (encRes (SpecInherit.renderChain fuel chain vars))
    | _, _, _ => Sx.bad
  | _ => Sx.bad

/-- `(inh-super (id…) cur k)`: `Context.super(name, f_cur)` then `k` × `.super` on a stack of block functions
    identified by the ids (an id may repeat); reply `(ok (some id position))` or `(ok none)` (undefined) -/
def handleSuper : List Sx → Sx
  | [.list ids, cur, k] =>
    match Sx.mapM? Sx.toNat? ids, cur.toNat?, k.toNat? with
    | some ids, some cur, some k =>
      let mk (i : Nat) : BRef := ⟨toString i, ⟨"b", false, false, []⟩⟩
      let B : Blocks := [("b", ids.map mk)]
      if !ids.contains cur then Sx.oom else
      match superTarget B (mk cur) k with
      | none => Sx.ok (.atom "none")
      | some r => Sx.ok (.list [.atom "some", .str r.tpl])
    | _, _, _ => Sx.bad
  | _ => Sx.bad

/-- `(inh-blocks (tpl))` → the keys of `Template.blocks` in document order -/
def handleBlocks : List Sx → Sx
  | [t] =>
    match decTpl t with
    | some t => if compileOk t then Sx.ok (Sx.ofStrs (blockNames t)) else Sx.err "syntax"
    | none => Sx.bad
  | _ => Sx.bad

/-- `(inh-lookup ((k v)…locals) ((k v)…context) name)`: what a block function called through a scoped placeholder
    (`context.derived(locals)`) resolves `name` to -/
def handleLookup : List Sx → Sx
  | [.list loc, .list vars, .str x] =>
    match Sx.mapM? decVar loc, Sx.mapM? decVar vars with
    | some loc, some vars =>
      match lookupVar [] (loc ++ vars) x with
      | none => Sx.ok (.atom "none")
      | some v => Sx.ok (.list [.atom "some", .str (String.ofList v)])
    | _, _ => Sx.bad
  | _ => Sx.bad

def handlers : List (String × (List Sx → Sx)) :=
  [("inh-lookup", handleLookup), ("inh-render", handleRender), ("inh-spec", handleSpec), ("inh-super", handleSuper), ("inh-blocks", handleBlocks)]

end JinjaV.Wire.Inherit
