/-
  C38 — the documented exception policy of the engine, written from the documentation
  (docs/templates.rst "Variables", "Notes on subscriptions", the filter and test docstrings,
  docs/api.rst "Undefined Types", Context.call) — independent of the source tables in Gen/.

  A data callback (attribute hook, item hook, call, iteration step, str/len/int conversion …) may raise.
  The engine may turn the exception into a *signal* (undefined value, `false`, a default, end of iteration)
  only where the documentation says so; everywhere else the very same exception object has to leave
  `render`/`generate`/`stream`.

  Exception classes are represented by the names of the builtin classes in their MRO
  (`["KeyError", "LookupError", "Exception", "BaseException"]`); a handler `except C` catches `x` iff `C ∈ bases x`.
-/
namespace JinjaV.ExceptPolicy

/-- does a handler written `except c` (or bare) catch an exception whose MRO names are `bases`? -/
def catchesClass (c : String) (bases : List String) : Bool := c == "BARE" || bases.contains c

def catchesAny (caught bases : List String) : Bool := caught.any fun c => catchesClass c bases

/-- what the documented conversion of a signal is -/
inductive Effect where
  | undefined      -- the lookup / aggregate yields an undefined value
  | false_         -- a capability test reports false
  | default_       -- a conversion filter returns its default
  | endOfIteration -- iterator protocol
  | fallback       -- capability probe failed, the other access path is tried
  | translate      -- re-raised as the documented engine exception
  | internal       -- guards engine-internal values only (no data hook can run inside)
  deriving Repr, DecidableEq

/-- one documented handler: the site is named by module + function + ordinal of the handler inside the function -/
structure Entry where
  module : String
  func : String
  idx : Nat
  /-- the classes that are signals here (a source handler may catch a subset) -/
  signals : List String
  /-- data hooks guarded directly by the try body ("*" = any); empty = engine-internal values only -/
  hooks : List String
  /-- engine or data code of arbitrary depth runs inside the try body (macro body inside `Context.call`, a lazily evaluated
      generator inside `first`): the signal set then applies to exceptions arriving from inner frames as well -/
  encloses : Bool
  effect : Effect
  why : String
  deriving Repr

def attrSignals : List String := ["AttributeError"]
def itemSignals : List String := ["AttributeError", "TypeError", "LookupError"]

/-- The documented signal sites.  Anything not listed must let every exception through. -/
def documented : List Entry := [
  -- templates.rst "Variables": `foo.bar` / `foo['bar']`: attribute, then item (or the reverse); "if an attribute or item
  -- does not exist you get back an undefined value"
  ⟨"environment", "Environment.getitem", 0, itemSignals, ["getitem", "hash", "eq", "index"], false, .undefined,
    "obj[argument]: the object is not subscriptable / has no such item"⟩,
  -- (`str(argument)` of a str-subclass key is *not* guarded: an exception from its `__str__` propagates — F15, repaired in
  -- /repo 9a4c10c; the fault-injection run keeps a str-subclass key among its probes)
  ⟨"environment", "Environment.getitem", 1, attrSignals, ["getattr"], false, .undefined,
    "getattr(obj, str(argument)) after the item lookup failed"⟩,
  ⟨"sandbox", "SandboxedEnvironment.getitem", 1, attrSignals, ["getattr"], false, .undefined,
    "sandboxed getattr(obj, str(argument)) after the item lookup failed"⟩,
  ⟨"environment", "Environment.getattr", 0, attrSignals, ["getattr"], false, .fallback,
    "getattr(obj, attribute) failed: try obj[attribute]"⟩,
  ⟨"environment", "Environment.getattr", 1, itemSignals, ["getitem", "hash", "eq", "index"], false, .undefined,
    "obj[attribute] after the attribute lookup failed"⟩,
  ⟨"sandbox", "SandboxedEnvironment.getitem", 0, ["TypeError", "LookupError"], ["getitem", "hash", "eq", "index"], false, .undefined,
    "sandboxed obj[argument]"⟩,
  ⟨"sandbox", "SandboxedEnvironment.getattr", 0, attrSignals, ["getattr"], false, .fallback,
    "sandboxed getattr(obj, attribute) failed: try obj[attribute]"⟩,
  ⟨"sandbox", "SandboxedEnvironment.getattr", 1, ["TypeError", "LookupError"], ["getitem", "hash", "eq", "index"], false, .undefined,
    "sandboxed obj[attribute] after the attribute lookup failed"⟩,
  ⟨"filters", "do_attr", 0, attrSignals, ["getattr"], false, .undefined,
    "attr filter: static lookup failed; the handler's hasattr probe decides between undefined and Environment.getattr"⟩,
  -- api.rst / Context.call docstring: "a callable raising StopIteration gives an undefined value" (the generated code is a
  -- generator, a StopIteration escaping a call would silently end the render)
  ⟨"runtime", "Context.call", 0, ["StopIteration"], ["call", "*"], true, .undefined,
    "StopIteration raised by (or inside) a called object becomes undefined"⟩,
  -- iterator protocol
  ⟨"async_utils", "_IteratorToAsyncIterator.__anext__", 0, ["StopIteration"], ["next", "*"], true, .endOfIteration,
    "a sync iterator driven from async code: StopIteration is restated as StopAsyncIteration"⟩,
  ⟨"runtime", "AsyncLoopContext._peek_next", 0, ["StopAsyncIteration"], ["anext", "next", "*"], true, .endOfIteration,
    "look-ahead of the async loop: the iterator is exhausted"⟩,
  ⟨"environment", "TemplateStream._buffered_generator", 0, ["StopIteration"], [], true, .endOfIteration,
    "the template's own generator is exhausted (a StopIteration from data cannot leave a generator: PEP 479)"⟩,
  -- filters "first", "last", "min", "max", "random": an empty sequence gives undefined
  ⟨"filters", "_min_or_max", 0, ["StopIteration"], ["next", "*"], true, .undefined, "min/max of an empty iterable"⟩,
  ⟨"filters", "sync_do_first", 0, ["StopIteration"], ["iter", "next", "*"], true, .undefined, "first of an empty iterable"⟩,
  ⟨"filters", "do_first", 0, ["StopAsyncIteration"], ["aiter", "anext", "iter", "next", "*"], true, .undefined,
    "first of an empty (async) iterable"⟩,
  ⟨"filters", "do_last", 0, ["StopIteration"], ["reversed", "iter", "next", "len", "getitem", "*"], true, .undefined,
    "last of an empty sequence"⟩,
  ⟨"filters", "do_random", 0, ["IndexError"], ["len", "getitem", "*"], false, .undefined, "random item of an empty sequence"⟩,
  -- filters "int", "float": "if the conversion doesn't work it will return 0 / 0.0; you can override this default"
  ⟨"filters", "do_int", 0, ["TypeError", "ValueError", "OverflowError"], ["int", "index", "trunc", "*"], false, .fallback,
    "int(value) failed (not a number, or an infinite float): try int(float(value))"⟩,
  ⟨"filters", "do_int", 1, ["TypeError", "ValueError", "OverflowError"], ["float", "int", "index", "*"], false, .default_,
    "int(float(value)) failed: the default"⟩,
  ⟨"filters", "do_float", 0, ["TypeError", "ValueError", "OverflowError"], ["float", "index", "*"], false, .default_,
    "float(value) failed: the default"⟩,
  -- filter "reverse": "argument must be iterable"
  ⟨"filters", "do_reverse", 0, ["TypeError"], ["reversed", "len", "getitem", "*"], false, .fallback,
    "capability probe: not reversible, iterate into a list instead"⟩,
  ⟨"filters", "do_reverse", 1, ["TypeError"], ["iter", "next", "len", "*"], false, .translate,
    "not iterable either: FilterArgumentError('argument must be iterable')"⟩,
  -- capability tests (tests.py docstrings): report false instead of failing
  ⟨"tests", "test_sequence", 0, ["Exception"], ["len", "getattr"], false, .false_,
    "`is sequence`: len(value) and value.__getitem__ are probed; any failure means 'not a sequence' (the one documented broad swallow)"⟩,
  ⟨"tests", "test_iterable", 0, ["TypeError"], ["iter"], false, .false_, "`is iterable`: iter(value) failed"⟩,
  -- loop.length / loop.revindex / loop.last on an iterable without len(): the rest of the iterator is buffered
  ⟨"runtime", "LoopContext.length", 0, ["TypeError"], ["len"], false, .fallback, "len(iterable) unsupported: count by consuming the iterator"⟩,
  ⟨"runtime", "AsyncLoopContext.length", 0, ["TypeError"], ["len"], false, .fallback, "len(iterable) unsupported: count by consuming the iterator"⟩,
  -- engine-internal values only (no data hook runs in the try body)
  ⟨"runtime", "Context.super", 0, ["LookupError"], [], false, .undefined, "super() without a parent block: context.blocks is the engine's own dict of lists"⟩,
  ⟨"runtime", "Context.get", 0, ["KeyError"], [], false, .default_, "Context.get(key, default): the context's own dicts, keys are template identifiers"⟩,
  ⟨"runtime", "Macro.__call__", 0, ["KeyError"], [], false, .internal, "kwargs.pop(name): the engine's own keyword dict, keys are parameter names"⟩,
  ⟨"filters", "prepare_map", 0, ["LookupError"], [], false, .translate, "args[0] of the engine-built argument tuple: 'map requires a filter argument'"⟩,
  ⟨"filters", "prepare_select_or_reject", 0, ["LookupError"], [], false, .translate, "args[0] of the engine-built argument tuple: missing attribute name"⟩,
  ⟨"filters", "prepare_select_or_reject", 1, ["LookupError"], [], false, .internal, "args[off] of the engine-built argument tuple: no test given, use bool"⟩,
  ⟨"environment", "Environment.select_template", 0, ["TemplateNotFound", "UndefinedError"], [], false, .internal,
    "select_template / include with a list: try the next name (documented); both classes are raised by the engine only"⟩,
  ⟨"environment", "Environment._filter_test_common", 0, ["Exception"], [], false, .translate,
    "the filter/test *name* is an Undefined: its own _fail_with_undefined_error is called only to obtain the message; a TemplateRuntimeError is raised unconditionally right after the handler"⟩,
  ⟨"debug", "fake_traceback", 0, ["BaseException"], [], false, .internal,
    "exec of the synthetic `raise __jinja_exception__` line that manufactures a traceback entry; the exception raised there is the original one and is re-raised by handle_exception"⟩,
  ⟨"debug", "get_template_locals", 0, ["ValueError"], [], false, .internal, "parsing `l_<depth>_<name>` local variable names of a template frame"⟩,
  ⟨"nativetypes", "native_concat", 0, ["ValueError", "SyntaxError", "MemoryError", "TypeError"], [], false, .default_,
    "literal_eval of the already rendered string (no data hook runs): not a Python literal (TypeError: an unhashable set element or dict key, /repo 2fb0b13), keep the string"⟩,
  ⟨"utils", "LRUCache.get", 0, ["KeyError"], [], false, .default_, "cache miss (keys are template names / configuration tuples)"⟩,
  ⟨"utils", "LRUCache.setdefault", 0, ["KeyError"], [], false, .internal, "cache miss"⟩,
  ⟨"utils", "LRUCache.__getitem__", 0, ["ValueError"], [], false, .internal, "queue bookkeeping of the cache"⟩,
  ⟨"utils", "LRUCache.__delitem__", 0, ["ValueError"], [], false, .internal, "queue bookkeeping of the cache"⟩,
  ⟨"utils", "Namespace.__getattribute__", 0, ["KeyError"], [], false, .translate, "namespace attribute missing: AttributeError (then undefined); the namespace's own dict"⟩
]

/-- The allow-list of *broad* handlers (Exception / BaseException / bare) at render time that do not re-raise the same
    object.  Each is named by module + function + ordinal of the handler, with what it guards and why that is acceptable.
    A broad render-time handler that is not here and does not re-raise breaks `C38.broad_handlers_ok`. -/
def allowedBroadSites : List (String × String × Nat) := [
  -- tests.py test_sequence: `len(value); value.__getitem__` under `except Exception: return False`.
  -- Documented capability test ("Return true if the variable is a sequence"): any failure of the probe means "no".
  ("tests", "test_sequence", 0),
  -- environment.py _filter_test_common: guards `name._fail_with_undefined_error()` where `name` is the *filter/test name*
  -- that turned out to be an Undefined; the call exists only to obtain the message text, and
  -- `raise TemplateRuntimeError(msg)` follows unconditionally.  No template data hook runs inside.
  ("environment", "Environment._filter_test_common", 0),
  -- debug.py fake_traceback: guards `exec` of the synthetic one-line module `raise __jinja_exception__`, which raises the
  -- original exception in order to harvest a traceback object; handle_exception then re-raises that same exception.
  ("debug", "fake_traceback", 0)]

/-- modules whose code never runs on template data at render time (compile, load, extraction) -/
def nonRenderModules : List String :=
  ["lexer", "parser", "compiler", "nodes", "optimizer", "idtracking", "meta", "visitor", "loaders", "bccache",
   "constants", "defaults", "_identifier"]

/-- single functions outside the render path in otherwise render-time modules (everything not named is render time, so a
    handler added anywhere else is subject to the policy) -/
def nonRenderFuncs : List (String × String) := [
  ("environment", "Environment.parse"), ("environment", "Environment.lex"), ("environment", "Environment.compile"),
  ("environment", "Environment.compile_expression"), ("environment", "Environment.compile_templates"),
  ("ext", "_CommentFinder.find_backwards"), ("ext", "babel_extract"),
  ("utils", "import_string"), ("exceptions", "TemplateSyntaxError.__str__")]

def renderTimeAt (module func : String) : Bool :=
  !nonRenderModules.contains module && !nonRenderFuncs.contains (module, func)

def entriesAt (tbl : List Entry) (module func : String) (idx : Nat) : List Entry :=
  tbl.filter fun en => en.module == module && en.func == func && en.idx == idx

/-- is an exception with these MRO names a documented signal of the handler `module.func#idx`? -/
def isSignalAt (tbl : List Entry) (module func : String) (idx : Nat) (bases : List String) : Bool :=
  (entriesAt tbl module func idx).any fun en => catchesAny en.signals bases

/-! ### The oracle used by the fault-injection run

The harness reports, for the data hook that raised: the hook kind, the MRO names of the raised class, and the stack of
engine frames between the hook and the entry point (innermost first): module, function, and whether the frame is a
generator/coroutine (compiled template code has module `<template>`, generator frames of other libraries `<other>`). -/

structure Frame where
  module : String
  func : String
  /-- "none" | "gen" | "coro" | "agen" (from the code object's flags) -/
  genKind : String
  deriving Repr

inductive Outcome where
  | same        -- `render` must raise that very object
  | signalHere  -- a documented handler of the innermost engine frame takes it: the object must *not* come out
  | signal      -- a documented signal further out, or Python's own protocols decide: not judged beyond engine usability
  deriving Repr, DecidableEq

def hookMatches (hooks : List String) (hook : String) : Bool := hooks.contains hook || hooks.contains "*"

/-- the handler(s) of the innermost engine frame that guard this hook directly -/
def innerSignal (tbl : List Entry) (f : Frame) (hook : String) (bases : List String) : Bool :=
  tbl.any fun en => en.module == f.module && en.func == f.func && hookMatches en.hooks hook && catchesAny en.signals bases

/-- a frame further out with a documented handler around nested code: marked `encloses`, or guarding a data hook — an
    attribute or item lookup runs whatever the attribute is made of (a property of the data, the engine's own
    `loop.length`), and an AttributeError/LookupError/TypeError leaving that code *is* the lookup failing.
    (Which try body is active is not known to the Spec; the model decides that exactly from the line numbers.) -/
def outerSignal (tbl : List Entry) (f : Frame) (bases : List String) : Bool :=
  tbl.any fun en => en.module == f.module && en.func == f.func && (en.encloses || !en.hooks.isEmpty) &&
    catchesAny en.signals bases

def isStopIter (bases : List String) : Bool := bases.contains "StopIteration"
def isStopAsyncIter (bases : List String) : Bool := bases.contains "StopAsyncIteration"

/-- walk outwards looking for an enclosing documented handler -/
def walkOuter (tbl : List Entry) (bases : List String) : List Frame → Outcome
  | [] => .same
  | f :: rest => if outerSignal tbl f bases then .signal else walkOuter tbl bases rest

/-- Exceptions that the *interpreter's* protocols consume, wherever they are raised (not the engine's doing, and not
    visible as handlers in the engine's source):
    * StopIteration / StopAsyncIteration: ends whatever C-level iteration is in progress (`map`, `str.join`, `sorted`,
      `for`), ends an await, or is turned into RuntimeError when it leaves a generator / coroutine frame (PEP 479);
    * AttributeError from an attribute hook: "no such attribute" for `hasattr`, three-argument `getattr` and the lookups;
    * TypeError from `__len__` when `len` is only consulted as a length hint (`list(x)`, `sorted(x)`; PyObject_LengthHint
      ignores TypeError) — but not where template code calls `len` itself (the `length`/`count` filter is the builtin);
    * IndexError from `__getitem__`: end of the old sequence-iteration protocol (`iter(obj)`, `reversed(obj)`), and a
      LookupError at every subscription the engine performs for a template. -/
def universalSignal (stack : List Frame) (hook : String) (bases : List String) : Bool :=
  isStopIter bases || isStopAsyncIter bases ||
  (hook == "getattr" && bases.contains "AttributeError") ||
  (hook == "len" && bases.contains "TypeError" && (match stack with | f :: _ => f.module != "<template>" | [] => false)) ||
  (hook == "getitem" && bases.contains "IndexError")

/-- the sites whose signal conversion is part of *this* property's statement ("attribute and lookup errors become undefined
    values, StopIteration from a callable becomes undefined, capability tests report false"); at the other documented
    sites (conversion filters, aggregates) taking the signal is the business of the filter properties: there the
    table is only an upper bound of what may be consumed -/
def mustSites : List (String × String) := [
  ("environment", "Environment.getitem"), ("environment", "Environment.getattr"),
  ("sandbox", "SandboxedEnvironment.getitem"), ("sandbox", "SandboxedEnvironment.getattr"),
  ("runtime", "Context.call"), ("tests", "test_sequence"), ("tests", "test_iterable")]

def expectedWith (tbl : List Entry) (stack : List Frame) (hook : String) (bases : List String) : Outcome :=
  match stack with
  | [] => if universalSignal stack hook bases then .signal else .same
  | f :: rest =>
    if innerSignal tbl f hook bases then (if mustSites.contains (f.module, f.func) then .signalHere else .signal)
    else if universalSignal stack hook bases then .signal
    else walkOuter tbl bases rest

/-- the documented expectation -/
def expected := expectedWith documented

end JinjaV.ExceptPolicy
