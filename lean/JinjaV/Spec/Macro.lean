/-
  Spec: the binding rule of property C06, stated declaratively (no popping, no
  cursor): which value each parameter receives, and what is left over.
-/
import JinjaV.Model.Macro

namespace JinjaV.SpecMacro
open JinjaV.Macro (V Kw Sig Arg Res)

def lookup (kw : Kw) (name : String) : Option V :=
  match kw with
  | [] => none
  | (k, v) :: r => if k = name then some v else lookup r name

/-- a parameter that received no positional argument: keyword by name, else its default -/
def byKeyword (kw : Kw) (name : String) : Arg :=
  match lookup kw name with
  | some v => .val v
  | none => .missing

/-- positional arguments fill parameters in order; the remaining parameters are filled
    by keyword or left to their defaults -/
def slots : List String → List V → Kw → List Arg
  | [], _, _ => []
  | _ :: ps, a :: as, kw => .val a :: slots ps as kw
  | name :: ps, [], kw => byKeyword kw name :: slots ps [] kw

/-- implicit `caller` (only when the body reads it and it is not a declared parameter) -/
def implicitCaller (s : Sig) : Bool := s.caller && !s.params.contains "caller"

/-- names consumed by parameters that were not filled positionally, and by the implicit caller -/
def consumed (s : Sig) (args : List V) : List String :=
  s.params.drop args.length ++ (if implicitCaller s then ["caller"] else [])

def leftover (s : Sig) (args : List V) (kw : Kw) : Kw :=
  kw.filter (fun p => !(consumed s args).contains p.1)

def bind (s : Sig) (args : List V) (kw : Kw) : Res :=
  let base := slots s.params args kw ++
    (if implicitCaller s then
      [match lookup kw "caller" with | some v => Arg.val v | none => Arg.undefCaller]
     else [])
  let lo := leftover s args kw
  let surplus := args.drop s.params.length
  if !s.catchKwargs && !lo.isEmpty then .typeErrorKw ((lo.map Prod.fst).contains "caller")
  else if !s.catchVarargs && !surplus.isEmpty then .typeErrorPos
  else .ok (base ++ (if s.catchKwargs then [Arg.kwargs lo] else []) ++
                    (if s.catchVarargs then [Arg.varargs surplus] else []))

end JinjaV.SpecMacro
