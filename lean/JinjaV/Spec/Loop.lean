/-
  Spec: the documented meaning of the `loop` variable (docs/templates.rst, "For"),
  as a function of the *whole* item list `xs`, the number `k` of items handed out so
  far and the argument of the previous `changed` call.  No look-ahead, no caching.
-/
import JinjaV.Model.Loop

namespace JinjaV.SpecLoop
open JinjaV.Loop (V Op Out)

structure Sp where
  xs : List V
  k : Nat
  lastChanged : Option (List V)
  depth0 : Nat
  deriving Repr, BEq, DecidableEq

def init (xs : List V) (depth0 : Nat) : Sp := { xs := xs, k := 0, lastChanged := none, depth0 := depth0 }

def step (sp : Sp) : Op → Sp × Out
  | .next => match sp.xs[sp.k]? with
    | some v => ({ sp with k := sp.k + 1 }, .item v)
    | none => (sp, .stop)
  | .length => (sp, .int sp.xs.length)
  | .revindex0 => (sp, .int ((sp.xs.length : Int) - sp.k))
  | .revindex => (sp, .int ((sp.xs.length : Int) - sp.k + 1))
  | .first => (sp, .bool (sp.k == 1))
  | .last => (sp, .bool (sp.k ≥ sp.xs.length))
  | .previtem =>
    if sp.k == 1 then (sp, .undef)
    else if sp.k == 0 then (sp, .missing)
    else match sp.xs[sp.k - 2]? with
      | some v => (sp, .val v)
      | none => (sp, .missing)
  | .nextitem => match sp.xs[sp.k]? with
    | some v => (sp, .val v)
    | none => (sp, .undef)
  | .index => (sp, .int sp.k)
  | .index0 => (sp, .int ((sp.k : Int) - 1))
  | .depth => (sp, .int (sp.depth0 + 1))
  | .depth0 => (sp, .int sp.depth0)
  | .cycle args =>
    if args.isEmpty then (sp, .typeError)
    else match args[(((sp.k : Int) - 1) % (args.length : Int)).toNat]? with
      | some v => (sp, .val v)
      | none => (sp, .typeError)
  | .changed vals =>
    if sp.lastChanged != some vals then ({ sp with lastChanged := some vals }, .bool true)
    else (sp, .bool false)

def run (sp : Sp) : List Op → Sp × List Out
  | [] => (sp, [])
  | op :: ops =>
    let r := step sp op
    let r' := run r.1 ops
    (r'.1, r.2 :: r'.2)

/-- the items handed out by the `next` operations of a run, in order -/
def visited : List Out → List V
  | [] => []
  | .item v :: r => v :: visited r
  | _ :: r => visited r

end JinjaV.SpecLoop
