/-
  Specification-side definitions for C23 (string filters), written from the documentation, independent of how
  the filters compute: which lines `indent` prefixes, the pieces between the replaced occurrences of `replace`,
  the lines `wordwrap` produces.  The theorems of Props/C23.lean relate the transcribed model to these.
-/
import JinjaV.Model.FiltStr

namespace JinjaV.C23
open JinjaV.FiltStr

/-- Spec (docs: "The first line and blank lines are not indented by default"; `first` / `blank` switch each on):
    the first line is prefixed iff `first`, every later line iff `blank` or the line is not empty -/
def decorate (ind : Str) (first blank : Bool) : List Str → List Str
  | [] => []
  | l0 :: rest => (if first then ind ++ l0 else l0) ::
      rest.map (fun l => if blank || !l.isEmpty then ind ++ l else l)

/-- deleting the indentation again, line by line: drop `len(ind)` characters from the first line iff `first`, from a
    later line unless (`blank` is off and the line is empty) -/
def undecorate (ind : Str) (first blank : Bool) : List Str → List Str
  | [] => []
  | l0 :: rest => (if first then l0.drop ind.length else l0) ::
      rest.map (fun l => if !blank && l.isEmpty then l else l.drop ind.length)

/-- Spec witness: the pieces of `s` between the occurrences of `old` that get replaced (leftmost first,
    non-overlapping, at most `cnt`) -/
def pieces (old : Str) (s : Str) (cnt : Option Nat) : List Str :=
  match s with
  | [] => [[]]
  | c :: cs =>
    if cnt = some 0 then [c :: cs]
    else if _h : old ≠ [] ∧ old.isPrefixOf (c :: cs) then [] :: pieces old ((c :: cs).drop old.length) (decr cnt)
    else
      match pieces old cs cnt with
      | p :: ps => (c :: p) :: ps
      | [] => [[c]]
termination_by s.length
decreasing_by
  · have : 0 < old.length := List.length_pos_iff.mpr _h.1
    simp only [List.length_drop, List.length_cons]; omega
  · simp

/-- the produced lines: a paragraph that wraps to nothing still contributes one (empty) line -/
def wrappedLines (wrap : Str → List Str) (s : Str) : List Str :=
  (splitlines s).flatMap fun line => if (wrap line).isEmpty then [[]] else wrap line

/-! ### format: printf-style substitution, `%s` / `%d` / `%%` subset (docs: "Apply the given values to a printf-style
  format string, like `string % values`") -/

/-- the pieces of a format string -/
inductive Seg where
  | lit (c : Char)     -- an ordinary character
  | pct                -- `%%`
  | s                  -- `%s`
  | d                  -- `%d`
  deriving Repr, DecidableEq

/-- reading a format string; `none`: a `%` that starts none of the three directives -/
def parseFmt : Str → Option (List Seg)
  | [] => some []
  | '%' :: '%' :: rest => (parseFmt rest).map (Seg.pct :: ·)
  | '%' :: 's' :: rest => (parseFmt rest).map (Seg.s :: ·)
  | '%' :: 'd' :: rest => (parseFmt rest).map (Seg.d :: ·)
  | '%' :: _ => none
  | c :: rest => (parseFmt rest).map (Seg.lit c :: ·)

/-- number of arguments a format consumes -/
def nDir : List Seg → Nat
  | [] => 0
  | .s :: r => nDir r + 1
  | .d :: r => nDir r + 1
  | _ :: r => nDir r

/-- substituting the arguments, in order; every argument must be used, `%d` needs a number -/
def fill : List Seg → List FmtArg → FmtRes
  | [], [] => .ok []
  | [], _ :: _ => .typeError
  | .lit c :: r, args => (fill r args).cons [c]
  | .pct :: r, args => (fill r args).cons ['%']
  | .s :: _, [] => .typeError
  | .s :: r, a :: as => (fill r as).cons a.s
  | .d :: _, [] => .typeError
  | .d :: r, a :: as =>
    match a.d with
    | none => .typeError
    | some d => (fill r as).cons d

end JinjaV.C23
