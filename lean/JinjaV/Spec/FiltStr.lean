/-
  Specification-side definitions for C23 (string filters), written from the documentation, independent of how
  the filters compute: which lines `indent` prefixes, the pieces between the replaced occurrences of `replace`,
  the lines `wordwrap` produces.  The theorems of Props/C23.lean relate the transcribed model to these.
-/
import JinjaV.Model.FiltStr

namespace JinjaV.C23
open JinjaV.FiltStr

/-- Spec (docs: "The first line and blank lines are not indented by default"; `first` / `blank` switch each on):
    the first line is prefixed iff `first`, every later line iff `blank` or the line is not empty -/
def decorate (ind : Str) (first blank : Bool) : List Str → List Str
  | [] => []
  | l0 :: rest => (if first then ind ++ l0 else l0) ::
      rest.map (fun l => if blank || !l.isEmpty then ind ++ l else l)

/-- deleting the indentation again, line by line: drop `len(ind)` characters from the first line iff `first`, from a
    later line unless (`blank` is off and the line is empty) -/
def undecorate (ind : Str) (first blank : Bool) : List Str → List Str
  | [] => []
  | l0 :: rest => (if first then l0.drop ind.length else l0) ::
      rest.map (fun l => if !blank && l.isEmpty then l else l.drop ind.length)

/-- Spec witness: the pieces of `s` between the occurrences of `old` that get replaced (leftmost first,
    non-overlapping, at most `cnt`) -/
def pieces (old : Str) (s : Str) (cnt : Option Nat) : List Str :=
  match s with
  | [] => [[]]
  | c :: cs =>
    if cnt = some 0 then [c :: cs]
    else if _h : old ≠ [] ∧ old.isPrefixOf (c :: cs) then [] :: pieces old ((c :: cs).drop old.length) (decr cnt)
    else
      match pieces old cs cnt with
      | p :: ps => (c :: p) :: ps
      | [] => [[c]]
termination_by s.length
decreasing_by
  · have : 0 < old.length := List.length_pos_iff.mpr _h.1
    simp only [List.length_drop, List.length_cons]; omega
  · simp

/-- the produced lines: a paragraph that wraps to nothing still contributes one (empty) line -/
def wrappedLines (wrap : Str → List Str) (s : Str) : List Str :=
  (splitlines s).flatMap fun line => if (wrap line).isEmpty then [[]] else wrap line

end JinjaV.C23
