/-
  Spec: the exception classes of jinja2 and the classes each of them is an instance of
  (docs/api.rst "Exceptions", and the class statements of exceptions.py as they stand).
  Handlers all over the engine (`except LookupError`, `except (TypeError, ValueError)`,
  `except AttributeError`, loaders' `except TemplateNotFound`, users' `except IOError`) depend on it.
  `IOError` is an alias of `OSError`.
-/
namespace JinjaV.SpecExceptionHierarchy

def IOError : String := "OSError"

def jinjaExceptions : List String :=
  ["TemplateError", "TemplateNotFound", "TemplatesNotFound", "TemplateSyntaxError", "TemplateAssertionError",
   "TemplateRuntimeError", "UndefinedError", "SecurityError", "FilterArgumentError"]

def root : List String := ["Exception", "BaseException", "object"]

/-- for each exception class: every class it is a subclass of (itself included) -/
def documentedAncestors : List (String × List String) := [
  ("TemplateError", "TemplateError" :: root),
  ("TemplateNotFound", ["TemplateNotFound", IOError, "LookupError", "TemplateError"] ++ root),
  ("TemplatesNotFound", ["TemplatesNotFound", "TemplateNotFound", IOError, "LookupError", "TemplateError"] ++ root),
  ("TemplateSyntaxError", ["TemplateSyntaxError", "TemplateError"] ++ root),
  ("TemplateAssertionError", ["TemplateAssertionError", "TemplateSyntaxError", "TemplateError"] ++ root),
  ("TemplateRuntimeError", ["TemplateRuntimeError", "TemplateError"] ++ root),
  ("UndefinedError", ["UndefinedError", "TemplateRuntimeError", "TemplateError"] ++ root),
  ("SecurityError", ["SecurityError", "TemplateRuntimeError", "TemplateError"] ++ root),
  ("FilterArgumentError", ["FilterArgumentError", "TemplateRuntimeError", "TemplateError"] ++ root)]

/-- the engine functions that guard an operation on a template value, with the number of `except` clauses of each -/
def guardedSites : List (String × Nat) :=
  [("Environment.getitem", 2), ("Environment.getattr", 2), ("SandboxedEnvironment.getitem", 2),
   ("SandboxedEnvironment.getattr", 2), ("do_attr", 1), ("do_int", 2), ("do_float", 1), ("test_iterable", 1),
   ("Context.call", 1)]

end JinjaV.SpecExceptionHierarchy
