/-
  Spec: the documented operation table of the undefined types (docs/api.rst
  "Undefined Types" and the class docstrings in runtime.py), written by groups of
  operations, independently of the alias lists in the source.
-/
namespace JinjaV.SpecUndefined

inductive Kind where
  | default | chainable | debug | strict
  | logging (base : Kind)            -- make_logging_undefined(base=…)
  deriving Repr, DecidableEq

inductive Op where
  | str | bool | iter | aiter | len | contains | eq | ne | hash | repr | html
  | add | radd | sub | rsub | mul | rmul | truediv | rtruediv | floordiv | rfloordiv
  | mod | rmod | pow | rpow | pos | neg | lt | le | gt | ge
  | int | float | complex | getattr | getattrDunder | getitem | call
  deriving Repr, DecidableEq

inductive Outcome where
  | raisesUndefined      -- UndefinedError (or the configured exception), naming what is missing
  | attributeError       -- plain AttributeError (protocol probing of dunder names)
  | emptyString | debugString | falseValue | zero | emptyIteration | emptyAsyncIteration
  | typeIdentity         -- equal iff the other operand has exactly the same undefined type
  | notTypeIdentity
  | hashable | reprUndefined | itself | stringOfSelf
  deriving Repr, DecidableEq

def allOps : List Op := [.str, .bool, .iter, .aiter, .len, .contains, .eq, .ne, .hash, .repr, .html,
  .add, .radd, .sub, .rsub, .mul, .rmul, .truediv, .rtruediv, .floordiv, .rfloordiv, .mod, .rmod, .pow, .rpow,
  .pos, .neg, .lt, .le, .gt, .ge, .int, .float, .complex, .getattr, .getattrDunder, .getitem, .call]

def baseKinds : List Kind := [.default, .chainable, .debug, .strict]
def allKinds : List Kind := baseKinds ++ baseKinds.map .logging

/-- operations that every undefined type refuses -/
def alwaysRefused : Op → Bool
  | .add | .radd | .sub | .rsub | .mul | .rmul | .truediv | .rtruediv | .floordiv | .rfloordiv
  | .mod | .rmod | .pow | .rpow | .pos | .neg | .lt | .le | .gt | .ge | .int | .float | .complex | .call => true
  | _ => false

/-- the lenient operations of the default type: print, truth, iteration, length, equality, hash -/
def lenient : Op → Option Outcome
  | .str => some .emptyString
  | .bool => some .falseValue
  | .iter => some .emptyIteration
  | .aiter => some .emptyAsyncIteration
  | .contains => some .emptyIteration       -- `x in undefined` iterates
  | .len => some .zero
  | .eq => some .typeIdentity
  | .ne => some .notTypeIdentity
  | .hash => some .hashable
  | _ => none

def spec : Kind → Op → Outcome
  | _, .getattrDunder => .attributeError
  | _, .repr => .reprUndefined
  | .logging b, op => spec b op          -- a logging variant behaves like its base (it only adds log records)
  | k, op =>
    if alwaysRefused op then .raisesUndefined
    else match k, op with
      | .chainable, .getattr => .itself
      | .chainable, .getitem => .itself
      | .chainable, .html => .stringOfSelf
      | _, .getattr => .raisesUndefined
      | _, .getitem => .raisesUndefined
      | _, .html => .attributeError          -- no such method: found by the dunder guard
      | .strict, _ => .raisesUndefined        -- strict: nothing but `is defined` is allowed
      | .debug, .str => .debugString
      | _, op => (lenient op).getD .raisesUndefined

end JinjaV.SpecUndefined
