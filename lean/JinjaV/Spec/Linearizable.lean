/-
  Linearizability oracle for concurrent LRU histories (C26): a complete history
  (every call has returned) is linearizable iff its calls can be ordered so that
  (1) a call that returned before another was invoked comes first (real-time
  order) and (2) running them in that order on the reference LRU map produces
  exactly the observed return values (and the observed final contents).
-/
import JinjaV.Spec.LRU

namespace JinjaV.Lin
open JinjaV.LRU (K V Op Out)
open JinjaV.SpecLRU

structure Call where
  tid : Nat
  op : Op
  out : Out
  inv : Nat
  res : Nat
  deriving Repr

/-- `c` may be linearized before all of `pending` -/
def minimal (c : Call) (pending : List Call) : Bool :=
  pending.all (fun d => !(d.res < c.inv))

def search : Nat → Spec → List Call → Option (List (K × V)) → Bool
  | 0, sp, pending, fin =>
    pending.isEmpty && (match fin with | some f => f == sp.items | none => true)
  | fuel + 1, sp, pending, fin =>
    if pending.isEmpty then (match fin with | some f => f == sp.items | none => true)
    else (List.range pending.length).any fun i =>
      match pending[i]? with
      | none => false
      | some c =>
        minimal c pending &&
          (let r := SpecLRU.step sp c.op
           r.2 == c.out && search fuel r.1 (pending.eraseIdx i) fin)

def linearizable (cap : Nat) (setup : List Op) (calls : List Call) (fin : Option (List (K × V))) : Bool :=
  let sp := (SpecLRU.run (SpecLRU.init cap) setup).1
  search calls.length sp calls fin

end JinjaV.Lin
