/-
  Spec: the documented concrete syntax of Jinja expressions (docs/templates.rst "Expressions", "Math", "Comparisons",
  "Logic", "Other Operators") as a printer with *minimal* parentheses.  Binding strength, loosest first:

     0  a if c else b        (right-nested in the else branch)
     1  or                   (left associative)
     2  and                  (left associative)
     3  not
     4  == != < <= > >= in "not in"     (chains)
     5  + -                  (left associative)
     6  ~                    (n-ary)
     7  * / // %             (left associative)
     8  **                   (left associative in Jinja: 2**3**2 = (2**3)**2)
     9  unary - +            (binds tighter than **: -2**2 = 4)
    10  filters `|f` and tests `is t`   (apply to a whole unary expression: -x|abs = (-x)|abs)
    11  .attr  [item]  (call)
    12  literals, names, parenthesised expressions
-/
import JinjaV.Model.Expr

namespace JinjaV.ExprSyntax
open JinjaV.Expr

def level : Expr → Nat
  | .cond .. => 0
  | .or_ .. => 1
  | .and_ .. => 2
  | .not_ .. => 3
  | .compare .. => 4
  | .bin .add .. | .bin .sub .. => 5
  | .concat .. => 6
  | .bin .mul .. | .bin .div .. | .bin .floordiv .. | .bin .mod .. => 7
  | .bin .pow .. => 8
  | .un .. => 9
  | .filter .. => 10
  | .test _ _ [] => 12        -- printed inside its own parentheses: `(x is odd)`
  | .test .. => 10
  | .getattr .. | .getitem .. | .slice .. | .call .. => 11
  | .const _ | .name _ | .tuple _ | .list _ | .dict _ => 12

def binSym : BinOp → String
  | .add => "+" | .sub => "-" | .mul => "*" | .div => "/" | .floordiv => "//" | .mod => "%" | .pow => "**"

def cmpSym : CmpOp → String
  | .eq => "==" | .ne => "!=" | .lt => "<" | .le => "<=" | .gt => ">" | .ge => ">=" | .in_ => "in" | .notin => "not in"

def litStrBody (q : Char) : List Char → List Char
  | [] => []
  | c :: cs =>
    (if c == '\\' then ['\\', '\\'] else if c == q then ['\\', q] else if c == '\n' then ['\\', 'n']
     else if c == '\r' then ['\\', 'r'] else if c == '\t' then ['\\', 't'] else [c]) ++ litStrBody q cs

def litStr (s : String) : String :=
  let cs := s.toList
  let q := if cs.contains '\'' && !cs.contains '"' then '"' else '\''
  String.ofList (q :: litStrBody q cs ++ [q])

/-- literals that can be written in a template; anything else has no concrete syntax (`?`) -/
def litConst : Val → String
  | .none => "none"
  | .bool b => if b then "true" else "false"
  | .int i => if i < 0 then "?" else toString i
  | .str s => litStr s
  | _ => "?"

def paren (b : Bool) (s : String) : String := if b then "(" ++ s ++ ")" else s

mutual
def pretty : Expr → String
  | .const v => litConst v
  | .name n => n
  | .tuple es => "(" ++ prettyList true es ++ (if es.length == 1 then ",)" else ")")
  | .list es => "[" ++ prettyList true es ++ "]"
  | .dict kvs => "{" ++ prettyPairs true kvs ++ "}"
  | .cond t a b =>
    paren (decide (level a < 1)) (pretty a) ++ " if " ++ paren (decide (level t < 1)) (pretty t) ++ prettyElse b
  | .or_ a b => paren (decide (level a < 1)) (pretty a) ++ " or " ++ paren (decide (level b < 2)) (pretty b)
  | .and_ a b => paren (decide (level a < 2)) (pretty a) ++ " and " ++ paren (decide (level b < 3)) (pretty b)
  | .not_ a => "not " ++ paren (decide (level a < 3)) (pretty a)
  | .compare e ops => paren (decide (level e < 5)) (pretty e) ++ prettyOps ops
  | .bin op a b =>
    let l := level (.bin op a b)
    paren (decide (level a < l)) (pretty a) ++ " " ++ binSym op ++ " " ++ paren (decide (level b < (l + 1))) (pretty b)
  | .concat es => prettyCat true es
  | .un op a =>
    -- the operand of a unary operator is parsed without filters/tests: parenthesise those
    (match op with | .neg => "-" | .pos => "+") ++
      (match a with
       | .filter .. => "(" ++ pretty a ++ ")"
       | .test _ _ (_ :: _) => "(" ++ pretty a ++ ")"
       | _ => paren (decide (level a < 9)) (pretty a))
  | .filter e name args =>
    paren (decide (level e < 9)) (pretty e) ++ "|" ++ name ++ (if args.isEmpty then "" else "(" ++ prettyList true args ++ ")")
  | .test e name args =>
    if args.isEmpty then "(" ++ paren (decide (level e < 9)) (pretty e) ++ " is " ++ name ++ ")"
    else paren (decide (level e < 9)) (pretty e) ++ " is " ++ name ++ "(" ++ prettyList true args ++ ")"
  | .getattr e a => paren (decide (level e < 11)) (pretty e) ++ "." ++ a
  | .getitem e i => paren (decide (level e < 11)) (pretty e) ++ "[" ++ pretty i ++ "]"
  | .slice e a b s =>
    paren (decide (level e < 11)) (pretty e) ++ "[" ++ prettyOpt a ++ ":" ++ prettyOpt b ++
      (match s with | some s => ":" ++ pretty s | Option.none => "") ++ "]"
  | .call f args => paren (decide (level f < 11)) (pretty f) ++ "(" ++ prettyList true args ++ ")"
def prettyElse : Option Expr → String
  | Option.none => ""
  | some b => " else " ++ paren (decide (level b < 0)) (pretty b)
def prettyOpt : Option Expr → String
  | Option.none => ""
  | some e => pretty e
def prettyList (first : Bool) : List Expr → String
  | [] => ""
  | e :: es => (if first then "" else ", ") ++ pretty e ++ prettyList false es
def prettyPairs (first : Bool) : List (Expr × Expr) → String
  | [] => ""
  | (k, v) :: rest => (if first then "" else ", ") ++ pretty k ++ ": " ++ pretty v ++ prettyPairs false rest
def prettyOps : List (CmpOp × Expr) → String
  | [] => ""
  | (op, e) :: rest => " " ++ cmpSym op ++ " " ++ paren (decide (level e < 5)) (pretty e) ++ prettyOps rest
def prettyCat (first : Bool) : List Expr → String
  | [] => ""
  | e :: es => (if first then "" else " ~ ") ++ paren (decide (level e < 7)) (pretty e) ++ prettyCat false es
end

end JinjaV.ExprSyntax
