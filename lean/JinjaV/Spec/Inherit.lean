/-
  Specification of template inheritance, written from docs/templates.rst "Template Inheritance" (Base Template,
  Child Template, Super Blocks, Nesting extends, Block Nesting and Scope, Required Blocks, Template Objects) and
  docs/tricks.rst "Null-Default Fallback".  It shares only the *syntax* (`Piece`, `Tpl`, `Decl`, `findBlock`) with the
  model; there is no block registry, no root render function, no run-time flag:

  * a chain `[cₙ, …, c₀]` (most-derived first; each template extends the next one, `c₀` extends nothing) renders
    as the content of `c₀` ("base skeleton … defines blocks that child templates can override"); child templates
    contribute block definitions only.
  * a `{% block b %}` placeholder is filled with the most-derived definition of `b` in the chain
    ("since the child template doesn't define the footer block, the value from the parent template is used").
  * `super()` inside the i-th definition renders the next less-derived one; `super.super()` skips a level; absent
    → undefined.  `self.b()` renders what an unscoped placeholder `b` renders.
  * a block does not see loop / with variables of the place where it stands unless the placeholder is `scoped`; then it
    sees what is visible at the placeholder, the innermost binding of a name first (`loop` is the innermost loop's;
    the model's rule for when a loop materialises `loop` is shared, `extendedLoop`)
    ("When overriding a block, the scoped modifier does not have to be provided").
  * a `required` block "must be overridden at some point … cannot be rendered directly": a placeholder or a
    `self.b()` whose most-derived definition is a `required` declaration fails with TemplateRuntimeError; `super()`
    from an override may pass through it (it renders its whitespace).
  Core Lean only.
-/
import JinjaV.Model.Inherit

namespace JinjaV.SpecInherit
open JinjaV.Inherit

/-- every definition of block `b` along the chain, most-derived first -/
def defs (chain : List Tpl) (b : Name) : List Decl := chain.filterMap (fun t => findBlock b t.body)

/-- `render ctx b i`: render the i-th definition of `b` (0 = most derived) with context variables `ctx` -/
abbrev Callee := Vars → Name → Nat → Res

mutual
/-- `ctx` = variables every block sees, `loc` = loop variables of the surrounding body, `cur` = the definition
    being rendered (block name, level) -/
def piece (chain : List Tpl) (callee : Callee) (ctx : Vars) (cur : Option (Name × Nat)) (loc : Vars) :
    Piece → Res
  | .text s => .ok s
  | .var x => .ok (((loc ++ ctx).lookup x).getD [])
  | .block b sc _ _ =>
    match (defs chain b).head? with
    | none => .error .internal                -- a placeholder is itself a definition: cannot happen inside a chain
    | some d =>
      if d.req then .error .required
      else callee (if sc then loc ++ ctx else ctx) b 0
  | .superCall k =>
    match cur with
    | none => .error .undefined
    | some (b, i) => if i + 1 + k < (defs chain b).length then callee ctx b (i + 1 + k) else .error .undefined
  | .selfCall b =>
    match (defs chain b).head? with
    | none => .error .undefined
    | some d => if d.req then .error .required else callee ctx b 0   -- "cannot be rendered directly"
  | .forLoop x items body =>
    -- the innermost binding of a name is the visible one; `loop` is the innermost loop's
    concatM (items.zipIdx.map fun (i, k) =>
      list chain callee ctx cur (loopScope (extendedLoop body) x i k items.length ++ loc) body)
  | .ifc f body => if truthy loc ctx f then list chain callee ctx cur loc body else .ok []
  | .withv x v body => list chain callee ctx cur ((x, v) :: loc) body
  | .loopAttr a =>
    match (loc ++ ctx).lookup ("loop." ++ a) with
    | some v => .ok v
    | none => .error .undefined
  | .ext _ => .error .syntax
def list (chain : List Tpl) (callee : Callee) (ctx : Vars) (cur : Option (Name × Nat)) (loc : Vars) :
    List Piece → Res
  | [] => .ok []
  | p :: rest =>
    match piece chain callee ctx cur loc p with
    | .error e => .error e
    | .ok a => match list chain callee ctx cur loc rest with
      | .error e => .error e
      | .ok b => .ok (a ++ b)
end

/-- render the `i`-th definition of `b`; `n` bounds the nesting of block renderings (the model's budget) -/
def renderDef : Nat → List Tpl → Callee
  | 0, _, _, _, _ => .error .fuel
  | n + 1, chain, ctx, b, i =>
    match (defs chain b)[i]? with
    | none => .error .internal
    | some d => list chain (renderDef n chain) ctx (some (b, i)) [] d.body

/-- the documented result of rendering the most-derived template of `chain` -/
def renderChain (fuel : Nat) (chain : List Tpl) (vars : Vars) : Res :=
  match chain.getLast? with
  | none => .error .notFound
  | some root => list chain (renderDef fuel chain) vars none [] root.body

/-! ## which hierarchies the documentation speaks about (used by the oracle to decide whether it may judge) -/

/-- "The extends tag should be the first tag in the template": the template starts with `{% extends %}` or with
    `{% if flag %}{% extends %}{% endif %}` (the null-default fallback) -/
def headTarget (vars : Vars) : List Piece → Option Target
  | .ext t :: _ => some t
  | .ifc f [.ext t] :: _ => if truthy [] vars f then some t else none
  | _ => none

mutual
/-- no `extends` is reached at top level -/
def noLiveExtP (vars : Vars) : Piece → Bool
  | .ext _ => false
  | .ifc f body => !truthy [] vars f || noLiveExtL vars body
  | _ => true
def noLiveExtL (vars : Vars) : List Piece → Bool
  | [] => true
  | p :: ps => noLiveExtP vars p && noLiveExtL vars ps
end

mutual
/-- what may follow the `extends` of a child template in the hierarchies the theorems quantify over: anything but a
    further `extends` -/
def quietP : Piece → Bool
  | .ext _ => false
  | .forLoop _ _ body => countExtL body == 0
  | .withv _ _ body => countExtL body == 0
  | .ifc _ body => quietL body
  | _ => true
def quietL : List Piece → Bool
  | [] => true
  | p :: ps => quietP p && quietL ps
end

/-- the chain the documentation assigns to template `n`: follow the leading `extends` tags.  `none` = the hierarchy is
    not of the documented shape (text or blocks before `extends`, a second reachable `extends`, a missing or broken
    template, an undefined target, more than `hops` templates); the oracle then does not judge. -/
def resolveChain (L : List Tpl) (vars : Vars) : Nat → Name → Option (List Tpl)
  | 0, _ => none
  | h + 1, n =>
    match load L n with
    | .error _ => none
    | .ok t =>
      match headTarget vars t.body with
      | none => if noLiveExtL vars t.body then some [t] else none
      | some tg =>
        if noLiveExtL vars t.body.tail then
          match resolveTarget vars tg with
          | none => none
          | some pn => (resolveChain L vars h pn).map (t :: ·)
        else none

end JinjaV.SpecInherit
