/-
  What C27 promises, written from the property text and docs/api.rst ("Bytecode Cache"), independent of the model:

  * loading a template through a bytecode cache executes what compiling its *current* source with the *loading*
    environment's configuration gives (`expected`);
  * an intact entry for the current source is used; a truncated, foreign-interpreter or stale entry, or an entry of
    another source, is a cache miss and never raises (`entryVerdict`).
-/
namespace JinjaV.SpecBcCache

/-- how the harness made the byte string it hands to `Bucket.load_bytecode` -/
inductive Kind where
  | intact        -- written by write_bytecode for the bucket's checksum
  | truncated     -- a strict prefix of an intact entry
  | foreignMagic  -- another interpreter's / cache version's magic
  | stale         -- intact entry of an older version of the source
  | otherSource   -- intact entry of a different template
  | corrupted     -- one byte changed (outside the property's letter: judged only as far as the decoders' contracts go)
  deriving Repr, DecidableEq

inductive Verdict where
  | ok
  | violated
  | unjudged      -- the decoder left its contract (CPython's marshal/pickle on damaged data): nothing is promised
  deriving Repr, DecidableEq

/-- `outcome`: 0 = miss, 1 = hit with the stored code, 2 = hit with something else, 3 = raised.
    `decoderInContract`: every decoder exception seen was a member of the decoder's declared exception set -/
def entryVerdict (k : Kind) (outcome : Nat) (decoderInContract : Bool) : Verdict :=
  match k with
  | .intact => if outcome = 1 then .ok else .violated
  | .truncated | .foreignMagic | .stale | .otherSource => if outcome = 0 then .ok else .violated
  | .corrupted =>
    if !decoderInContract then .unjudged
    else if outcome = 3 then .violated else .ok

/-! Outside the property (documentation, not an oracle): what `get_template` does when the file system itself answers a
    cache operation with an `OSError` (open / read / creating, writing, closing the temporary / the rename).  The property
    speaks of entries found on disk by a LATER load (truncated, foreign, stale, left by a writer that died) and of histories
    of loads, modifications and clears; `BytecodeCache.dump_bytecode` is documented to raise when it cannot store.  The
    behaviour at those sites is therefore only TRANSCRIBED (Model `fsOpenFails`, `dumpRun` over the handlers read from the
    source) and pinned as facts about the current code in Props/C27; what IS the property there: after any such fault the
    next fault-free load renders the current source. -/

end JinjaV.SpecBcCache
