/-
  What C27 promises, written from the property text and docs/api.rst ("Bytecode Cache"), independent of the model:

  * loading a template through a bytecode cache executes what compiling its *current* source with the *loading*
    environment's configuration gives (`expected`);
  * an intact entry for the current source is used; a truncated, foreign-interpreter or stale entry, or an entry of
    another source, is a cache miss and never raises (`entryVerdict`).
-/
namespace JinjaV.SpecBcCache

/-- how the harness made the byte string it hands to `Bucket.load_bytecode` -/
inductive Kind where
  | intact        -- written by write_bytecode for the bucket's checksum
  | truncated     -- a strict prefix of an intact entry
  | foreignMagic  -- another interpreter's / cache version's magic
  | stale         -- intact entry of an older version of the source
  | otherSource   -- intact entry of a different template
  | corrupted     -- one byte changed (outside the property's letter: judged only as far as the decoders' contracts go)
  deriving Repr, DecidableEq

inductive Verdict where
  | ok
  | violated
  | unjudged      -- the decoder left its contract (CPython's marshal/pickle on damaged data): nothing is promised
  deriving Repr, DecidableEq

/-- `outcome`: 0 = miss, 1 = hit with the stored code, 2 = hit with something else, 3 = raised.
    `decoderInContract`: every decoder exception seen was a member of the decoder's declared exception set -/
def entryVerdict (k : Kind) (outcome : Nat) (decoderInContract : Bool) : Verdict :=
  match k with
  | .intact => if outcome = 1 then .ok else .violated
  | .truncated | .foreignMagic | .stale | .otherSource => if outcome = 0 then .ok else .violated
  | .corrupted =>
    if !decoderInContract then .unjudged
    else if outcome = 3 then .violated else .ok

/-- a failing file operation of the cache while a template is loaded: "a cache problem is never an error for the template
    user" — an operating-system error (any `OSError`) at any of the cache's file operations must leave `get_template`
    returning a template that renders what compiling the current source renders; other exceptions (KeyboardInterrupt …)
    are not the cache's to swallow and are not judged here -/
def fsFaultVerdict (isOSError propagated renderedCurrentSource : Bool) : Verdict :=
  if !isOSError then .unjudged
  else if propagated then .violated
  else if renderedCurrentSource then .ok else .violated

end JinjaV.SpecBcCache
