/-
  Spec: the concrete syntax of the statements of M-Stmt (docs/templates.rst "List of Control Structures"),
  default delimiters.  Text never contains a delimiter start in the generators' alphabet.
-/
import JinjaV.Model.Stmt
import JinjaV.Spec.ExprSyntax

namespace JinjaV.StmtSyntax
open JinjaV.Expr JinjaV.Stmt JinjaV.ExprSyntax

def commaSep : List String → String
  | [] => ""
  | [x] => x
  | x :: xs => x ++ ", " ++ commaSep xs

def prettyParam (p : String × Option Expr) : String :=
  match p.2 with
  | some d => p.1 ++ "=" ++ pretty d
  | none => p.1

/-- fuel = nesting depth bound (the printer is total; the harness passes the tree size) -/
def show_ : Nat → List Stmt → String
  | 0, _ => ""
  | _ + 1, [] => ""
  | fuel + 1, s :: rest =>
    (match s with
     | .text t => t
     | .out e => "{{ " ++ pretty e ++ " }}"
     | .ifs branches els =>
       let rec br (first : Bool) : List (Expr × List Stmt) → String
         | [] => ""
         | (c, body) :: more =>
           "{% " ++ (if first then "if " else "elif ") ++ pretty c ++ " %}" ++ show_ fuel body ++ br false more
       br true branches ++ (if els.isEmpty then "" else "{% else %}" ++ show_ fuel els) ++ "{% endif %}"
     | .for_ target iter filt body els =>
       "{% for " ++ target ++ " in " ++ ExprSyntax.paren (decide (level iter < 1)) (pretty iter) ++
         (match filt with | some f => " if " ++ pretty f | none => "") ++ " %}" ++ show_ fuel body ++
         (if els.isEmpty then "" else "{% else %}" ++ show_ fuel els) ++ "{% endfor %}"
     | .set n e => "{% set " ++ n ++ " = " ++ pretty e ++ " %}"
     | .setBlock n body => "{% set " ++ n ++ " %}" ++ show_ fuel body ++ "{% endset %}"
     | .with_ binds body =>
       "{% with " ++ commaSep (binds.map (fun b => b.1 ++ " = " ++ pretty b.2)) ++ " %}" ++ show_ fuel body ++ "{% endwith %}"
     | .macro n params body =>
       "{% macro " ++ n ++ "(" ++ commaSep (params.map prettyParam) ++ ") %}" ++ show_ fuel body ++ "{% endmacro %}"
     | .callMacro n args => "{{ " ++ n ++ "(" ++ commaSep (args.map pretty) ++ ") }}"
     | .callBlock n args body =>
       "{% call " ++ n ++ "(" ++ commaSep (args.map pretty) ++ ") %}" ++ show_ fuel body ++ "{% endcall %}"
     | .callerOut => "{{ caller() }}"
     | .filterBlock f body => "{% filter " ++ f ++ " %}" ++ show_ fuel body ++ "{% endfilter %}"
     | .nsNew n inits =>
       "{% set " ++ n ++ " = namespace(" ++ commaSep (inits.map (fun b => b.1 ++ "=" ++ pretty b.2)) ++ ") %}"
     | .nsSet ns attr e => "{% set " ++ ns ++ "." ++ attr ++ " = " ++ pretty e ++ " %}"
     | .break_ => "{% break %}"
     | .continue_ => "{% continue %}") ++ show_ fuel rest

end JinjaV.StmtSyntax
