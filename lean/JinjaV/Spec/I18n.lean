import JinjaV.Model.I18n
/-
  Specification of what a `{% trans %}` block renders to under identity translations, written from
  docs/templates.rst ("i18n" section: variables, `pluralize`, "the first variable in a block is used to determine the
  correct singular or plural form … you can specify the name which should be used for pluralizing", `trimmed`:
  "line breaks and surrounding whitespace are replaced by a single space and leading/trailing whitespace is removed")
  — the block's *source text*, not the gettext message, is the subject: no `%` doubling, no `%(name)s`.
-/
namespace JinjaV.Spec.I18n
open JinjaV.I18n

/-- a block body as source symbols: characters of the literal text and variable references -/
inductive Sym where
  | ch (c : Char)
  | ref (n : Text)
  deriving Repr, BEq, DecidableEq

def syms : Body → List Sym
  | [] => []
  | .data t :: r => t.map Sym.ch ++ syms r
  | .var n :: r => Sym.ref n :: syms r

def Sym.ws : Sym → Bool
  | .ch c => pyWs c
  | .ref _ => false

def Sym.nl : Sym → Bool
  | .ch c => isNl c
  | .ref _ => false

/-- source symbols with the variables substituted -/
def fill (σ : Text → Text) (l : List Sym) : Text :=
  l.flatMap fun | .ch c => [c] | .ref n => σ n

/-- the explicit `trimmed` / `notrimmed` flag of the tag: the first unassigned header item with that name -/
def flag : List (Text × Bool) → Option Bool
  | [] => none
  | (n, assigned) :: r =>
    if !assigned && (n == kwTrimmed || n == kwNotrimmed) then some (n == kwTrimmed) else flag r

/-- header items that are variables: everything except the flag -/
def headerVars : List (Text × Bool) → Bool → List Text
  | [], _ => []
  | (n, assigned) :: r, seen =>
    if !seen && !assigned && (n == kwTrimmed || n == kwNotrimmed) then headerVars r true
    else n :: headerVars r seen

/-- the variable that decides singular/plural -/
def countName (b : Block) : Option Text :=
  match b.plural with
  | none => none
  | some (some n, _) => some n
  | some (none, _) => (headerVars b.header false ++ (parseBlock b.singular).1).head?

/-- the body that is shown: singular without `pluralize` or when the count is 1 -/
def chosen (σ : Text → Val) (b : Block) : Body :=
  match b.plural, countName b with
  | some (_, pbody), some k => if (σ k).isOne then b.singular else pbody
  | some (_, pbody), none => pbody
  | none, _ => b.singular

/-- **the oracle**: the chosen body's source text, trimmed if the flag (or else the policy) says so, with every
    variable replaced by its value (escaped under autoescape unless it is markup) -/
def expected (policyTrimmed ae : Bool) (σ : Text → Val) (b : Block) : Text :=
  let ss := syms (chosen σ b)
  let ss := if (flag b.header).getD policyTrimmed then trimG Sym.ws Sym.nl (.ch ' ') ss else ss
  fill (fun n => (σ n).show ae) ss

/-- **extraction oracle**: a call received by a gettext callable is covered by an extracted entry for the same
    function (`_` is an alias of `gettext`) whose leading arguments are exactly the received strings -/
def covered (ex : List Extracted) (r : Recorded) : Bool :=
  ex.any fun e => effective e.func == r.func && e.strings.take r.strings.length == r.strings.map some

end JinjaV.Spec.I18n
