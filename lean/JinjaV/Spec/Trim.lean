/-
  Spec: the documented whitespace-control rules (docs/templates.rst "Whitespace Control"), applied
  to a template given as a list of segments — independently of the lexer model.

    * a `-` on a tag side removes all whitespace adjacent to that side;
    * `trim_blocks` removes the first newline after a block, comment or endraw tag (not after a
      variable tag, not after `{% raw %}`), unless the tag ends with `+`;
    * `lstrip_blocks` removes the whitespace between the start of a line and a block, comment, raw or
      endraw tag when nothing else precedes the tag on that line, unless the tag starts with `+`;
    * variable tags are never affected by the automatic options; non-whitespace is never removed.
-/
import JinjaV.Model.Lex

namespace JinjaV.Trim
open JinjaV.Lex (Str Cfg isSpace)

inductive Sign where
  | none | minus | plus
  deriving Repr, DecidableEq

inductive TagKind where
  | block | comment | variable
  deriving Repr, DecidableEq

inductive Seg where
  | text (s : Str)
  | tag (k : TagKind) (l r : Sign) (interior : Str)
  | raw (l1 : Sign) (r1minus : Bool) (body : Str) (l2 r2 : Sign)
  deriving Repr, DecidableEq

def Sign.str : Sign → Str
  | .none => [] | .minus => ['-'] | .plus => ['+']

def unparseSeg (cfg : Cfg) : Seg → Str
  | .text s => s
  | .tag .block l r i => cfg.blockStart ++ l.str ++ ' ' :: i ++ ' ' :: r.str ++ cfg.blockEnd
  | .tag .comment l r i => cfg.commentStart ++ l.str ++ ' ' :: i ++ ' ' :: r.str ++ cfg.commentEnd
  | .tag .variable l r i => cfg.varStart ++ l.str ++ ' ' :: i ++ ' ' :: r.str ++ cfg.varEnd
  | .raw l1 m body l2 r2 =>
    cfg.blockStart ++ l1.str ++ " raw ".toList ++ (if m then ['-'] else []) ++ cfg.blockEnd ++ body ++
    cfg.blockStart ++ l2.str ++ " endraw ".toList ++ r2.str ++ cfg.blockEnd

def unparse (cfg : Cfg) (segs : List Seg) : Str := (segs.map (unparseSeg cfg)).flatten

/-- what the right side of the previous tag does to the text that follows it -/
inductive RightEffect where
  | nothing | stripAll | trimNewline
  deriving Repr, DecidableEq

def rightEffect (cfg : Cfg) (automatic : Bool) (r : Sign) : RightEffect :=
  match r with
  | .minus => .stripAll
  | .plus => .nothing
  | .none => if automatic && cfg.trimBlocks then .trimNewline else .nothing

/-- apply a right effect to the following text: (what is left, is its start at the start of a line?) -/
def applyRight (e : RightEffect) (prevAtLineStart : Bool) (t : Str) : Str × Bool :=
  match e with
  | .nothing => (t, prevAtLineStart)
  | .stripAll =>
    let removed := t.takeWhile isSpace
    (t.dropWhile isSpace, if removed.isEmpty then false else removed.getLast? == some '\n')
  | .trimNewline =>
    match t with
    | '\n' :: r => (r, true)
    | _ => (t, false)

/-- apply the left side of the next tag to the preceding text -/
def applyLeft (cfg : Cfg) (isVariable : Bool) (l : Sign) (atLineStart : Bool) (t : Str) : Str :=
  match l with
  | .minus => (JinjaV.Lex.rstrip t).1
  | .plus => t
  | .none =>
    if cfg.lstripBlocks && !isVariable then
      let upto := (JinjaV.Lex.splitLastNl t).1
      let tail := (JinjaV.Lex.splitLastNl t).2
      if (!upto.isEmpty || atLineStart) && !tail.isEmpty && tail.all isSpace then upto else t
    else t

/-- left sign / variable-ness of the next segment, if it is a tag -/
def nextLeft : List Seg → Option (Bool × Sign)
  | .tag k l _ _ :: _ => some (k == .variable, l)
  | .raw l1 _ _ _ _ :: _ => some (false, l1)
  | _ => none

inductive Piece where
  | data (s : Str)       -- text that reaches the output
  | value (i : Str)      -- the value of a variable tag
  deriving Repr, DecidableEq

/-- the documented result: walk the segments carrying the pending right effect of the previous tag -/
def trimSpec (cfg : Cfg) : List Seg → RightEffect → Bool → List Piece
  | [], _, _ => []
  | .text t :: rest, e, ls =>
    let (t1, ls1) := applyRight e ls t
    let t2 := match nextLeft rest with
      | some (isVar, l) => applyLeft cfg isVar l ls1 t1
      | none => t1
    -- after a text segment nothing is pending; the position is at a line start iff the kept text ends a line
    .data t2 :: trimSpec cfg rest .nothing (if t.isEmpty then ls1 else false)
  | .tag k _ r i :: rest, _, _ =>
    (if k == .variable then [.value i] else []) ++
      trimSpec cfg rest (rightEffect cfg (k != .variable) r) false
  | .raw _ m body l2 r2 :: rest, _, _ =>
    let (b1, ls1) := applyRight (if m then .stripAll else .nothing) false body
    .data (applyLeft cfg false l2 ls1 b1) :: trimSpec cfg rest (rightEffect cfg true r2) false

def render (ps : List Piece) (valueOf : Str → Str) : Str :=
  (ps.map fun p => match p with | .data s => s | .value i => valueOf i).flatten

/-- adjacent text segments are one text as far as the rules are concerned -/
def mergeTexts : List Seg → List Seg
  | .text a :: .text b :: rest => mergeTexts (.text (a ++ b) :: rest)
  | s :: rest => s :: mergeTexts rest
  | [] => []
termination_by l => l.length

/-- "Jinja normalises line breaks": `\r\n`, `\r` and `\n` are the line breaks of a template (docs/api.rst,
    `newline_sequence`; lexer.py `newline_re`); the whitespace rules speak about line breaks, so they apply to CRLF and
    lone-CR sources as they do to `\n` sources. A `\r` that ends one text and a `\n` that starts the text after a
    tag are two line breaks. -/
def normNl : Str → Str
  | [] => []
  | '\r' :: '\n' :: r => '\n' :: normNl r
  | '\r' :: r => '\n' :: normNl r
  | c :: r => c :: normNl r

def normSeg : Seg → Seg
  | .text s => .text (normNl s)
  | .tag k l r i => .tag k l r (normNl i)
  | .raw l1 m body l2 r2 => .raw l1 m (normNl body) l2 r2

/-- the documented result for a skeleton with any of the three line breaks (texts merged first, so that a `\r\n`
    whose halves lie in two adjacent text segments is one line break) -/
def documented (cfg : Cfg) (segs : List Seg) : List Piece :=
  trimSpec cfg ((mergeTexts segs).map normSeg) .nothing true

end JinjaV.Trim
