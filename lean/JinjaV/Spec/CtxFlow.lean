/-
  Spec — the documented context visibility of `include` and `import`, written from docs/templates.rst
  ("Include", "Import", "Import Context Behavior") and docs/api.rst ("The Global Namespace"); independent of
  Model/CtxFlow.lean (nothing is imported).  A mapping is just a lookup function `name → Option value`.

  * "The included template has access to context of the current template by default. Use `without context` to use a
    separate context instead."  "As of Jinja 2.1, render_box.html *is* able to [access the loop variable `box`]":
    with context the target sees the current local variables and the current context; a local variable is the
    innermost binding of its name, so it wins.
  * "imported templates don't have access to the current template variables, just the globals by default":
    globals = the environment's globals and the globals a template was loaded with (`get_template(globals=…)`,
    api.rst: "Template.globals are … available to every render of that template"); since 3.0 (CHANGES: "imported
    macros [have] access to the current template's globals") also those of the importing template.
  * "by adding `with context` or `without context` to the import/include directive, the current context can be passed
    to the template".
  * "Macros and variables starting with one or more underscores are private and cannot be imported."
  * "Use `ignore missing` to ignore the statement if the template does not exist."  "If a list of templates is given,
    each will be tried in order until one is not missing."
-/
namespace JinjaV.SpecCtxFlow

abbrev Lookup (α : Type) := String → Option α

/-- "access to the current context and current local variables" -/
def withContextSees {α} (locals context : Lookup α) : Lookup α :=
  fun n => match locals n with
    | some v => some v
    | none => context n

/-- "only globals": a separate context that holds the target template's own globals -/
def includeSees {α} (withContext : Bool) (locals context targetGlobals : Lookup α) : Lookup α :=
  if withContext then withContextSees locals context else targetGlobals

/-- "just the globals by default": the imported template's own globals, then those of the importing template -/
def importSees {α} (withContext : Bool) (locals context targetGlobals importerGlobals : Lookup α) : Lookup α :=
  if withContext then withContextSees locals context
  else fun n => match targetGlobals n with
    | some v => some v
    | none => importerGlobals n

/-- The attributes of an imported module: "exactly the target's public top-level macros and assignments".
    `history` lists the target's top-level bindings in execution order as (name, made by set/macro?, value); the
    binding of a name that is *current* at the end decides. -/
def exports {α} (isPublic : String → Bool) (history : List (String × Bool × α)) : Lookup α :=
  fun n =>
    if isPublic n then
      match history.reverse.find? (fun b => b.1 = n) with
      | some (_, true, v) => some v
      | _ => none
    else none

/-- "each will be tried in order until one is not missing" -/
def selectFirst {ι} (existing : ι → Bool) (names : List ι) : Option ι := names.find? existing

/-- "ignore the statement if the template does not exist" (for a list: "if none of the templates exist") -/
def ignoredWhen {ι} (existing : ι → Bool) (names : List ι) : Bool := names.all fun n => !existing n

end JinjaV.SpecCtxFlow
