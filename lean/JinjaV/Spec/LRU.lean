/-
  Spec: the reference least-recently-used map the property C26 speaks about.
  One association list, most recently used first, at most `cap` entries.
  Written independently of `Model/LRU.lean` (shares only the `Op`/`Out` types).
-/
import JinjaV.Model.LRU

namespace JinjaV.SpecLRU
open JinjaV.LRU (K V Op Out)

structure Spec where
  cap : Nat
  items : List (K × V)      -- most recently used first, keys pairwise distinct
  deriving Repr, BEq, DecidableEq

def init (cap : Nat) : Spec := { cap := cap, items := [] }

def find (l : List (K × V)) (k : K) : Option V :=
  match l with
  | [] => none
  | (k', v) :: r => if k' = k then some v else find r k

def remove (l : List (K × V)) (k : K) : List (K × V) :=
  match l with
  | [] => []
  | (k', v) :: r => if k' = k then remove r k else (k', v) :: remove r k

/-- use `k` (it becomes most recent) -/
def touch (sp : Spec) (k : K) (v : V) : Spec :=
  { sp with items := (k, v) :: remove sp.items k }

/-- insert a new or existing key as most recent; when a *new* key arrives at a full
    map the least recently used entry (the last one) is dropped first -/
def put (sp : Spec) (k : K) (v : V) : Spec :=
  match find sp.items k with
  | some _ => touch sp k v
  | none =>
    if sp.items.length = sp.cap then { sp with items := (k, v) :: sp.items.dropLast }
    else { sp with items := (k, v) :: sp.items }

def step (sp : Spec) : Op → Spec × Out
  | .getitem k => match find sp.items k with
    | some v => (touch sp k v, .val v)
    | none => (sp, .keyError)
  | .get k d => match find sp.items k with
    | some v => (touch sp k v, .val v)
    | none => (sp, .val d)
  | .set k v => (put sp k v, .none)
  | .del k => match find sp.items k with
    | some _ => ({ sp with items := remove sp.items k }, .none)
    | none => (sp, .keyError)
  | .setdefault k d => match find sp.items k with
    | some v => (touch sp k v, .val v)
    | none => (put sp k d, .val d)
  | .contains k => (sp, .bool (find sp.items k).isSome)
  | .len => (sp, .nat sp.items.length)
  | .clear => ({ sp with items := [] }, .none)
  | .copy => (sp, .none)
  | .pickle => (sp, .none)
  | .keys => (sp, .keys (sp.items.map Prod.fst))
  | .iter => (sp, .keys (sp.items.map Prod.fst))
  | .reversed => (sp, .keys (sp.items.map Prod.fst).reverse)
  | .items => (sp, .items sp.items)
  | .values => (sp, .vals (sp.items.map Prod.snd))

def run (sp : Spec) : List Op → Spec × List Out
  | [] => (sp, [])
  | op :: ops =>
    let (sp', o) := step sp op
    let (sp'', os) := run sp' ops
    (sp'', o :: os)

end JinjaV.SpecLRU
