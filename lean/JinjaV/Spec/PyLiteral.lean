/-
  Python's lexical grammar for numeric literals and the escape sequences of string literals, transcribed from
  The Python Language Reference, "Lexical analysis" (sections "Integer literals", "Floating-point literals",
  "String and Bytes literals" / "Escape sequences").  Independent of the recognisers in `Model/Lex.lean` and of
  the conversions in `Model/Literal.lean`: the grammar is *data* (`G`), its meaning is the usual derivation
  relation (`Derives`), and `G.accepts` decides it by Brzozowski derivatives (`accepts_iff` in
  `Lemmas/PyLiteral.lean`), so
  that the very same grammar can be run by the driver against Python's own tokenizer.

  Core Lean only.
-/
namespace JinjaV.Spec.PyLit

abbrev Str := List Char

-- a grammar notation with exactly the operators the reference uses -----------------------------------------

inductive G where
  | none                      -- no string
  | eps                       -- the empty string
  | cls (p : Char → Bool)     -- one character of a class
  | seq (a b : G)             -- a b
  | alt (a b : G)             -- a | b
  | star (a : G)              -- a*

namespace G
def lit (c : Char) : G := cls (· == c)
def opt (a : G) : G := alt a eps          -- [a]
def plus (a : G) : G := seq a (star a)    -- a+
end G

inductive Derives : G → Str → Prop where
  | eps : Derives .eps []
  | cls {p : Char → Bool} {c : Char} : p c = true → Derives (.cls p) [c]
  | seq {a b : G} {s t : Str} : Derives a s → Derives b t → Derives (.seq a b) (s ++ t)
  | altL {a b : G} {s : Str} : Derives a s → Derives (.alt a b) s
  | altR {a b : G} {s : Str} : Derives b s → Derives (.alt a b) s
  | starNil {a : G} : Derives (.star a) []
  | starCons {a : G} {s t : Str} : Derives a s → Derives (.star a) t → Derives (.star a) (s ++ t)

def G.nullable : G → Bool
  | .none => false
  | .eps => true
  | .cls _ => false
  | .seq a b => a.nullable && b.nullable
  | .alt a b => a.nullable || b.nullable
  | .star _ => true

/-- the strings `s` with `c :: s` in the language -/
def G.deriv (c : Char) : G → G
  | .none => .none
  | .eps => .none
  | .cls p => if p c then .eps else .none
  | .seq a b => if a.nullable then .alt (.seq (a.deriv c) b) (b.deriv c) else .seq (a.deriv c) b
  | .alt a b => .alt (a.deriv c) (b.deriv c)
  | .star a => .seq (a.deriv c) (.star a)

def G.derivs (g : G) (s : Str) : G := s.foldl (fun g c => g.deriv c) g

/-- decision procedure for `Derives g s` -/
def G.accepts (g : G) (s : Str) : Bool := (g.derivs s).nullable

-- Integer literals ------------------------------------------------------------------------------------------
--   integer      ::=  decinteger | bininteger | octinteger | hexinteger
--   decinteger   ::=  nonzerodigit (["_"] digit)* | "0"+ (["_"] "0")*
--   bininteger   ::=  "0" ("b" | "B") (["_"] bindigit)+
--   octinteger   ::=  "0" ("o" | "O") (["_"] octdigit)+
--   hexinteger   ::=  "0" ("x" | "X") (["_"] hexdigit)+
--   nonzerodigit ::=  "1"..."9"
--   digit        ::=  "0"..."9"
--   bindigit     ::=  "0" | "1"
--   octdigit     ::=  "0"..."7"
--   hexdigit     ::=  digit | "a"..."f" | "A"..."F"

open G in
section
def isDigitC (c : Char) : Bool := '0' ≤ c && c ≤ '9'
def isNonzeroC (c : Char) : Bool := '1' ≤ c && c ≤ '9'
def isBinC (c : Char) : Bool := c == '0' || c == '1'
def isOctC (c : Char) : Bool := '0' ≤ c && c ≤ '7'
def isHexC (c : Char) : Bool := isDigitC c || ('a' ≤ c && c ≤ 'f') || ('A' ≤ c && c ≤ 'F')

def digit : G := cls isDigitC
def nonzerodigit : G := cls isNonzeroC
def bindigit : G := cls isBinC
def octdigit : G := cls isOctC
def hexdigit : G := cls isHexC

def decinteger : G :=
  alt (seq nonzerodigit (star (seq (opt (lit '_')) digit)))
      (seq (plus (lit '0')) (star (seq (opt (lit '_')) (lit '0'))))
def bininteger : G := seq (lit '0') (seq (alt (lit 'b') (lit 'B')) (plus (seq (opt (lit '_')) bindigit)))
def octinteger : G := seq (lit '0') (seq (alt (lit 'o') (lit 'O')) (plus (seq (opt (lit '_')) octdigit)))
def hexinteger : G := seq (lit '0') (seq (alt (lit 'x') (lit 'X')) (plus (seq (opt (lit '_')) hexdigit)))
def integer : G := alt decinteger (alt bininteger (alt octinteger hexinteger))

-- Floating-point literals -----------------------------------------------------------------------------------
--   floatnumber   ::=  pointfloat | exponentfloat
--   pointfloat    ::=  [digitpart] fraction | digitpart "."
--   exponentfloat ::=  (digitpart | pointfloat) exponent
--   digitpart     ::=  digit (["_"] digit)*
--   fraction      ::=  "." digitpart
--   exponent      ::=  ("e" | "E") ["+" | "-"] digitpart

def digitpart : G := seq digit (star (seq (opt (lit '_')) digit))
def fraction : G := seq (lit '.') digitpart
def exponent : G := seq (alt (lit 'e') (lit 'E')) (seq (opt (alt (lit '+') (lit '-'))) digitpart)
def pointfloat : G := alt (seq (opt digitpart) fraction) (seq digitpart (lit '.'))
def exponentfloat : G := seq (alt digitpart pointfloat) exponent
def floatnumber : G := alt pointfloat exponentfloat
end

-- values ------------------------------------------------------------------------------------------------------

/-- value of a digit character (`0-9`, `a-f`, `A-F`) -/
def digitValue (c : Char) : Nat :=
  if 'a' ≤ c && c ≤ 'f' then c.toNat - 87
  else if 'A' ≤ c && c ≤ 'F' then c.toNat - 55
  else c.toNat - 48

/-- "Underscores are ignored for determining the numeric value of the literal": the digits read in `base`,
    on top of `acc` -/
def digitsValueFrom (base : Nat) : Nat → Str → Nat
  | acc, [] => acc
  | acc, c :: r => if c == '_' then digitsValueFrom base acc r else digitsValueFrom base (acc * base + digitValue c) r

def digitsValue (base : Nat) (s : Str) : Nat := digitsValueFrom base 0 s

/-- the number an `integer` spelling denotes: the prefix selects the base -/
def integerValue (s : Str) : Nat :=
  match s with
  | '0' :: 'b' :: r => digitsValue 2 r
  | '0' :: 'B' :: r => digitsValue 2 r
  | '0' :: 'o' :: r => digitsValue 8 r
  | '0' :: 'O' :: r => digitsValue 8 r
  | '0' :: 'x' :: r => digitsValue 16 r
  | '0' :: 'X' :: r => digitsValue 16 r
  | _ => digitsValue 10 s

def pyInteger? (s : Str) : Option Nat := if integer.accepts s then some (integerValue s) else none

def isExpMark (c : Char) : Bool := c == 'e' || c == 'E'
def countDigits (s : Str) : Nat := (s.filter isDigitC).length

/-- the written exponent: optional sign, then digits -/
def expValue (x : Str) : Int :=
  match x with
  | '-' :: d => - (digitsValue 10 d : Int)
  | '+' :: d => (digitsValue 10 d : Int)
  | d => (digitsValue 10 d : Int)

/-- the decimal a `floatnumber` spelling denotes, as `(mantissa, exponent)` meaning `mantissa * 10 ^ exponent`:
    the digits before the exponent mark with the point removed, and the written exponent lowered by the number
    of digits after the point -/
def floatDecimal (s : Str) : Nat × Int :=
  let m := s.takeWhile (fun c => !isExpMark c)
  let x := (s.dropWhile (fun c => !isExpMark c)).drop 1
  let ip := m.takeWhile (· != '.')
  let fp := (m.dropWhile (· != '.')).drop 1
  (digitsValue 10 (ip ++ fp), expValue x - (countDigits fp : Int))

def pyFloat? (s : Str) : Option (Nat × Int) := if floatnumber.accepts s then some (floatDecimal s) else none

-- String literals: escape sequences ------------------------------------------------------------------------
--   \<newline> ignored | \\ | \' | \" | \a BEL | \b BS | \f FF | \n LF | \r CR | \t TAB | \v VT
--   \ooo  character with octal value ooo (up to three octal digits)
--   \xhh  character with hex value hh (exactly two)      \uxxxx (exactly four)      \Uxxxxxxxx (exactly eight)
--   \N{name}  named character (not modelled)
--   "Unlike Standard C, all unrecognized escape sequences are left in the string unchanged, i.e., the
--    backslash is left in the result."

-- code points are `Nat` (a Python `str` may hold lone surrogates, a Lean `Char` cannot)

inductive StrErr where
  | syntax      -- malformed \x \u \U escape, code point above 0x10ffff, backslash at the very end
  | named       -- \N{...}
  deriving Repr, DecidableEq

def hexValue? (c : Nat) : Option Nat :=
  if 48 ≤ c && c ≤ 57 then some (c - 48)
  else if 97 ≤ c && c ≤ 102 then some (c - 87)
  else if 65 ≤ c && c ≤ 70 then some (c - 55)
  else none

def octValue? (c : Nat) : Option Nat := if 48 ≤ c && c ≤ 55 then some (c - 48) else none

/-- exactly `n` hex digits: their value and the rest -/
def takeHex : Nat → Nat → List Nat → Option (Nat × List Nat)
  | 0, acc, s => some (acc, s)
  | _ + 1, _, [] => none
  | n + 1, acc, c :: r => match hexValue? c with
    | some d => takeHex n (acc * 16 + d) r
    | none => none

/-- up to `n` octal digits: their value and the rest -/
def takeOct : Nat → Nat → List Nat → Nat × List Nat
  | 0, acc, s => (acc, s)
  | _ + 1, acc, [] => (acc, [])
  | n + 1, acc, c :: r => match octValue? c with
    | some d => takeOct n (acc * 8 + d) r
    | none => (acc, c :: r)

def simpleEscape? (c : Nat) : Option Nat :=
  if c == 92 then some 92 else if c == 39 then some 39 else if c == 34 then some 34
  else if c == 97 then some 7 else if c == 98 then some 8 else if c == 102 then some 12
  else if c == 110 then some 10 else if c == 114 then some 13 else if c == 116 then some 9
  else if c == 118 then some 11 else none

/-- one item of a string literal body after the backslash `\ c`: the code points it stands for and the rest -/
def escapeItem (c : Nat) (r : List Nat) : Except StrErr (List Nat × List Nat) :=
  if c == 10 then .ok ([], r)
  else match simpleEscape? c with
  | some v => .ok ([v], r)
  | none =>
    match octValue? c with
    | some d => .ok ([(takeOct 2 d r).1], (takeOct 2 d r).2)
    | none =>
      let hexEsc (n : Nat) : Except StrErr (List Nat × List Nat) :=
        match takeHex n 0 r with
        | some (v, r') => if v > 0x10ffff then .error .syntax else .ok ([v], r')
        | none => .error .syntax
      if c == 120 then hexEsc 2
      else if c == 117 then hexEsc 4
      else if c == 85 then hexEsc 8
      else if c == 78 then .error .named
      else .ok ([92, c], r)

/-- the value of the text between the quotes of a (non-raw, `str`) literal; line breaks inside the quotes are
    taken as in a triple-quoted literal -/
def strValueF : Nat → List Nat → Except StrErr (List Nat)
  | 0, _ => .ok []
  | _ + 1, [] => .ok []
  | _ + 1, [92] => .error .syntax
  | n + 1, 92 :: c :: r =>
    match escapeItem c r with
    | .error e => .error e
    | .ok (out, r') =>
      match strValueF n r' with
      | .error e => .error e
      | .ok v => .ok (out ++ v)
  | n + 1, c :: r =>
    match strValueF n r with
    | .error e => .error e
    | .ok v => .ok (c :: v)

def strValue (body : List Nat) : Except StrErr (List Nat) := strValueF (body.length + 1) body

end JinjaV.Spec.PyLit
