/-
  Finding F3 (C04): a `required` block declared in a template that is not the root of the chain.

    c0  [{% block b %}base{% endblock %}]
    c1  {% extends "c0" %}{% block b required %}{% endblock %}
    c2  {% extends "c1" %}

  Rendering c2 (or c1) gives `[]`; the documentation ("must be overridden at some point … cannot be rendered directly")
  asks for TemplateRuntimeError.  The `len(context.blocks[name]) <= 1` test is emitted at the declaring template's own
  call site only (compiler.py:964-971); the root function of a child never executes its top-level call sites, and the
  test counts the ancestors' definitions.

  The model exhibits what the replay exhibits on the code: the full-strength statement `C04.RequiredAnywhere` is false.
  Built separately from the property's obligations; if /repo is repaired the correspondence run reports the model as
  drifted and this witness has to go together with the model's transcription of the check.
-/
import JinjaV.Props.C04

namespace JinjaV.Findings.F3
open JinjaV.Inherit JinjaV.SpecInherit JinjaV.C04

def c0 : Tpl := ⟨"c0", [tx "[", .block "b" false false [tx "base"], tx "]"]⟩
def c1 : Tpl := ⟨"c1", [.ext (.lit "c0"), .block "b" false true []]⟩
def c2 : Tpl := ⟨"c2", [.ext (.lit "c1")]⟩

theorem F3_chain : IsChain [c0, c1, c2] [] [c2, c1, c0] :=
  ⟨rfl, ⟨.lit "c1", rfl, rfl, rfl⟩, rfl, ⟨.lit "c0", rfl, rfl, rfl⟩, rfl, rfl⟩

/-- the model renders `[]` … -/
theorem F3_model : renderTemplate [c0, c1, c2] 4 4 [] "c2" = .ok "[]".toList := by decide
/-- … the documentation asks for TemplateRuntimeError -/
theorem F3_spec : renderChain 4 [c2, c1, c0] [] = .error .required := by decide

theorem F3_witness : ¬ RequiredAnywhere := by
  intro h
  have := h [c0, c1, c2] [] c2 [c1, c0] 4 4 F3_chain (by decide) (by decide)
  rw [show c2.name = "c2" from rfl, F3_model, F3_spec] at this
  cases this

/-- the same with the declaring template rendered directly (most-derived template declares `required`) -/
theorem F3_leaf : renderTemplate [c0, c1, c2] 4 4 [] "c1" = .ok "[]".toList
    ∧ renderChain 4 [c1, c0] [] = .error .required := by decide

/-- the hypothesis of `render_chain` is what fails -/
theorem F3_not_agree : agreeAll [c2, c1, c0] = false := by decide

end JinjaV.Findings.F3
