import JinjaV.Model.Inherit
import JinjaV.Spec.Inherit
namespace JinjaV.Findings.F3
end JinjaV.Findings.F3
