/-
  Known finding C15:autoescape-region-around-block — the model exhibits the defect the replay exhibits in the code:
  `Environment(autoescape=False)`, `{% autoescape true %}{% block c %}{{ d }}{% endblock %}{% endautoescape %}`, d = `<x>`
  renders `<x>`.  Built separately; not an obligation.
-/
import JinjaV.Model.AutoescRegion
namespace JinjaV.Findings.F20
open JinjaV.Escape JinjaV.AutoescRegion

theorem region_statement_witness : ¬ RegionStatement := by
  intro h
  have := h false false (.region true (.block (.data "<x>".toList)))
  revert this
  decide +kernel

example : render false false (.region true (.seq (.data "<x>".toList) (.block (.data "<x>".toList)))) = "&lt;x&gt;<x>".toList := by
  decide +kernel

end JinjaV.Findings.F20
