/-
  F15 (known finding of C38, key `C38:swallow:getitem-str-argument`): the full-strength statement
  "every broad render-time handler re-raises the same object or is on the documented allow-list" is false on the
  table READ from the unchanged source: `Environment.getitem` and `SandboxedEnvironment.getitem` hold
  `try: attr = str(argument) except Exception: pass`.  Built separately (not an obligation); when it stops
  proving, the finding no longer reproduces in the source.
-/
import JinjaV.Props.C38

namespace JinjaV.Findings.F15
open JinjaV.C38

theorem f15_witness : ¬ BroadHandlersOkStatement := by
  unfold BroadHandlersOkStatement
  decide +kernel

end JinjaV.Findings.F15
