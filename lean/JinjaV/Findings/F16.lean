/-
  Finding F16 (C05): the model exhibits the defect the replay exhibits in the code.

    lib  : {% macro show() %}[{{ g }}]{% endmacro %}
    main : {% import "lib" as lib %}{{ lib.show() }}
    env.get_template('main', globals={'g': 'GLOBAL'}).render(g='LOCAL')   →   [LOCAL]

  `_get_default_module(ctx)` (environment.py:1436-1439, 1451-1454) builds the extra variables of the imported module as
  `{k: ctx.parent[k] for k in ctx.globals_keys - self.globals.keys()}`; `ctx.parent` is `dict(globals, **render_vars)`,
  so the render variable `g` is what the module — imported WITHOUT context — sees.  The full-strength statement
  `C05.ImportStatement` is therefore false; `C05.import_ctx` carries the hypothesis `NoShadow`.
  Second face (`f16_keyerror_witness`): for a context created `shared` (a template included with context that has its
  own globals) the key can be absent from `ctx.parent` and the import raises KeyError.
  Built separately (`lake build JinjaV.Findings.F16`), not an obligation.
-/
import JinjaV.Props.C05
namespace JinjaV.Findings.F16
open JinjaV.CtxFlow JinjaV.C05

/-- main loaded with globals {g: GLOBAL}, rendered with g=LOCAL, importing lib (no own globals) without context -/
def situation : Situation String :=
  { ctx := rootContext [("g", "GLOBAL")] [("g", "LOCAL")]
    locals := []
    srcGlobals := [("g", "GLOBAL")]
    tgtGlobals := []
    kind := .imp
    withCtx := false }

theorem model_shows_local : (targetCtx situation).map (fun c => c.resolve "g") = some (some "LOCAL") := by decide

theorem spec_says_global :
    SpecCtxFlow.importSees false (Locals.val situation.locals) situation.ctx.resolve situation.tgtGlobals.get
      situation.srcGlobals.get "g" = some "GLOBAL" := by decide

theorem f16_witness : ¬ ImportStatement := by
  intro h
  have wf : GlobalsKeysOf situation := by intro k; simp [situation, rootContext, newContext, Env.keys]
  obtain ⟨c, hc, hs⟩ := h String situation rfl wf
  have h1 := model_shows_local
  rw [hc] at h1
  have h2 := hs "g"
  have hw : situation.withCtx = false := rfl
  rw [hw, spec_says_global] at h2
  simp only [Option.map_some, Option.some.injEq] at h1
  simp only [sees] at h2
  rw [h1] at h2
  exact absurd h2 (by decide)

/-- t (own globals {g}) is included with context by a template whose context has no g; t imports lib -/
def keyErrorSituation : Situation String :=
  { ctx := newContext [("g", "G")] (some [("x", "1")]) true []
    locals := []
    srcGlobals := [("g", "G")]
    tgtGlobals := []
    kind := .imp
    withCtx := false }

theorem f16_keyerror_witness : targetCtx keyErrorSituation = none ∧ GlobalsKeysOf keyErrorSituation := by
  constructor
  · have : (targetCtx keyErrorSituation).isNone = true := by decide
    cases h : targetCtx keyErrorSituation with
    | none => rfl
    | some c => simp [h] at this
  · intro k; simp [keyErrorSituation, newContext, Env.keys]

/-- Third face: inside a `scoped` block the context is `Context.derived(…)`, created with `globals=None`: its
    `globals_keys` are empty, so `GlobalsKeysOf` — the well-formedness hypothesis of `import_ctx` — does not hold and
    the import sees none of the importing template's globals. -/
def scopedBlockSituation : Situation String :=
  { ctx := newContext [] (some (rootContext [("g", "G")] []).getAll) true []
    locals := []
    srcGlobals := [("g", "G")]
    tgtGlobals := []
    kind := .imp
    withCtx := false }

theorem f16_scoped_block_witness :
    ¬ GlobalsKeysOf scopedBlockSituation ∧
    (targetCtx scopedBlockSituation).map (fun c => c.resolve "g") = some none ∧
    SpecCtxFlow.importSees false (Locals.val scopedBlockSituation.locals) scopedBlockSituation.ctx.resolve
      scopedBlockSituation.tgtGlobals.get scopedBlockSituation.srcGlobals.get "g" = some "G" := by
  refine ⟨?_, by decide, by decide⟩
  intro h
  have := (h "g").mpr (by simp [scopedBlockSituation, Env.keys])
  simp [scopedBlockSituation, newContext, Env.keys] at this

end JinjaV.Findings.F16
