/-
  Finding F16 (C05) — FIXED in /repo by 1454414.  Kept as a record of why the old read site was wrong.

  Before the fix `_get_default_module(ctx)` built the imported module's extra variables as
  `{k: ctx.parent[k] for k in ctx.globals_keys - self.globals.keys()}` and `Context.derived` created its context with
  `globals=None`.  `oldTargetCtx` below is the former transcription; on the three replays it shows what the old code
  showed, while the current model (`CtxFlow.targetCtx`, reading `ctx._globals`) gives what `C05.import_ctx` proves:
    1. a render variable shadows the importer's global      [LOCAL] instead of [GLOBAL]
    2. the key is absent from a shared parent               KeyError instead of [GB]
    3. a derived context (scoped block) had no globals_keys [~] instead of [G]
  Built separately (`lake build JinjaV.Findings.F16`), not an obligation.
-/
import JinjaV.Props.C05
namespace JinjaV.Findings.F16
open JinjaV.CtxFlow JinjaV.C05

/-- `{k: parent[k] for k in keys}`; `none` = KeyError -/
def lookupAll {α} (parent : Env α) : List Name → Option (Env α)
  | [] => some []
  | k :: r =>
    match parent.get k, lookupAll parent r with
    | some v, some e => some ((k, v) :: e)
    | _, _ => none

/-- the default-import arm of `targetCtx` as it was before 1454414 -/
def oldTargetCtx {α} (s : Situation α) : Option (Ctx α) :=
  match lookupAll s.ctx.parent (extraKeys s.ctx s.tgtGlobals) with
  | none => none
  | some extra =>
    if extra.isEmpty then some (newContext s.tgtGlobals none false [])
    else some (newContext s.tgtGlobals (some extra) false [])

/-- 1: main loaded with globals {g: GLOBAL}, rendered with g=LOCAL, imports lib without context -/
def shadow : Situation String :=
  { ctx := rootContext [("g", "GLOBAL")] [("g", "LOCAL")]
    locals := []
    srcGlobals := [("g", "GLOBAL")]
    tgtGlobals := []
    kind := .imp
    withCtx := false }

theorem f16_shadow :
    (oldTargetCtx shadow).map (fun c => c.resolve "g") = some (some "LOCAL") ∧
    (targetCtx shadow).resolve "g" = some "GLOBAL" := ⟨by decide, by decide⟩

/-- 2: B (own globals {g: GB}) is included with context by a template whose context has no g; B imports C -/
def sharedParent : Situation String :=
  { ctx := newContext [("g", "GB")] (some [("x", "1")]) true []
    locals := []
    srcGlobals := [("g", "GB")]
    tgtGlobals := []
    kind := .imp
    withCtx := false }

theorem f16_keyerror :
    (oldTargetCtx sharedParent).isNone = true ∧ (targetCtx sharedParent).resolve "g" = some "GB" :=
  ⟨by decide, by decide⟩

/-- 3: the context of a scoped block.  `oldDerived` = `Context.derived` before the fix (globals=None) -/
def oldDerived {α} (c : Ctx α) (l : Locals α) : Ctx α := newContext [] (some c.getAll) true l

def scopedBlock (derive : Ctx String → Locals String → Ctx String) : Situation String :=
  { ctx := derive (rootContext [("g", "G")] []) []
    locals := []
    srcGlobals := [("g", "G")]
    tgtGlobals := []
    kind := .imp
    withCtx := false }

theorem f16_scoped_block :
    (oldTargetCtx (scopedBlock oldDerived)).map (fun c => c.resolve "g") = some none ∧
    (targetCtx (scopedBlock Ctx.derived)).resolve "g" = some "G" := ⟨by decide, by decide⟩

end JinjaV.Findings.F16
