/-
  F10a (known finding of C27): freshness does not hold across environments whose configurations compile differently
  but share one cache — the cache key is SHA-1(name|filename), the checksum SHA-1(source); the configuration is in
  neither (`key_ignores_configuration`).  Negation witness of the unrestricted `history_fresh` statement on a
  two-load history.  Not an obligation of the check (built with `lake build JinjaV.Findings.F10a`).
-/
import JinjaV.Props.C27

namespace JinjaV.Findings.F10a
open JinjaV.BcCache JinjaV.C27

/-- the statement `history_fresh` would be without the `CompilesLike` hypothesis -/
def HistoryFreshShared : Prop :=
  ∀ (lc : LoadCfg) (cd : Codec Nat Nat Nat) (compile : Nat → Nat → Nat),
    lc.magic = cd.magic → (∀ a b, cd.hash a = cd.hash b → a = b) → RoundTrip cd.encCk cd.pl → RoundTrip cd.encCode cd.ml →
    ∀ (ops : List (Op Nat Nat)) (src : Nat → Nat),
      (Sys.run lc cd compile { src := src, cache := fun _ => none } ops).2 = specRun compile src ops

/-- configuration 1 loads the template, then configuration 2 loads it: the second load executes configuration 1's code -/
theorem shared_cache_serves_other_configuration :
    (Sys.run (genCfg exCodec.magic) exCodec (fun c s => 100 * c + s) { src := fun _ => 1, cache := fun _ => none }
      [.load 1 0, .load 2 0]).2 = [.served 101, .served 101] := by decide

theorem history_fresh_shared_false : ¬ HistoryFreshShared := by
  intro h
  have := h (genCfg exCodec.magic) exCodec (fun c s => 100 * c + s) rfl (fun a b h => h) exDec_rt exDec_rt
    [.load 1 0, .load 2 0] (fun _ => 1)
  rw [shared_cache_serves_other_configuration] at this
  revert this
  decide

end JinjaV.Findings.F10a
