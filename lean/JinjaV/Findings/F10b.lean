/-
  F10b (known finding of C27): `LoadTotal` is false for `Bucket.load_bytecode` as it is in the source, because
  `pickle.load` (bccache.py:71) is under no handler.  Witness: an entry cut right after the magic, a decoder that
  raises EOFError on empty input.  This file stops building once the call is guarded (then `load_total_of_guarded`
  gives `LoadTotal (genCfg magic)` and the finding is to be recorded as fixed).
-/
import JinjaV.Props.C27

namespace JinjaV.Findings.F10b
open JinjaV.BcCache JinjaV.C27

theorem pickle_site_unguarded : pickleGuarded = false := by decide

theorem load_total_false : ¬ LoadTotal (genCfg [7, 7]) := by
  intro h
  have := h (Ck := Nat) (Code := Nat) exDec exDec (exDec_contract _ (by decide) (by decide))
    (exDec_contract _ (by decide) (by decide)) 5 [7, 7]
  revert this
  decide

end JinjaV.Findings.F10b
