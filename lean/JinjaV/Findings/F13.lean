/-
  Finding F13 (C14): the model exhibits the defect the replay exhibits in the code.  `'\é'`: the body is a backslash
  followed by U+00E9.  `wrap`'s pipeline yields the four characters `\xe9`; Python's literal keeps `\é`.
  Built separately (`lake build JinjaV.Findings.F13`), not an obligation.
-/
import JinjaV.Model.Literal
import JinjaV.Spec.PyLiteral
namespace JinjaV.Findings.F13
open JinjaV.Literal

theorem f13_witness :
    unescapeBody [92, 233] = .ok [92, 120, 101, 57] ∧ JinjaV.Spec.PyLit.strValue [92, 233] = .ok [92, 233] := by
  exact ⟨rfl, rfl⟩

end JinjaV.Findings.F13
