/-
  Finding F13 (C14): the model exhibits the defect the replay exhibits in the code.  `'\é'`: the body is a backslash
  followed by U+00E9.  `wrap`'s pipeline yields the four characters `\xe9`; Python's literal keeps `\é`.  Hence the full
  statement `StringEscapeSpecStatement` (of which `string_escape_spec_partial` proves everything outside this shape) is
  false in the model.  Built separately (`lake build JinjaV.Findings.F13`), not an obligation.
-/
import JinjaV.Props.C14
namespace JinjaV.Findings.F13
open JinjaV.Literal JinjaV.C14

theorem f13_witness :
    unescapeBody [92, 233] = .ok [92, 120, 101, 57] ∧ JinjaV.Spec.PyLit.strValue [92, 233] = .ok [92, 233] :=
  ⟨rfl, rfl⟩

theorem f13_refutes_full_statement : ¬ StringEscapeSpecStatement := by
  intro h
  have := h [92, 233] (by decide)
  rw [show normNl [92, 233] = [92, 233] from rfl, f13_witness.1, f13_witness.2] at this
  have : ([92, 120, 101, 57] : List Nat) = [92, 233] := this
  exact absurd this (by decide)

end JinjaV.Findings.F13
