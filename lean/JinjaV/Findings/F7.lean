/-
  Finding F7 (C23): `float('inf')|int`, `Decimal('Infinity')|int`, `(10**400)|float`, huge `Fraction|float` raise
  OverflowError instead of returning the default — `do_int`'s first handler and `do_float`'s handler name only
  (TypeError, ValueError) (filters.py:995, 1010).

  The model exhibits the defect the replay exhibits on the code: the full-strength statement `ConvertTotal` is false
  over the present Gen/ConvertTable.lean, and every listed row really escapes.  Built separately from the property's
  obligations; when /repo is repaired these witnesses stop proving ("finding no longer reproduces"), which is not a
  violation.
-/
import JinjaV.Props.C23

namespace JinjaV.Findings.F7
open JinjaV.FiltStr JinjaV.Gen.ConvertTable JinjaV.C23

theorem F7_witness : ¬ ConvertTotal := by
  unfold ConvertTotal
  decide +kernel

/-- the exclusion list of `convert_total_except_known` is not padded: every listed (filter, sample, class) escapes on some row -/
theorem F7_every_listed_row_escapes :
    ∀ k ∈ knownUncaught, rows.any (fun r => r.name == k.2.1 &&
      (if k.1 == "int" then intOut r else floatOut r) == .raises k.2.2) = true := by
  decide +kernel

end JinjaV.Findings.F7
