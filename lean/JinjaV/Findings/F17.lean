/-
  Findings for C09 — both exhibited by the inventory read from filters.py / tests.py (Gen/AsyncPairs.lean):

  F17: consumers of iterables without an async variant (batch, sort, reverse, min, max, urlencode, tests `iterable` / `in`, …)
       cannot take the async generator that map/select/reject/selectattr/rejectattr return in async mode.
  consumption:unique: the sync `unique` is a lazy generator, its async variant drains the input first
       (`sync_do_unique(environment, await auto_to_list(value), …)`).

  Built separately from the property's obligations; when /repo is repaired these witnesses stop proving ("finding no longer
  reproduces"), which is not a violation.
-/
import JinjaV.Props.C09

namespace JinjaV.Findings.F17
open JinjaV.Await JinjaV.Gen.AsyncPairs JinjaV.C09

theorem F17_witness : ¬ ConsumersHaveVariants := by
  unfold ConsumersHaveVariants
  decide

/-- in the await model: the sync consumer fails on the async producer's result although the items are there -/
theorem F17_model_witness : syncItems (AV.asyncIter [3, 1, 2]) = .error .typeError ∧ syncItems (AV.iter [3, 1, 2]) = .ok [3, 1, 2] := by
  simp [syncItems]

theorem unique_laziness_witness : ¬ LazinessPreserved := by
  unfold LazinessPreserved
  decide

end JinjaV.Findings.F17
