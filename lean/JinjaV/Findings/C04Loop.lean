/-
  Finding (C04, new): a block inside a top-level `for` of a child template is rendered by the child's own root function.

    a  [{% block b %}A{% endblock %}]
    c  {% extends "a" %}{% for x in ['1','2'] %}{% block b scoped %}<{{ x }}>{% endblock %}{% endfor %}

  Rendering c gives `<1><2>[<>]`; the property (and docs/templates.rst: a child template fills the blocks of the base
  skeleton) asks for `[<>]`.  `visit_Block` suppresses the call site of a child's block only when `frame.toplevel`
  (compiler.py:949-953); the body of a `for` is an inner frame, so the call is emitted and runs before the parent's
  root function, with the block stack registered so far.

  The model exhibits what the replay exhibits on the code: `render_chain` does not extend to the hierarchies the
  documentation's chain resolution (`resolveChain`) accepts, which is why `IsChain` excludes a top-level `for` in a child.
  Built separately from the property's obligations.
-/
import JinjaV.Props.C04

namespace JinjaV.Findings.C04Loop
open JinjaV.Inherit JinjaV.SpecInherit JinjaV.C04

def a : Tpl := ⟨"a", [tx "[", .block "b" false false [tx "A"], tx "]"]⟩
def c : Tpl := ⟨"c", [.ext (.lit "a"), .forLoop "x" ["1".toList, "2".toList]
  [.block "b" true false [tx "<", .var "x", tx ">"]]]⟩

/-- `render_chain` for every hierarchy of the documented shape, top-level loops in children included -/
def RenderChainWithChildLoops : Prop :=
  ∀ (L : List Tpl) (vars : Vars) (hops fuel : Nat) (main : Name) (chain : List Tpl),
    resolveChain L vars hops main = some chain → (chain.map (·.name)).Nodup → agreeAll chain = true →
    renderTemplate L hops fuel vars main = renderChain fuel chain vars

theorem loop_model : renderTemplate [a, c] 4 4 [] "c" = .ok "<1><2>[<>]".toList := by decide
theorem loop_spec : renderChain 4 [c, a] [] = .ok "[<>]".toList := by decide

theorem loop_witness : ¬ RenderChainWithChildLoops := by
  intro h
  have := h [a, c] [] 4 4 "c" [c, a] rfl (by decide) (by decide)
  rw [loop_model, loop_spec] at this
  exact absurd this (by decide)

end JinjaV.Findings.C04Loop
