/-
  Documents a REPAIRED defect (former findings C35:runtime:with / C35:runtime:autoescape, fixed in /repo by d69e3bf and
  d82a9b0); kept as a record of the mechanism, it no longer matches the code.  Before the repair, code emitted with
  `newline()` / `writeline(x)` WITHOUT its node (compiler.py visit_With, visit_EvalContextModifier) was mapped to the
  line of the previously recorded statement.  Template: `{% set q = 1 %}\n\n{% with a = boom() %}…` — the assignment
  `l_1_a = boom()` landed on code line 3, which the table mapped to template line 1, not 3 (`with_reported_on_previous_line`);
  `with_repaired` is what the code does now.  Not an obligation of C35 (built separately).
-/
import JinjaV.Model.DebugInfo
namespace JinjaV.Findings.C35
open JinjaV.DebugInfo

def withOps : List Op :=
  writeline "from jinja2.runtime import …".toList none 0 ++
  writeline "l_0_q = 1".toList (some 1) 0 ++        -- {% set q = 1 %} on template line 1, announced
  writeline "l_1_a = boom()".toList none 0           -- {% with a = boom() %} on template line 3, NOT announced

theorem with_reported_on_previous_line :
    (run init withOps).codeLineno = 3 ∧ correspondingLineno (run init withOps).debugInfo 3 = 1 := by decide

/-- announcing the node (the proposed repair) gives the right line -/
theorem with_repaired :
    correspondingLineno (run init (writeline "from jinja2.runtime import …".toList none 0 ++
      writeline "l_0_q = 1".toList (some 1) 0 ++ writeline "l_1_a = boom()".toList (some 3) 0)).debugInfo 3 = 3 := by decide

end JinjaV.Findings.C35
