/-
  Known findings C35:runtime:with / C35:runtime:autoescape, exhibited in the model: code emitted with
  `newline()` / `writeline(x)` WITHOUT its node (compiler.py visit_With:1372, visit_EvalContextModifier:1980) is mapped
  to the line of the previously recorded statement.  Template: `{% set q = 1 %}\n\n{% with a = boom() %}…` — the
  assignment `l_1_a = boom()` lands on code line 3, which the table maps to template line 1, not 3.
  Not an obligation of C35 (built separately).
-/
import JinjaV.Model.DebugInfo
namespace JinjaV.Findings.C35
open JinjaV.DebugInfo

def withOps : List Op :=
  writeline "from jinja2.runtime import …".toList none 0 ++
  writeline "l_0_q = 1".toList (some 1) 0 ++        -- {% set q = 1 %} on template line 1, announced
  writeline "l_1_a = boom()".toList none 0           -- {% with a = boom() %} on template line 3, NOT announced

theorem with_reported_on_previous_line :
    (run init withOps).codeLineno = 3 ∧ correspondingLineno (run init withOps).debugInfo 3 = 1 := by decide

/-- announcing the node (the proposed repair) gives the right line -/
theorem with_repaired :
    correspondingLineno (run init (writeline "from jinja2.runtime import …".toList none 0 ++
      writeline "l_0_q = 1".toList (some 1) 0 ++ writeline "l_1_a = boom()".toList (some 3) 0)).debugInfo 3 = 3 := by decide

end JinjaV.Findings.C35
