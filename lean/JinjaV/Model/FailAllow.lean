/-
  The allow-list for the inventory of raise/assert sites (Gen/FailSites.lean, read from the source): which
  exception classes are the property's permitted failure, which are control flow caught in place, and
  every other site with the reason why loading a template cannot reach it.  Data and decision functions
  only (the theorems are in Props/C01.lean); the driver uses `unlisted` to name offending sites.
-/
import JinjaV.Gen.FailSites

namespace JinjaV.C01
open JinjaV.Gen.FailSites

/-- classes that are the property's permitted failure -/
def syntaxClasses : List String := ["TemplateSyntaxError", "TemplateAssertionError"]

/-- control-flow exceptions that are caught where they are used and never leave the load path:
    `Impossible` (optimizer.py:44, compiler.py `_output_child_to_const`/`visit_Output`, the `as_const` callers),
    `VisitorExit` (compiler.py `find_undeclared`), `CompilerExit` (compiler.py `visit_Template`),
    `StopIteration` (iterator protocol of TokenStreamIterator) -/
def controlFlowClasses : List String := ["Impossible", "VisitorExit", "CompilerExit", "StopIteration"]

structure Allowed where
  file : String
  func : String
  cls : String
  count : Nat        -- how many sites of this class the function may contain
  why : String
  deriving Repr

/-- every other way to raise, with the reason why it is not an outcome of loading a template -/
def allowList : List Allowed := [
  ⟨"lexer.py", "Failure.__call__", "<dynamic:self.error_class>", 1,
   "raises the class stored by Failure.__init__: theorem failure_rules_raise_syntax_errors (failureClasses)"⟩,
  ⟨"lexer.py", "Lexer.tokeniter", "<dynamic:token>", 1,
   "`raise token(lineno, name, filename)` with token a Failure: Failure.__call__ raises before returning (previous entry)"⟩,
  ⟨"lexer.py", "Lexer.tokeniter", "RuntimeError", 3,
   "the two `#bygroup` lookups: root_match_names_group (+ measured: every root alternative is a named group); "
   ++ "`yielded empty string without stack change`: no_empty_match_without_state_change / lex_step_decreases"⟩,
  ⟨"parser.py", "Parser.fail", "<dynamic:exc>", 1,
   "raises its `exc` argument: theorem fail_raises_syntax_errors (failDefault, failExcArgs)"⟩,
  ⟨"parser.py", "Parser.subparse", "AssertionError", 1, "subparse_no_internal over wrap_shape"⟩,
  ⟨"compiler.py", "generate", "TypeError", 1,
   "guard `not isinstance(node, nodes.Template)`: Environment._generate passes the result of Parser.parse, a nodes.Template"⟩,
  ⟨"compiler.py", "CodeGenerator.enter_frame", "NotImplementedError", 1,
   "`unknown load instruction`: idtracking only stores VAR_LOAD_PARAMETER/RESOLVE/ALIAS/UNDEFINED, all handled "
   ++ "(direct oracle; not proved)"⟩,
  ⟨"idtracking.py", "Symbols.ref", "AssertionError", 1,
   "`Tried to resolve a name to a reference that was unknown to the frame`: every name the generator refs was "
   ++ "declared by the symbol visitor of the same frame (direct oracle; not proved — DESIGN symbols_ref_defined)"⟩,
  ⟨"idtracking.py", "RootVisitor.visit_For", "RuntimeError", 1,
   "`Unknown for branch`: the compiler calls it with the literals body/else/test only"⟩,
  ⟨"idtracking.py", "RootVisitor.generic_visit", "NotImplementedError", 1,
   "`Cannot find symbols for …`: enter_frame-style analysis is only started on the statement nodes that have a "
   ++ "visit_ method (direct oracle; not proved)"⟩,
  ⟨"nodes.py", "get_eval_context", "RuntimeError", 1,
   "needs a node without environment: Parser.parse calls set_environment on the whole tree"⟩,
  ⟨"nodes.py", "Node.__init__", "TypeError", 4,
   "arity/abstractness checks of node construction: the parser builds every node with its declared fields (direct oracle)"⟩,
  ⟨"nodes.py", "InternalName.__init__", "TypeError", 1,
   "the parser creates InternalName through free_identifier (object.__new__), never by calling the class"⟩,
  ⟨"nodes.py", "_failing_new", "TypeError", 1, "creating new node classes; not on the load path"⟩,
  ⟨"ext.py", "Extension.parse", "NotImplementedError", 1,
   "base-class default; only reached by an extension that declares tags without overriding parse (bundled ones override)"⟩,
  ⟨"ext.py", "InternationalizationExtension._parse_block", "RuntimeError", 1,
   "`internal parser error`: theorem trans_block_no_internal over wrap_shape (the loop is entered after a block_end)"⟩,
  ⟨"ext.py", "babel_extract", "<reraise>", 1, "message extraction API, not template loading"⟩]

/-- the assert statements, all import-time or argument checks -/
def assertAllowList : List (String × String × Nat × String) := [
  ("lexer.py", "<module>", 1, "import-time self check of the operator table"),
  ("lexer.py", "Lexer.tokeniter", 1, "`state` argument check; Environment._tokenize passes None or the caller's state"),
  ("compiler.py", "CodeGenerator.visit_Template", 1, "`no root frame allowed`: generate() calls visit(node) without a frame"),
  ("idtracking.py", "Symbols.branch_update", 1, "`target is not None`: a store of a branch was declared in that branch"),
  ("nodes.py", "NodeType.__new__", 2, "class-creation-time checks of node classes")]

def siteAllowed (s : RaiseSite) : Bool :=
  syntaxClasses.contains s.cls || controlFlowClasses.contains s.cls ||
  allowList.any fun a => a.file == s.file && a.func == s.func && a.cls == s.cls && s.idx < a.count

def assertAllowed (s : AssertSite) : Bool :=
  assertAllowList.any fun a => a.1 == s.file && a.2.1 == s.func && s.idx < a.2.2.1

/-- the first offending site (for the report when the theorem below stops checking) -/
def firstUnlisted : Option RaiseSite := raiseSites.find? fun s => !siteAllowed s
def firstUnlistedAssert : Option AssertSite := assertSites.find? fun s => !assertAllowed s

def unlisted : List RaiseSite := raiseSites.filter fun s => !siteAllowed s
def unlistedAsserts : List AssertSite := assertSites.filter fun s => !assertAllowed s

end JinjaV.C01
