/-
  AsyncTasks — concurrent async renders on one environment.

  Each render is a task with private state (its Context, frame locals, buffers, loop state — here:
  the remaining program, the phase and the output computed so far) and the tasks share one
  slot per template: `Template._module`, the cached default module.  The scheduler switches
  tasks at suspension points only (`await` of something that really suspends): one `step i`
  runs task `i` from where it is suspended up to its next suspension point.

  The import protocol is environment.py `_get_default_module_async` (1446-1458):

      if self._module is None:
          self._module = await self.make_module_async()      # suspension points inside
      return self._module

  so two tasks that both find `None` both build a module and both assign (the race).
  `make_module_async()` renders the template with globals only: a deterministic function of
  the template (`Env.make`), with `Env.cost t` suspension points inside.  `importFresh` is
  `make_module_async(vars…)` (import with context / with extra globals): never cached.

  Core Lean only.
-/
namespace JinjaV.AsyncTasks

abbrev Mod := Nat

structure Env where
  /-- value of the module of template `t` built from globals only -/
  make : Nat → Mod
  /-- suspension points inside `make_module_async` of template `t` -/
  cost : Nat → Nat

inductive Instr where
  | emit (v : Nat)             -- private computation: append to the task's own output
  | await_                     -- a data function that suspends
  | importDefault (t : Nat)    -- m ← await t._get_default_module_async(); output m
  | importFresh (t : Nat)      -- m ← await t.make_module_async(vars); output m
  deriving Repr, DecidableEq

inductive Phase where
  | run
  /-- inside `make_module_async` of `t`; `left` resumptions to go; `cache`: assign `_module` afterwards -/
  | making (t : Nat) (left : Nat) (cache : Bool)
  deriving Repr, DecidableEq

structure Task where
  prog : List Instr
  phase : Phase
  out : List Nat
  deriving Repr, DecidableEq

structure Shared where
  /-- `_module` of each template; absent = `None`; most recent assignment first -/
  slots : List (Nat × Mod)
  /-- how many times a `_module` was assigned -/
  writes : Nat
  deriving Repr, DecidableEq

structure Sys where
  shared : Shared
  tasks : List Task
  deriving Repr, DecidableEq

/-- `self._module = m` (if cached) and `return self._module` — no suspension point in between -/
def finishMake (E : Env) (t : Nat) (cache : Bool) (sh : Shared) : Shared × Mod :=
  if cache then
    let sh' : Shared := { slots := (t, E.make t) :: sh.slots, writes := sh.writes + 1 }
    (sh', (sh'.slots.lookup t).getD 0)
  else (sh, E.make t)

/-- run a task's program up to its next suspension point -/
def runProg (E : Env) : List Instr → List Nat → Shared → Task × Shared
  | [], out, sh => (⟨[], .run, out⟩, sh)
  | .emit v :: p, out, sh => runProg E p (out ++ [v]) sh
  | .await_ :: p, out, sh => (⟨p, .run, out⟩, sh)
  | .importDefault t :: p, out, sh =>
    match sh.slots.lookup t with
    | some m => runProg E p (out ++ [m]) sh           -- `_module` is set: returned at once
    | none =>
      if E.cost t = 0 then runProg E p (out ++ [(finishMake E t true sh).2]) (finishMake E t true sh).1
      else (⟨p, .making t (E.cost t) true, out⟩, sh)  -- suspended inside make_module_async
  | .importFresh t :: p, out, sh =>
    if E.cost t = 0 then runProg E p (out ++ [E.make t]) sh
    else (⟨p, .making t (E.cost t) false, out⟩, sh)

/-- resume a task: what it does until it suspends again, as a function of its own state and the shared state only -/
def stepTask (E : Env) (tk : Task) (sh : Shared) : Task × Shared :=
  match tk.phase with
  | .run => runProg E tk.prog tk.out sh
  | .making t left cache =>
    if left ≤ 1 then runProg E tk.prog (tk.out ++ [(finishMake E t cache sh).2]) (finishMake E t cache sh).1
    else (⟨tk.prog, .making t (left - 1) cache, tk.out⟩, sh)

def step (E : Env) (i : Nat) (s : Sys) : Sys :=
  match s.tasks[i]? with
  | none => s
  | some tk => { shared := (stepTask E tk s.shared).2, tasks := s.tasks.set i (stepTask E tk s.shared).1 }

/-- an interleaving = the list of task indices resumed, in order -/
def runSched (E : Env) (sched : List Nat) (s : Sys) : Sys := sched.foldl (fun s i => step E i s) s

def Task.finished (tk : Task) : Bool := tk.prog.isEmpty && tk.phase == .run

/-- what the program computes when nothing else runs: no reference to shared state -/
def soloOut (E : Env) : List Instr → List Nat
  | [] => []
  | .emit v :: p => v :: soloOut E p
  | .await_ :: p => soloOut E p
  | .importDefault t :: p => E.make t :: soloOut E p
  | .importFresh t :: p => E.make t :: soloOut E p

def pending (E : Env) : Phase → List Nat
  | .run => []
  | .making t _ _ => [E.make t]

/-- the complete output the task is going to have -/
def future (E : Env) (tk : Task) : List Nat := tk.out ++ pending E tk.phase ++ soloOut E tk.prog

def fresh (prog : List Instr) : Task := ⟨prog, .run, []⟩

def init (progs : List (List Instr)) : Sys := ⟨⟨[], 0⟩, progs.map fresh⟩

/-- remaining resumptions a task needs when it runs alone (upper bound) -/
def work (E : Env) : List Instr → Nat
  | [] => 0
  | .emit _ :: p => work E p
  | .await_ :: p => 1 + work E p
  | .importDefault t :: p => E.cost t + work E p
  | .importFresh t :: p => E.cost t + work E p

end JinjaV.AsyncTasks
