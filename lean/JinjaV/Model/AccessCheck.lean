/-
  C17 — executable statement of "the raw attribute value is handed out only after the sandbox looked at it",
  over the lookup methods regenerated from the source (Gen/AccessPaths.lean), and its counterexample finder.
-/
import JinjaV.Gen.AccessPaths

namespace JinjaV.AccessCheck
open JinjaV.Gen.AccessPaths

/-- a lookup method `f` behaves on world `w`: if it hands out the value of `getattr(obj, name)` as it is, then
`is_safe_attribute` said yes and the value is not a `str.format`/`format_map` method -/
def checked (f : World → Outcome) (w : World) : Bool :=
  !(f w == .rawAttr) || (w.safeAttr && !w.isFormat)

/-- the lookup methods of the sandboxed environment, by name -/
def methods : List (String × (World → Outcome)) :=
  [("getitem", Sandboxed_getitem), ("getattr", Sandboxed_getattr)]

/-- all (method, world) pairs on which a sandboxed lookup hands out an unchecked attribute (empty iff the theorems hold) -/
def counterexamples : List (String × World) :=
  methods.flatMap fun (n, f) => (allWorlds.filter fun w => !checked f w).map fun w => (n, w)

end JinjaV.AccessCheck
