/-
  M-Cache / TplCache: `Environment._load_template` (environment.py:956-978) over the three cache kinds of
  `create_cache` (none, unbounded dict, LRU), with a loader whose up-to-date check compares the source a
  template was compiled from with the loader's current source (DictLoader / FunctionLoader-with-uptodate /
  FileSystemLoader with changed mtime).  The LRU is the reference map of Spec/LRU.lean (the implementation
  refines it: C26).
-/
import JinjaV.Spec.LRU

namespace JinjaV.TplCache
open JinjaV.LRU (K V)
open JinjaV.SpecLRU

/-- loader contents: template name ↦ current source version -/
abbrev Loader := List (K × V)

inductive Cache where
  | none                                  -- cache_size = 0
  | dict (items : List (K × V))           -- cache_size < 0
  | lru (sp : Spec)                       -- cache_size = n > 0
  deriving Repr, DecidableEq

structure St where
  cache : Cache
  loads : Nat                             -- how often the loader compiled a template
  deriving Repr, DecidableEq

inductive Res where
  | template (version : V)
  | notFound
  deriving Repr, DecidableEq

def lookup (l : List (K × V)) (k : K) : Option V := find l k

def dictSet (l : List (K × V)) (k : K) (v : V) : List (K × V) :=
  match l with
  | [] => [(k, v)]
  | (k', v') :: r => if k' = k then (k, v) :: r else (k', v') :: dictSet r k v

/-- `self.cache.get(cache_key)`: the LRU moves a hit to the front -/
def cacheGet (c : Cache) (k : K) : Cache × Option V :=
  match c with
  | .none => (.none, none)
  | .dict items => (.dict items, lookup items k)
  | .lru sp => match find sp.items k with
    | some v => (.lru (touch sp k v), some v)
    | none => (.lru sp, none)

def cacheSet (c : Cache) (k : K) (v : V) : Cache :=
  match c with
  | .none => .none
  | .dict items => .dict (dictSet items k v)
  | .lru sp => .lru (put sp k v)

/-- `_load_template` -/
def getTemplate (autoReload : Bool) (ld : Loader) (s : St) (name : K) : St × Res :=
  let (c1, hit) := cacheGet s.cache name
  let fresh : Option V := match hit with
    | some v => if !autoReload || lookup ld name == some v then some v else none     -- `template.is_up_to_date`
    | none => none
  match fresh with
  | some v => ({ s with cache := c1 }, .template v)
  | none =>
    match lookup ld name with
    | some v => ({ cache := cacheSet c1 name v, loads := s.loads + 1 }, .template v)   -- `self.loader.load(...)`
    | none => ({ s with cache := c1 }, .notFound)                                        -- TemplateNotFound

/-- `select_template`: the first name that can be loaded -/
def selectTemplate (autoReload : Bool) (ld : Loader) : St → List K → St × Res
  | s, [] => (s, .notFound)
  | s, n :: ns =>
    match getTemplate autoReload ld s n with
    | (s', .template v) => (s', .template v)
    | (s', .notFound) => selectTemplate autoReload ld s' ns

inductive Op where
  | get (name : K)
  | select (names : List K)
  | put (name : K) (version : V)       -- the loader's source changes / a template is added
  | delete (name : K)
  deriving Repr, DecidableEq

def ldDelete (ld : Loader) (k : K) : Loader := remove ld k

def step (autoReload : Bool) (ld : Loader) (s : St) : Op → Loader × St × Option Res
  | .get n => let r := getTemplate autoReload ld s n; (ld, r.1, some r.2)
  | .select ns => let r := selectTemplate autoReload ld s ns; (ld, r.1, some r.2)
  | .put n v => (dictSet ld n v, s, none)
  | .delete n => (ldDelete ld n, s, none)

def run (autoReload : Bool) : Loader → St → List Op → List (Option Res)
  | _, _, [] => []
  | ld, s, op :: ops =>
    let r := step autoReload ld s op
    r.2.2 :: run autoReload r.1 r.2.1 ops

def initCache (size : Int) : Cache :=
  if size = 0 then .none else if size < 0 then .dict [] else .lru (SpecLRU.init size.toNat)

def cacheSize : Cache → Nat
  | .none => 0
  | .dict items => items.length
  | .lru sp => sp.items.length

end JinjaV.TplCache
