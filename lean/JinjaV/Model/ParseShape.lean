/-
  M-ParseShape: the top-level loop of `Parser.subparse` (parser.py:990-1035) with `parse_statement`'s tag
  dispatch (parser.py:162-191) and `parse_statements` (parser.py:193-220), over the token kinds the
  parser sees after `Lexer.wrap` (lexer.py:617-667).

  Everything below the loop is ABSTRACT: the expression parser (`parse_tuple`) and the statement parsers
  (`parse_for`, `parse_if`, ..., `parse_call_block`, `parse_filter_block`, extension `parse` methods) are
  parameters that move the stream position or fail with TemplateSyntaxError; a statement parser can
  re-enter `subparse` only through `parse_statements` (the only caller of `subparse` besides
  `Parser.parse`), which it receives as a callback.
-/
namespace JinjaV.ParseShape

/-- token types after `wrap`; `other` = every operator/literal token except `name` and `colon` -/
inductive PK where
  | data | variableBegin | variableEnd | blockBegin | blockEnd | name | colon | other
  deriving Repr, DecidableEq

structure PTok where
  kind : PK
  value : String
  deriving Repr, DecidableEq

/-- position in the token list; a position at or beyond the end is the `eof` token -/
abbrev Pos := Nat

inductive Res where
  | ok (p : Pos)
  | syntaxError                 -- TemplateSyntaxError / TemplateAssertionError
  | internal                    -- `raise AssertionError("internal parsing error")`
  | fuel
  deriving Repr, DecidableEq

/-- `parse_statements(end_tokens, drop_needle)` as seen by a statement parser -/
abbrev Callback := List String → Bool → Pos → Res

/-- a statement parser: current position is the tag name -/
abbrev StmtParser := Callback → Pos → Res

structure Parsers where
  /-- `parse_tuple(with_condexpr=True)`: new position, or `none` = TemplateSyntaxError -/
  tuple : Pos → Option Pos
  /-- the dispatch of `parse_statement`: `_statement_keywords` → `parse_<tag>`, `call`, `filter`,
      `self.extensions.get(tag)`; `none` = `fail_unknown_tag` -/
  stmt : String → Option StmtParser

/-- `stream.expect(kind)` -/
def expect (toks : List PTok) (k : PK) (p : Pos) : Res :=
  match toks[p]? with
  | some t => if t.kind = k then .ok (p + 1) else .syntaxError
  | none => .syntaxError

/-- `stream.current.test_any(*end_tokens)` for end tokens of the form `name:<value>` -/
def testAny (toks : List PTok) (p : Pos) (ends : List String) : Bool :=
  match toks[p]? with
  | some t => t.kind == .name && ends.contains t.value
  | none => false

/-- `end_tokens is not None and self.stream.current.test_any(*end_tokens)` -/
def atEnd (toks : List PTok) (ends : Option (List String)) (p : Pos) : Bool :=
  match ends with
  | some e => testAny toks p e
  | none => false

/-- `parse_statements` (parser.py:193-220) given the recursive `subparse` -/
def parseStatements (toks : List PTok) (sub : Option (List String) → Pos → Res) : Callback :=
  fun ends dropNeedle p =>
    let p1 := match toks[p]? with
      | some t => if t.kind = .colon then p + 1 else p        -- `stream.skip_if("colon")`
      | none => p
    match expect toks .blockEnd p1 with
    | .ok q =>
      (match sub (some ends) q with
       | .ok r =>
         (match toks[r]? with
          | none => .syntaxError                               -- `fail_eof(end_tokens)`
          | some _ => .ok (if dropNeedle then r + 1 else r))
       | x => x)
    | x => x

/-- `parse_statement` (parser.py:162-191) -/
def parseStatement (P : Parsers) (toks : List PTok) (sub : Option (List String) → Pos → Res) (p : Pos) : Res :=
  match toks[p]? with
  | none => .syntaxError                                       -- eof: "tag name expected"
  | some t =>
    if t.kind ≠ .name then .syntaxError else                   -- "tag name expected"
    match P.stmt t.value with
    | none => .syntaxError                                     -- `fail_unknown_tag`
    | some f => f (parseStatements toks sub) p

/-- `subparse(end_tokens)` (parser.py:990-1035): the position after the loop -/
def subparse (P : Parsers) (toks : List PTok) : Nat → Option (List String) → Pos → Res
  | 0, _, _ => .fuel
  | fuel + 1, ends, p =>
    match toks[p]? with
    | none => .ok p                                            -- `while self.stream` is over
    | some t =>
      match t.kind with
      | .data => subparse P toks fuel ends (p + 1)
      | .variableBegin =>
        (match P.tuple (p + 1) with
         | none => .syntaxError
         | some q =>
           match expect toks .variableEnd q with
           | .ok q' => subparse P toks fuel ends q'
           | x => x)
      | .blockBegin =>
        if atEnd toks ends (p + 1) then .ok (p + 1)
        else
          (match parseStatement P toks (subparse P toks fuel) (p + 1) with
           | .ok q =>
             (match expect toks .blockEnd q with
              | .ok q' => subparse P toks fuel ends q'
              | x => x)
           | x => x)
      | _ => .internal                                         -- `raise AssertionError("internal parsing error")`

/-- `InternationalizationExtension._parse_block(parser, allow_pluralize)` (ext.py:471-517): the loop over the body of a
    `{% trans %}` block up to `endtrans` / `pluralize`; entered right after a `block_end`.  Fully modelled (it calls no
    sub-parser): the position of the tag name that ended the section -/
def transBlock (toks : List PTok) (allowPluralize : Bool) : Nat → Pos → Res
  | 0, _ => .fuel
  | fuel + 1, p =>
    match toks[p]? with
    | none => .syntaxError                                     -- `stream.eos`: "unclosed translation block"
    | some t =>
      match t.kind with
      | .data => transBlock toks allowPluralize fuel (p + 1)
      | .variableBegin =>
        (match expect toks .name (p + 1) with
         | .ok q =>
           (match expect toks .variableEnd q with
            | .ok q' => transBlock toks allowPluralize fuel q'
            | x => x)
         | x => x)
      | .blockBegin =>
        (match toks[p + 1]? with
         | some t1 =>
           if t1.kind = .name ∧ t1.value = "endtrans" then .ok (p + 1)
           else if t1.kind = .name ∧ t1.value = "pluralize" ∧ allowPluralize = true then .ok (p + 1)
           else .syntaxError                                   -- second pluralize, nested trans, control structure
         | none => .syntaxError)
      | _ => .internal                                         -- `raise RuntimeError("internal parser error")`

/-- `Parser.parse` -/
def parse (P : Parsers) (toks : List PTok) (fuel : Nat) : Res := subparse P toks fuel none 0

-- the regular shape of the token stream -----------------------------------------------------------------

inductive PS where
  | root | block | vari
  deriving Repr, DecidableEq

def isInner : PK → Bool
  | .name | .colon | .other => true
  | _ => false

/-- `(data | variable_begin t* variable_end | block_begin t* block_end)*` as an automaton -/
def delta : PS → PK → Option PS
  | .root, .data => some .root
  | .root, .blockBegin => some .block
  | .root, .variableBegin => some .vari
  | .block, .blockEnd => some .root
  | .vari, .variableEnd => some .root
  | .block, k => if isInner k then some .block else none
  | .vari, k => if isInner k then some .vari else none
  | _, _ => none

def run (st : PS) : List PK → Option PS
  | [] => some st
  | k :: ks => match delta st k with
    | some st' => run st' ks
    | none => none

def kinds (toks : List PTok) : List PK := toks.map (·.kind)

/-- the stream is a (possibly cut short) word of the regular shape -/
def Shape (toks : List PTok) : Prop := run .root (kinds toks) ≠ none

def shapeOk (ks : List PK) : Bool := (run .root ks).isSome

end JinjaV.ParseShape
