/-
  The numeric tests of tests.py (`odd`, `even`, `divisibleby`) on exact numbers.

  A number is a rational `n / p` with a common positive denominator `p` for every number in play (an int is `n * p / p`;
  a float such as 2.5 is `5 / 2`).  Python's `%` is the floored modulus (the result has the sign of the divisor) for ints
  and for floats alike, and on rationals with a common denominator `(a / p) % (b / p) = (a.fmod b) / p`; on floats it is
  exact whenever the operands are dyadic rationals of moderate size (C `fmod` is exact and the sign correction adds a
  number of the same scale), which is the range the correspondence run draws from.  A zero divisor raises
  ZeroDivisionError.  Core Lean only.
-/
namespace JinjaV.NumTests

inductive NExp where
  | value | num
  | lit (i : Int)
  | mod (a b : NExp)
  deriving Repr, DecidableEq

inductive NTest where
  | eq (a b : NExp)
  | ne (a b : NExp)
  | not (t : NTest)
  deriving Repr, DecidableEq

inductive Err where
  | zeroDiv
  deriving Repr, DecidableEq

/-- numerator (over the common denominator `p`) of an expression; `v` and `a` are the numerators of value and num -/
def evalE (p v a : Int) : NExp → Except Err Int
  | .value => .ok v
  | .num => .ok a
  | .lit i => .ok (i * p)
  | .mod x y =>
    match evalE p v a x, evalE p v a y with
    | .ok m, .ok n => if n == 0 then .error .zeroDiv else .ok (m.fmod n)
    | .error e, _ => .error e
    | _, .error e => .error e

def evalT (p v a : Int) : NTest → Except Err Bool
  | .eq x y =>
    match evalE p v a x, evalE p v a y with
    | .ok m, .ok n => .ok (m == n)
    | .error e, _ => .error e
    | _, .error e => .error e
  | .ne x y =>
    match evalE p v a x, evalE p v a y with
    | .ok m, .ok n => .ok (m != n)
    | .error e, _ => .error e
    | _, .error e => .error e
  | .not t =>
    match evalT p v a t with
    | .ok b => .ok (!b)
    | .error e => .error e

end JinjaV.NumTests
