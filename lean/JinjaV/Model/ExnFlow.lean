/-
  C38 — propagation of an exception raised by a data callback through nested engine constructs.

  A render is a tree: data events (a hook of a template-supplied object runs), sequencing constructs without any
  handler (output, if, for body, block, include: the compiler emits `try/finally` at most), and guards: the body runs
  inside the `try` of one handler of the engine, named by module + function + ordinal and *looked up in the table READ
  from the source* (Gen/ExceptSites.lean), so the model's handlers are the code's handlers.

  One fault: the k-th event of the clean run raises `e`.  Events before it behave as in the clean run.
  Entry points (`Template.render`, `generate`, … environment.py:1289-1363) wrap everything in their own handler, also
  looked up in the table.
-/
import JinjaV.Gen.ExceptSites
import JinjaV.Spec.ExceptPolicy

namespace JinjaV.ExnFlow
open JinjaV.Gen.ExceptSites JinjaV.ExceptPolicy

/-- a raised object: identity + names of the builtin classes in its MRO -/
structure Exn where
  ident : Nat
  bases : List String
  deriving Repr, DecidableEq

/-- what reaches the caller -/
inductive Raised where
  | orig (e : Exn)                                           -- the very object the data raised
  | translated (module func : String) (idx : Nat) (target : String) (cause : Exn)  -- a new object made by a `raise X from e` handler
  deriving Repr, DecidableEq

def Raised.bases : Raised → List String
  | .orig e => e.bases
  | .translated _ _ _ target _ => [target, "Exception", "BaseException"]

inductive Res where
  | done
  | raised (r : Raised)
  deriving Repr, DecidableEq

structure Key where
  module : String
  func : String
  idx : Nat
  deriving Repr, DecidableEq

inductive Tree where
  | skip
  | event
  | seq (a b : Tree)
  | guard (g : Key) (body : Tree)
  deriving Repr

def Tree.events : Tree → Nat
  | .skip => 0
  | .event => 1
  | .seq a b => a.events + b.events
  | .guard _ b => b.events

def Tree.guards : Tree → List Key
  | .skip => []
  | .event => []
  | .seq a b => a.guards ++ b.guards
  | .guard g b => g :: b.guards

/-- "call handle_exception" re-raises the same object iff the three shape facts READ from environment.py / debug.py hold
    (`raise rewrite_traceback_stack(..)`, which returns `exc_value.with_traceback(..)`, `exc_value` from `sys.exc_info()`) -/
def handleExceptionSame : Bool :=
  handleExceptionRaisesRewritten && rewriteReturnsExcValue && excValueIsCurrentException

/-- the handler lets the same object continue upwards -/
def reraises (s : Site) : Bool :=
  s.kind == .reraiseSame || (s.kind == .handleException && handleExceptionSame)

def siteAt (g : Key) (s : Site) : Bool := s.module == g.module && s.func == g.func && s.idx == g.idx

/-- the source handler named `g` that catches `x`, if any (a handler that re-raises the same object is transparent) -/
def handlerFor (g : Key) (bases : List String) : Option Site :=
  sites.find? fun s => siteAt g s && !reraises s && catchesAny s.caught bases

/-- what a guard does with an exception arriving from its body -/
def handle (g : Key) (x : Raised) : Res :=
  match handlerFor g x.bases with
  | none => .raised x
  | some s =>
    if s.kind == .translate then
      .raised (.translated g.module g.func g.idx s.detail (match x with | .orig e => e | .translated _ _ _ _ c => c))
    else .done     -- undefined / false / default / fall through: evaluation continues after the guarded operation

/-- evaluate with the fault "event number `k` raises `e`"; `n` is the number of the first event of this subtree -/
def eval (k : Nat) (e : Exn) : Tree → Nat → Res
  | .skip, _ => .done
  | .event, n => if n = k then .raised (.orig e) else .done
  | .seq a b, n =>
    match eval k e a n with
    | .done => eval k e b (n + a.events)
    | r => r
  | .guard g b, n =>
    match eval k e b n with
    | .raised x => handle g x
    | .done => .done

/-- the guards around event `k`, innermost first -/
def enclosing : Tree → Nat → Nat → List Key
  | .skip, _, _ => []
  | .event, _, _ => []
  | .seq a b, k, n => if k < n + a.events then enclosing a k n else enclosing b k (n + a.events)
  | .guard g b, k, n => enclosing b k n ++ [g]

/-- the entry points and their handlers -/
def entryPoints : List Key := [
  ⟨"environment", "Template.render", 0⟩, ⟨"environment", "Template.render_async", 0⟩,
  ⟨"environment", "Template.generate", 0⟩, ⟨"environment", "Template.generate_async", 0⟩,
  ⟨"nativetypes", "NativeTemplate.render", 0⟩, ⟨"nativetypes", "NativeTemplate.render_async", 0⟩]

def render (entry : Key) (t : Tree) (k : Nat) (e : Exn) : Res :=
  eval k e (.guard entry t) 0

/-- the documented signal test for a guard (Spec side) -/
def specSignal (g : Key) (bases : List String) : Bool :=
  isSignalAt documented g.module g.func g.idx bases

def renderGuard (g : Key) : Bool := renderTimeAt g.module g.func

/-! ### Audit of the source table against the policy (decidable; the counterexample finders are served by Wire) -/

def broad (s : Site) : Bool := s.caught.any fun c => c == "BARE" || c == "Exception" || c == "BaseException"

def renderTime (s : Site) : Bool := renderTimeAt s.module s.func

/-- some policy row for exactly this handler lists every class the handler catches -/
def coveredBy (tbl : List Entry) (s : Site) : Bool :=
  (entriesAt tbl s.module s.func s.idx).any fun en => s.caught.all fun c => en.signals.contains c

def keyOf (s : Site) : Key := ⟨s.module, s.func, s.idx⟩

/-- the documented broad handlers (Spec/ExceptPolicy.lean `allowedBroadSites`) -/
def allowedBroad : List Key := allowedBroadSites.map fun (m, f, i) => ⟨m, f, i⟩

/-- counterexample finder, twin of `C38.broad_handlers_ok`: broad render-time handlers that do not re-raise the same object
    and are not allow-listed -/
def broadOffenders : List Site :=
  sites.filter fun s => broad s && renderTime s && !reraises s && !(allowedBroad.contains (keyOf s))

/-- render-time handlers that neither re-raise the same object nor stay within a documented / known row -/
def policyOffenders (tbl : List Entry) : List Site :=
  sites.filter fun s => renderTime s && !reraises s && !coveredBy tbl s

/-- policy rows naming data hooks over a site whose try body holds no call into data (the row is stale or wrong) -/
def hookRowsWithoutDataCall (tbl : List Entry) : List Site :=
  sites.filter fun s => (entriesAt tbl s.module s.func s.idx).any (fun en => !en.hooks.isEmpty) && !s.dataCall

/-- policy rows that name no existing handler (reported as a note, not an obligation: removing a handler breaks nothing) -/
def staleRows (tbl : List Entry) : List Entry :=
  tbl.filter fun en => !(sites.any fun s => s.module == en.module && s.func == en.func && s.idx == en.idx)

/-! ### Engine state that outlives a render: the module cache

`Template._get_default_module` (environment.py:1419-1444): `if self._module is None: self._module = self.make_module()` —
the attribute is assigned only after the module body has been evaluated to the end.  The state is the list of templates
whose `_module` is set; a render is a tree of data events, sequencing and imports. -/

inductive RTree where
  | skip
  | ev                                   -- a data event (may carry the fault)
  | seq (a b : RTree)
  | imp (name : String) (body : RTree)   -- `{% import name %}` / `{% from name import … %}` without context
  deriving Repr

abbrev CacheSt := List String

/-- run with the fault at event `k` (`none`: clean run); result: completed?, number of the next event, cache state -/
def runSt (k : Option Nat) : RTree → Nat → CacheSt → Bool × Nat × CacheSt
  | .skip, n, st => (true, n, st)
  | .ev, n, st => (k != some n, n + 1, st)
  | .seq a b, n, st =>
    match runSt k a n st with
    | (true, n', st') => runSt k b n' st'
    | r => r
  | .imp name body, n, st =>
    if name ∈ st then (true, n, st)          -- cached: the body is not evaluated again
    else match runSt k body n st with
      | (true, n', st') => (true, n', name :: st')   -- `self._module = …` after the body completed
      | (false, n', st') => (false, n', st')         -- the exception leaves before the assignment

/-- the part of a render that was completed when the fault at `k` struck, as a tree of its own -/
def prune (k : Nat) : RTree → Nat → CacheSt → RTree
  | .skip, _, _ => .skip
  | .ev, _, _ => .skip
  | .seq a b, n, st =>
    match runSt (some k) a n st with
    | (true, n', st') => .seq a (prune k b n' st')
    | (false, _, _) => prune k a n st
  | .imp name body, n, st =>
    if name ∈ st then .skip
    else match runSt (some k) body n st with
      | (true, _, _) => .imp name body
      | (false, _, _) => prune k body n st

end JinjaV.ExnFlow
