/-
  utils.py:581-634 `select_autoescape`: the name-based autoescape selector.  Core Lean only.
  `lower` is `str.lower` (a parameter; the wire instantiates it with ASCII lower-casing, the generator stays ASCII).
-/
namespace JinjaV.SelectAutoescape

/-- `f".{x.lstrip('.').lower()}"` -/
def pattern (lower : List Char → List Char) (x : List Char) : List Char := '.' :: lower (x.dropWhile (· == '.'))

/-- `name.endswith(tuple_of_patterns)` -/
def endsWithAny (name : List Char) (pats : List (List Char)) : Bool := pats.any fun p => p.isSuffixOf name

/-- the closure `autoescape(template_name)` returned by `select_autoescape(enabled, disabled, default_for_string, default)` -/
def select (lower : List Char → List Char) (enabled disabled : List (List Char)) (defaultForString default : Bool) :
    Option (List Char) → Bool
  | none => defaultForString
  | some name =>
    if endsWithAny (lower name) (enabled.map (pattern lower)) then true
    else if endsWithAny (lower name) (disabled.map (pattern lower)) then false
    else default

end JinjaV.SelectAutoescape
