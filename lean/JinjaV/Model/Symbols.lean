/-
  M-Py / Symbols — transcription of `jinja2.idtracking.Symbols` and of the part of `jinja2.compiler.CodeGenerator`
  that turns a `Symbols` into emitted source lines.  Core Lean only.

  Python dicts (`refs`, `loads`, the filter/test id maps, the result of `dump_stores`) are association lists in
  insertion order.  A Python `set` (`stores`, the assignment-tracking set, the filter/test name sets) is a list that
  stands for the set: it is only ever read through membership, through `sortStr`, or through a *chooser*
  `List String → List String` that may return ANY permutation of it.  That is how hash-seed dependent iteration order is
  modelled: every `for x in <set>` / `next(iter(<set>))` / comprehension over a set in the transcribed code goes through
  the chooser.  Set-to-set operations (`update`, `difference_update`, `copy`) are order-free by the set ADT and are
  plain list functions here; their representation order is never observed except through the chooser.

  Domain: names are identifiers (their Python `repr` is the name in single quotes).
-/
namespace JinjaV.Symbols

/-- a Python dict with string keys, in insertion order -/
abbrev Dict (β : Type) := List (String × β)

namespace Dict
variable {β : Type}

def get? : Dict β → String → Option β
  | [], _ => none
  | (k', v) :: t, k => if k' = k then some v else get? t k

/-- `d[k] = v`: replace in place if the key exists (position kept), else append -/
def set : Dict β → String → β → Dict β
  | [], k, v => [(k, v)]
  | (k', v') :: t, k, v => if k' = k then (k', v) :: t else (k', v') :: set t k v

/-- `d.update(e)` -/
def update (d e : Dict β) : Dict β := e.foldl (fun acc kv => acc.set kv.1 kv.2) d

def keys (d : Dict β) : List String := d.map (·.1)
end Dict

/-- a load instruction: `(VAR_LOAD_PARAMETER, None)`, `(VAR_LOAD_RESOLVE, name)`, `(VAR_LOAD_ALIAS, target)`,
    `(VAR_LOAD_UNDEFINED, None)` (idtracking.py:9-12) -/
inductive Load where
  | param
  | resolve (name : String)
  | alias (target : String)
  | undefined
  deriving DecidableEq, Repr, Inhabited

/-- one `Symbols` object without its parent pointer; the parent chain is passed separately (innermost first).  The
    compiler finishes analysing a frame before it creates inner frames, so a parent is a value here. -/
structure Sym where
  level : Nat
  refs : Dict String := []
  loads : Dict Load := []
  stores : List String := []
  deriving DecidableEq, Repr, Inhabited

def emptySym (level : Nat) : Sym := { level := level }

/-- `f"l_{self.level}_{name}"` (idtracking.py:54) -/
def ident (level : Nat) (name : String) : String := "l_" ++ (toString level ++ ("_" ++ name))

/-- `set.add` -/
def sadd (s : List String) (x : String) : List String := if x ∈ s then s else s ++ [x]

/-- `s.update(t)` for sets -/
def supdate (s t : List String) : List String := t.foldl sadd s

/-- `find_ref` along a chain of symbols, innermost first (idtracking.py:69-76) -/
def findRefIn : List Sym → String → Option String
  | [], _ => none
  | s :: ps, n => match s.refs.get? n with
    | some r => some r
    | none => findRefIn ps n

/-- `find_load` (idtracking.py:60-67) -/
def findLoadIn : List Sym → String → Option Load
  | [], _ => none
  | s :: ps, t => match s.loads.get? t with
    | some l => some l
    | none => findLoadIn ps t

/-- `_define_ref(name, load=…)` (idtracking.py:53-58); every call site passes a load -/
def defineRef (s : Sym) (name : String) (load : Load) : Sym :=
  { s with refs := s.refs.set name (ident s.level name), loads := s.loads.set (ident s.level name) load }

/-- `store` (idtracking.py:95-111); `ps` is the parent chain -/
def store (ps : List Sym) (s : Sym) (name : String) : Sym :=
  let s := { s with stores := sadd s.stores name }
  if (s.refs.get? name).isSome then s
  else match findRefIn ps name with
    | some outer => defineRef s name (.alias outer)
    | none => defineRef s name .undefined

/-- `declare_parameter` (idtracking.py:113-115) -/
def declareParameter (s : Sym) (name : String) : Sym :=
  defineRef { s with stores := sadd s.stores name } name .param

/-- `load` (idtracking.py:117-119) -/
def load (ps : List Sym) (s : Sym) (name : String) : Sym :=
  if (findRefIn (s :: ps) name).isSome then s else defineRef s name (.resolve name)

/-- the value `branch_update` writes for `name` (idtracking.py:138-143): depends on the name and the parents only -/
def branchValue (ps : List Sym) (name : String) : Load :=
  match findRefIn ps name with
  | some outer => .alias outer
  | none => .resolve name

/-- `self.find_ref(name)` given `self.refs` and the parents -/
def findRefFrom (refs : Dict String) (ps : List Sym) (name : String) : Option String :=
  match refs.get? name with
  | some r => some r
  | none => findRefIn ps name

/-- one round of the loop `for name in stores:` of `branch_update`.  The loop reads `self.refs` (not changed by the loop)
    and the parents, and writes `self.loads`.  A name without a reference is `assert target is not None` in the
    code: `branchUpdate_targets_exist` (Props/C30.lean) shows that branch is never taken. -/
def branchStep (refs : Dict String) (ps : List Sym) (loads : Dict Load) (name : String) : Dict Load :=
  match findRefFrom refs ps name with
  | none => loads
  | some target => loads.set target (branchValue ps name)

/-- names stored in some branch but not in `self` before the update (idtracking.py:122-127) -/
def branchNew (s : Sym) (bs : List Sym) : List String :=
  (bs.foldl (fun acc b => supdate acc b.stores) []).filter (fun n => !(s.stores.contains n))

/-- idtracking.py:129-132 -/
def branchMerge (s : Sym) (bs : List Sym) : Sym :=
  bs.foldl (fun acc b => { acc with refs := acc.refs.update b.refs, loads := acc.loads.update b.loads,
                                    stores := supdate acc.stores b.stores }) s

/-- `branch_update` (idtracking.py:121-143); `ord` chooses the iteration order of the local set `stores` -/
def branchUpdate (ord : List String → List String) (ps : List Sym) (s : Sym) (bs : List Sym) : Sym :=
  let m := branchMerge s bs
  { m with loads := (ord (branchNew s bs)).foldl (branchStep m.refs ps) m.loads }

/-- Python `sorted` on a list of str: by code point, which is core Lean's order on `String` -/
def sortStr (l : List String) : List String := l.mergeSort (fun a b => decide (a ≤ b))

/-- `dump_stores` (idtracking.py:145-156): `self` is `chain.head`, the walk goes over the whole chain; a name without a
    reference is stored as `None` -/
def dumpStores (ord : List String → List String) (chain : List Sym) : Dict (Option String) :=
  chain.foldl (fun rv node =>
    (sortStr (ord node.stores)).foldl (fun rv name =>
      if (rv.get? name).isSome then rv else rv.set name (findRefIn chain name)) rv) []

/-- `dump_param_targets` (idtracking.py:158-169): a set, used for membership only; the loop body reads `self.loads` on
    every round of the parent walk, so the parents contribute nothing -/
def dumpParamTargets (s : Sym) : List String :=
  (s.loads.filter (fun kv => kv.2 == .param)).map (·.1) |>.foldl sadd []

-- ---------------------------------------------------------------------------------------------------------------
-- the code generator's use of a Symbols (compiler.py)
-- ---------------------------------------------------------------------------------------------------------------

/-- `repr` of an identifier-like str -/
def pyRepr (s : String) : String := "'" ++ s ++ "'"

/-- `enter_frame` (compiler.py:580-594); `resolve` is `get_resolve_func()` -/
def enterFrame (resolve : String) (s : Sym) : List String :=
  let r := s.loads.foldl (fun (acc : List String × List String) kv =>
    match kv.2 with
    | .param => acc
    | .resolve p => (acc.1 ++ [kv.1 ++ " = " ++ resolve ++ "(" ++ pyRepr p ++ ")"], acc.2)
    | .alias p => (acc.1 ++ [kv.1 ++ " = " ++ p], acc.2)
    | .undefined => (acc.1, acc.2 ++ [kv.1])) ([], [])
  if r.2.isEmpty then r.1 else r.1 ++ [" = ".intercalate r.2 ++ " = missing"]

/-- `leave_frame` (compiler.py:596-602) -/
def leaveFrame (withPythonScope : Bool) (s : Sym) : List String :=
  if withPythonScope || s.loads.isEmpty then [] else [" = ".intercalate s.loads.keys ++ " = missing"]

def optStr : Option String → String
  | some s => s
  | none => "None"

/-- `dump_local_context` (compiler.py:712-717) -/
def dumpLocalContext (ord : List String → List String) (chain : List Sym) : String :=
  "{" ++ ", ".intercalate ((dumpStores ord chain).map fun kv => pyRepr kv.1 ++ ": " ++ optStr kv.2) ++ "}"

structure Flags where
  loopFrame : Bool := false
  blockFrame : Bool := false
  toplevel : Bool := false
  withPythonScope : Bool := false
  deriving DecidableEq, Repr, Inhabited

/-- `frame.symbols.ref(name)`; the code raises AssertionError for an unknown name — the model writes a marker instead
    (the generators only track names that were stored, as `visit_Name` does) -/
def refOf (chain : List Sym) (name : String) : String :=
  match findRefIn chain name with
  | some r => r
  | none => "<no-ref:" ++ name ++ ">"

/-- `pop_assign_tracking` (compiler.py:780-821) after `vars = self._assign_stack.pop()`.  `it` is what iterating the
    set `vars` yields (`[x for x in vars …]`, `next(iter(vars))`, `sorted(vars)` all iterate the same unmodified set). -/
def popAssignWith (fl : Flags) (chain : List Sym) (vars it : List String) : List String :=
  if (!fl.blockFrame && !fl.loopFrame && !fl.toplevel) || vars.isEmpty then [] else
  let publicNames := it.filter (fun x => !(x.startsWith "_"))
  let target := if fl.loopFrame then "_loop_vars" else if fl.blockFrame then "_block_vars" else "context.vars"
  let head : List String × Bool :=
    if vars.length = 1 then
      match it with
      | name :: _ => ([target ++ "[" ++ pyRepr name ++ "] = " ++ refOf chain name], fl.loopFrame || fl.blockFrame)
      | [] => ([], true)
    else
      ([target ++ ".update({" ++
          ", ".intercalate ((sortStr it).map fun n => pyRepr n ++ ": " ++ refOf chain n) ++ "})"], false)
  if head.2 then head.1
  else if !fl.blockFrame && !fl.loopFrame && !publicNames.isEmpty then
    if publicNames.length = 1 then
      match publicNames with
      | p :: _ => head.1 ++ ["context.exported_vars.add(" ++ pyRepr p ++ ")"]
      | [] => head.1
    else head.1 ++ ["context.exported_vars.update((" ++ ", ".intercalate ((sortStr publicNames).map pyRepr) ++ "))"]
  else head.1

def popAssign (ord : List String → List String) (fl : Flags) (chain : List Sym) (vars : List String) : List String :=
  popAssignWith fl chain vars (ord vars)

/-- the generator state `pull_dependencies` touches: `_last_identifier`, `self.filters`, `self.tests` -/
structure CgState where
  lastId : Nat := 0
  filters : Dict String := []
  tests : Dict String := []
  deriving DecidableEq, Repr, Inhabited

/-- the body of the inner loop of `pull_dependencies` (compiler.py:558-578) for one name; `dep` is "filters"/"tests",
    `one` its singular -/
def pullOne (dep one : String) (acc : (Nat × Dict String) × List String) (name : String) :
    (Nat × Dict String) × List String :=
  let (lastId, idMap) := acc.1
  let (lastId, idMap) := match idMap.get? name with
    | some _ => (lastId, idMap)
    | none => (lastId + 1, idMap.set name ("t_" ++ toString (lastId + 1)))
  let id := (idMap.get? name).getD ""
  ((lastId, idMap), acc.2 ++ [
    "try:",
    "    " ++ id ++ " = environment." ++ dep ++ "[" ++ pyRepr name ++ "]",
    "except KeyError:",
    "    @internalcode",
    "    def " ++ id ++ "(*unused):",
    "        raise TemplateRuntimeError(\"No " ++ one ++ " named " ++ pyRepr name ++ " found.\")"])

/-- `pull_dependencies` (compiler.py:534-578) given the two name sets the visitor collected -/
def pullDeps (ord : List String → List String) (st : CgState) (filters tests : List String) : List String × CgState :=
  let r1 := (sortStr (ord filters)).foldl (pullOne "filters" "filter") ((st.lastId, st.filters), [])
  let r2 := (sortStr (ord tests)).foldl (pullOne "tests" "test") ((r1.1.1, st.tests), r1.2)
  (r2.2, { lastId := r2.1.1, filters := r1.1.2, tests := r2.1.2 })

-- ---------------------------------------------------------------------------------------------------------------
-- programs: what the symbol visitor does to one frame, and what the generator does with frames
-- ---------------------------------------------------------------------------------------------------------------

/-- a chooser: for every *visit* of an iteration site (identified by its path in the program tree) some way of ordering
    a set.  Independent visits may use unrelated orders. -/
abbrev Chooser := List Nat → List String → List String

def Chooser.Valid (o : Chooser) : Prop := ∀ p l, (o p l).Perm l

/-- the symbol analysis of one frame (`FrameSymbolVisitor`): a sequence of `declare_parameter / store / load` and of
    `visit_If` (three copies of the symbols analysed separately — body, all elifs, else — then `branch_update`) -/
inductive Prog where
  | done
  | param (n : String) (k : Prog)
  | store (n : String) (k : Prog)
  | load (n : String) (k : Prog)
  | branch (b1 b2 b3 : Prog) (k : Prog)
  deriving Repr, Inhabited

def analyze (o : Chooser) (ps : List Sym) : List Nat → Sym → Prog → Sym
  | _, s, .done => s
  | p, s, .param n k => analyze o ps (0 :: p) (declareParameter s n) k
  | p, s, .store n k => analyze o ps (0 :: p) (store ps s n) k
  | p, s, .load n k => analyze o ps (0 :: p) (load ps s n) k
  | p, s, .branch b1 b2 b3 k =>
    let s1 := analyze o ps (1 :: p) s b1
    let s2 := analyze o ps (2 :: p) s b2
    let s3 := analyze o ps (3 :: p) s b3
    analyze o ps (0 :: p) (branchUpdate (o p) ps s [s1, s2, s3]) k

/-- what the generator does inside a frame, as far as sets are concerned -/
inductive Code where
  | done
  /-- `derive_context(frame)`: writes `context.derived({dump_local_context})` -/
  | derive (k : Code)
  /-- `push_assign_tracking()`, the names added by `visit_Name`, `pop_assign_tracking(frame)` -/
  | assign (names : List String) (k : Code)
  /-- `pull_dependencies(nodes)` where the visitor meets these filter / test names (with repetitions) -/
  | deps (filters tests : List String) (k : Code)
  /-- `frame.inner()`, `symbols.analyze_node`, `enter_frame`, the body, `leave_frame` -/
  | frame (fl : Flags) (analysis : Prog) (body : Code) (k : Code)
  deriving Repr, Inhabited

/-- emitted lines and final generator state; `chain` = symbols of the current frame and its parents -/
def cg (o : Chooser) : List Nat → Flags → List Sym → CgState → Code → List String × CgState
  | _, _, _, st, .done => ([], st)
  | p, fl, chain, st, .derive k =>
    let r := cg o (0 :: p) fl chain st k
    (("context.derived(" ++ dumpLocalContext (o p) chain ++ ")") :: r.1, r.2)
  | p, fl, chain, st, .assign names k =>
    let r := cg o (0 :: p) fl chain st k
    (popAssign (o p) fl chain (names.foldl sadd []) ++ r.1, r.2)
  | p, fl, chain, st, .deps fs ts k =>
    let d := pullDeps (o p) st (fs.foldl sadd []) (ts.foldl sadd [])   -- `visitor.filters.add(name)` per occurrence
    let r := cg o (0 :: p) fl chain d.2 k
    (d.1 ++ r.1, r.2)
  | p, fl, chain, st, .frame fl' a body k =>
    let lvl := match chain with
      | s :: _ => s.level + 1
      | [] => 0
    let child := analyze o chain (1 :: p) (emptySym lvl) a
    let rb := cg o (2 :: p) fl' (child :: chain) st body
    let rk := cg o (0 :: p) fl chain rb.2 k
    (enterFrame "resolve" child ++ rb.1 ++ leaveFrame fl'.withPythonScope child ++ rk.1, rk.2)

/-- a template as far as this model goes: the root frame -/
def cgTemplate (o : Chooser) (fl : Flags) (analysis : Prog) (body : Code) : List String :=
  (cg o [] {} [] {} (.frame fl analysis body .done)).1

end JinjaV.Symbols
