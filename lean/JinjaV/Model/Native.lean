/-
  M-Rt / NativeConcat: `jinja2.nativetypes.native_concat` (nativetypes.py:16-47).
  `ast.literal_eval(ast.parse(raw, mode="eval"))` is a parameter `litEval`.
-/
namespace JinjaV.Native

inductive Val where
  | str (s : String)                 -- a `str` piece
  | obj (id : Nat) (asStr : String)  -- any non-string value, with what `str()` gives for it
  deriving Repr, BEq, DecidableEq

def Val.toStr : Val → String
  | .str s => s
  | .obj _ s => s

inductive Res (L : Type) where
  | none                             -- `None`
  | value (v : Val)                  -- the value itself (identity preserved)
  | literal (l : L)                  -- the literal the text denotes
  | text (s : String)
  deriving Repr, DecidableEq

def parse {L : Type} (litEval : String → Option L) (raw : String) : Res L :=
  match litEval raw with
  | some l => .literal l
  | none => .text raw                -- `except (ValueError, SyntaxError, MemoryError): return raw`

/-- `values` is a list (re-iterable) or a generator (`islice` consumed the head, which is chained back) -/
def nativeConcat {L : Type} (litEval : String → Option L) (isGenerator : Bool) (values : List Val) : Res L :=
  let head := values.take 2
  let rest := values.drop 2                       -- what a generator still holds after `islice(values, 2)`
  match head with
  | [] => .none
  | [raw] =>
    match raw with
    | .str s => parse litEval s
    | v => .value v
  | _ =>
    let all := if isGenerator then head ++ rest else values
    parse litEval (String.join (all.map Val.toStr))

end JinjaV.Native
