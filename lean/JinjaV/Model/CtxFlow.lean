/-
  M-CtxFlow — what an included / imported template's context is made of.

  A transcription of the data flow in
    compiler.py   visit_Include (1037-1096), _import_common (1098-1111), visit_Import (1113-1122),
                  visit_FromImport (1124-1177), dump_local_context (713-718), pop_assign_tracking (784-822),
                  visit_Macro (1361-1368)
    runtime.py    new_context (93-119), Context.__init__ (166-184), resolve_or_missing (229-245),
                  get_exported (247-249), get_all (251-260)
    environment.py Template.new_context (1362-1384), make_module (1386-1400), _get_default_module(_async) (1419-1458),
                  TemplateModule.__init__ (1518-1536), select_template (1017-1069), get_or_select_template (1071-1087)
  Names and values are small finite things; a mapping (dict / ChainMap) is an association list whose *first* entry
  for a key is the value of that key.  Core Lean only.
-/
namespace JinjaV.CtxFlow

abbrev Name := String

/-- a dict; the first entry for a key wins -/
abbrev Env (α : Type) := List (Name × α)

namespace Env
variable {α : Type}

def get : Env α → Name → Option α
  | [], _ => none
  | (k, v) :: r, n => if k = n then some v else get r n

def keys (e : Env α) : List Name := e.map (·.1)

/-- `d[k] = v` -/
def set (e : Env α) (k : Name) (v : α) : Env α := (k, v) :: e

end Env

/-- `dict(base, **top)` / `ChainMap(top, base)` -/
def overlay {α} (top base : Env α) : Env α := top ++ base

/-- `runtime.Context`: `parent` (read-only mapping the lookups fall back to), `vars` (the template's own top-level
    assignments), `globals_keys`, `_globals` (the globals mapping the context was created with, runtime.py:179-182),
    `exported_vars` (a set: membership is all that is read) -/
structure Ctx (α : Type) where
  parent : Env α
  vars : Env α := []
  gkeys : List Name := []
  globals : Env α := []
  exported : List Name := []

namespace Ctx
variable {α : Type}

/-- `Context.resolve_or_missing` (runtime.py:229-245); `none` is `missing` -/
def resolve (c : Ctx α) (n : Name) : Option α :=
  match c.vars.get n with
  | some v => some v
  | none => c.parent.get n

/-- `Context.get_all` (runtime.py:251-260), including its two shortcuts -/
def getAll (c : Ctx α) : Env α :=
  if c.vars.isEmpty then c.parent
  else if c.parent.isEmpty then c.vars
  else overlay c.vars c.parent

end Ctx

/-- the dict literal built by `dump_local_context`: name ↦ current value of the Python local, `none` = `missing` -/
abbrev Locals (α : Type) := List (Name × Option α)

/-- `for key, value in locals.items(): if value is not missing: parent[key] = value` (runtime.py:114-116) -/
def applyLocals {α} (parent : Env α) : Locals α → Env α
  | [] => parent
  | (k, some v) :: r => applyLocals (parent.set k v) r
  | (_, none) :: r => applyLocals parent r

/-- the value a locals dict gives to a name: that of the last entry that is not `missing` -/
def Locals.val {α} : Locals α → Name → Option α
  | [], _ => none
  | (k, v) :: r, n =>
    match Locals.val r n with
    | some w => some w
    | none => if k = n then v else none

/-- one scope of the generated code: the Python locals `l_N_name` it declares, in declaration order; `none` = the
    local currently holds `missing` -/
abbrev Frame (α : Type) := Locals α

/-- innermost declaration of a name, frames given innermost first (`Symbols.find_ref`, idtracking.py:73-80, plus the
    current value of that Python local); `some none` = declared, currently `missing` -/
def findDecl {α} : List (Frame α) → Name → Option (Option α)
  | [], _ => none
  | f :: r, n => match f.find? (·.1 = n) with
    | some (_, v) => some v
    | none => findDecl r n

/-- keep the first entry of every name -/
def dedupFirst {α} : Locals α → Locals α
  | [] => []
  | p :: r => p :: (dedupFirst r).filter fun q => q.1 ≠ p.1

/-- `dump_local_context(frame)` (compiler.py:713-718): `Symbols.dump_stores` (idtracking.py:145-156) walks from the
    innermost symbol table outwards and keeps the first reference found for every stored name -/
def dumpLocals {α} (frames : List (Frame α)) : Locals α := dedupFirst frames.flatten

/-- `runtime.new_context(environment, name, blocks, vars, shared, globals, locals)` (runtime.py:93-119) -/
def newContext {α} (globals : Env α) (vars : Option (Env α)) (shared : Bool) (locals : Locals α) : Ctx α :=
  let vars := vars.getD []
  let parent := if shared then vars else overlay vars globals
  { parent := applyLocals parent locals, gkeys := globals.keys, globals := globals }

/-- `Context.derived(locals)` (runtime.py:313-325): `new_context(…, self.get_all(), True, None, locals)`, then
    `globals_keys` and `_globals` are inherited from the context it derives from -/
def Ctx.derived {α} (c : Ctx α) (locals : Locals α) : Ctx α :=
  { newContext [] (some c.getAll) true locals with gkeys := c.gkeys, globals := c.globals }

/-- `Template.render(**vars)` → `self.new_context(vars)` (environment.py:1301, 1362-1384) -/
def rootContext {α} (globals renderVars : Env α) : Ctx α := newContext globals (some renderVars) false []

/-- `Template.globals` = `ChainMap(globals passed to get_template, environment.globals)` (environment.py:1112-1128) -/
def templateGlobals {α} (tplLayer envGlobals : Env α) : Env α := overlay tplLayer envGlobals

inductive Kind where
  | inc      -- `include`
  | imp      -- `import … as` and `from … import` share `_import_common`
  deriving DecidableEq, Repr

/-- everything the generated code hands over at one include / import statement -/
structure Situation (α : Type) where
  /-- the `context` of the running template at the statement -/
  ctx : Ctx α
  /-- `dump_local_context(frame)` evaluated at the statement -/
  locals : Locals α
  /-- `.globals` of the running template (the template `ctx` was created for) -/
  srcGlobals : Env α
  /-- `.globals` of the template that is included / imported -/
  tgtGlobals : Env α
  kind : Kind
  /-- `with context` (the default for include) / `without context` (the default for import) -/
  withCtx : Bool

/-- `keys = ctx.globals_keys - self.globals.keys()` (environment.py:1433, 1449) -/
def extraKeys {α} (ctx : Ctx α) (tgtGlobals : Env α) : List Name :=
  ctx.gkeys.filter fun k => !(tgtGlobals.keys.contains k)

/-- `{k: ctx._globals[k] for k in keys if k in ctx._globals}` (environment.py:1436-1438, 1452-1454; since 1454414 the
    values are read from the globals mapping the context was created with, no longer from `ctx.parent`) -/
def defaultModuleVars {α} (ctx : Ctx α) (tgtGlobals : Env α) : Env α :=
  (extraKeys ctx tgtGlobals).filterMap fun k => (ctx.globals.get k).map fun v => (k, v)

/-- is the statement served from `Template._module` (rendered once, then reused)? -/
def servedFromCache {α} (s : Situation α) : Bool :=
  !s.withCtx && (match s.kind with
    | .inc => true
    | .imp => (extraKeys s.ctx s.tgtGlobals).isEmpty)

/-- The `Context` the target template is rendered with.
    * with context (include: compiler.py:1071-1076, import: 1106-1109):
        `template.new_context(context.get_all(), True, {locals})`
    * include without context (1086-1094): `template._get_default_module()` → `make_module()` → `new_context(None)`
    * import without context (1111): `_get_default_module(context)`: the cached module when the importing context
      has no extra globals keys, else `make_module({k: ctx._globals[k] …})` -/
def targetCtx {α} (s : Situation α) : Ctx α :=
  if s.withCtx then newContext s.tgtGlobals (some s.ctx.getAll) true s.locals
  else match s.kind with
    | .inc => newContext s.tgtGlobals none false []
    | .imp =>
      if (extraKeys s.ctx s.tgtGlobals).isEmpty then newContext s.tgtGlobals none false []
      else newContext s.tgtGlobals (some (defaultModuleVars s.ctx s.tgtGlobals)) false []

/-- what a lookup of `n` in the target template finds before the target assigns anything itself -/
def visible {α} (s : Situation α) (n : Name) : Option α := (targetCtx s).resolve n

/-! ### module exports: the `exported_vars` bookkeeping -/

/-- `x[:1] != "_"` (compiler.py:806) / `not name.startswith("_")` (1121, 1165, 1365) -/
def isPublic (n : Name) : Bool := !(n.startsWith "_")

/-- a binding made by a statement whose frame is `toplevel` -/
inductive TopBind (α : Type) where
  /-- `set` / block `set` / `macro`: `context.vars[n] = v; context.exported_vars.add(n)` if public -/
  | assign (n : Name) (v : α)
  /-- `import … as n` / `from … import … as n`: `context.vars[n] = v; context.exported_vars.discard(n)` if public -/
  | imported (n : Name) (v : α)

def TopBind.name {α} : TopBind α → Name
  | .assign n _ => n
  | .imported n _ => n

def Ctx.bindTop {α} (c : Ctx α) : TopBind α → Ctx α
  | .assign n v =>
    { c with vars := c.vars.set n v, exported := if isPublic n then n :: c.exported else c.exported }
  | .imported n v =>
    { c with vars := c.vars.set n v, exported := if isPublic n then c.exported.filter (· ≠ n) else c.exported }

/-- `Context.get_exported` (runtime.py:247-249): `{k: self.vars[k] for k in self.exported_vars}` =
    the attributes of the `TemplateModule` (environment.py:1535) -/
def Ctx.getExported {α} (c : Ctx α) : Env α :=
  c.exported.filterMap fun k => (c.vars.get k).map fun v => (k, v)

/-! ### which template an include statement renders -/

/-- what loading one name does -/
inductive Load where
  | found (t : Name)
  /-- the loader raises `TemplateNotFound` -/
  | notFound
  /-- the name is an `Undefined` object -/
  | undefinedName
  /-- the template exists but does not compile (`TemplateSyntaxError`) -/
  | broken
  deriving DecidableEq, Repr

/-- an element of the list given to `include`: a name, or a `Template` object passed as data -/
inductive Item where
  | name (l : Load)
  | obj (t : Name)
  deriving DecidableEq, Repr

/-- does the entry name something that exists (a `Template` object, or a name the loader knows — compiling or not)? -/
def Item.existing : Item → Bool
  | .obj _ => true
  | .name (.found _) => true
  | .name .broken => true
  | .name .notFound => false
  | .name .undefinedName => false

inductive Err where
  | templateNotFound | templatesNotFound | undefinedError | syntaxError | keyError
  /-- any other exception class raised while a template renders (ZeroDivisionError, …) -/
  | other (cls : String)
  deriving DecidableEq, Repr

/-- `TemplatesNotFound` is a subclass of `TemplateNotFound` (exceptions.py) -/
def Err.isNotFound : Err → Bool
  | .templateNotFound | .templatesNotFound => true
  | _ => false

/-- `Environment.get_template` (environment.py:981-1015) / the str and Template arms of `get_or_select_template` -/
def getTemplate : Item → Except Err Name
  | .obj t => .ok t
  | .name (.found t) => .ok t
  | .name .notFound => .error .templateNotFound
  | .name .undefinedName => .error .undefinedError
  | .name .broken => .error .syntaxError

/-- the loop of `Environment.select_template` (environment.py:1057-1069): a `Template` is returned as is,
    `TemplateNotFound` and `UndefinedError` move on to the next name, anything else propagates -/
def selectLoop : List Item → Except Err Name
  | [] => .error .templatesNotFound
  | .obj t :: _ => .ok t
  | .name (.found t) :: _ => .ok t
  | .name .notFound :: r => selectLoop r
  | .name .undefinedName :: r => selectLoop r
  | .name .broken :: _ => .error .syntaxError

/-- `select_template`: an empty list raises `TemplatesNotFound` as well (1052-1055) -/
def selectTemplate (items : List Item) : Except Err Name := selectLoop items

/-- the template expression of an include: one name / object, or a list -/
inductive IncTarget where
  | single (i : Item)
  | many (items : List Item)

def IncTarget.load : IncTarget → Except Err Name
  | .single i => getTemplate i
  | .many items => selectTemplate items

/-- `visit_Include`'s `try: template = … except TemplateNotFound: pass else: <render>` (compiler.py:1039-1067);
    `ok none` = the statement is skipped -/
def includeResolve (t : IncTarget) (ignoreMissing : Bool) : Except Err (Option Name) :=
  match t.load with
  | .ok n => .ok (some n)
  | .error e => if ignoreMissing && e.isNotFound then .ok none else .error e

/-- One include statement as the generated code runs it: the lookup inside the guarded region, then — in the `else:`
    arm, OUTSIDE the guarded region — the rendering of the target.  `render t` is what rendering `t` does: its text,
    or the exception raised while it renders (for instance a `TemplateNotFound` of a template that `t` itself
    includes, imports or extends). -/
def includeStmt (t : IncTarget) (ignoreMissing : Bool) (render : Name → Except Err String) : Except Err String :=
  match includeResolve t ignoreMissing with
  | .error e => .error e
  | .ok none => .ok ""
  | .ok (some n) => render n

/-- The shape of the `try` statement visit_Include emits for `ignore missing` (compiler.py:1039-1067, 1096), read
    back from the generated code by the L-code tie: what the `try:` body holds, what each handler catches and does,
    where the target is rendered.  `includeStmt` / `includeResolve` are the semantics of exactly this shape. -/
structure IncludeGuard where
  guarded : List String
  handlers : List (String × List String)
  renderIn : String
  hasFinally : Bool

def includeGuard : IncludeGuard :=
  { guarded := ["lookup"], handlers := [("TemplateNotFound", ["Pass"])], renderIn := "else", hasFinally := false }

end JinjaV.CtxFlow
