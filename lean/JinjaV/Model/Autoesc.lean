/-
  Value-level model of autoescaping (C15, C16).  Core Lean only.

  One small term language stands for the constructions through which a value can reach the output.  A term is
  evaluated two ways at once:
    * `val`  — the value it denotes as an expression (a plain `str` or a `Markup`),
    * `out`  — the text it writes as a template body.
  A body used as an expression (`blk`) denotes `Markup(concat(buffer))` under autoescape and `concat(buffer)` without:
  that is what a macro call, `caller()`, `super()`, a block reference `self.b()`, a `{% set x %}…{% endset %}` block
  a `{% call %}` body and `loop(children)` of a recursive `for` loop return (compiler.py:392-410 `return_buffer_contents`, 1353-1362 `visit_AssignBlock`,
  runtime.py:368-391 `BlockReference.__call__`, 694-789 `Macro`).  An expression used as a body (`emit`) is
  `{{ e }}`: `escape(e)` under autoescape, `str(e)` without (compiler.py:1470-1495 `_output_child_pre`, and the
  compile-time path 1449-1468 which calls the same `escape`).  `bind` passes a value on unchanged: a macro argument,
  `{% set x = e %}`, a loop variable, an imported name.  Includes, imports and inheritance put bodies in
  sequence (`seq`).  A filter block `{% filter f(a) %}B{% endfilter %}` is `emit (f (blk B) a)` and a filtered set block
  `{% set x | f(a) %}B{% endset %}` binds `esc (f (blk B) a)` (compiler.py `visit_FilterBlock`, `visit_AssignBlock`).  A chain
  `{% filter f(a)|g(b) %}B{% endfilter %}` is the composition `emit (g (f (blk B) a) b)`: the buffer enters the FIRST filter
  as Markup, every later filter receives the previous result (compiler.py `visit_Filter` recursing into `node.node`).
-/
import JinjaV.Model.Escape
import JinjaV.Model.HtmlFilt
namespace JinjaV.Autoesc
open JinjaV.Escape JinjaV.HtmlFilt

inductive Tm where
  -- expressions
  | lit (s : List Char)            -- a string literal in the template: a plain `str`
  | var (i : Nat)                  -- a name: context data or a bound value (de Bruijn index)
  | cat (a b : Tm)                 -- `a ~ b`: runtime.markup_join / str_join (runtime.py:77-90)
  | blk (body : Tm)                -- a buffered body used as a value
  -- bodies
  | text (t : List Char)           -- template data
  | emit (e : Tm)                  -- `{{ e }}`
  | seq (a b : Tm)
  | bind (e : Tm) (body : Tm)      -- evaluate `e`, bind it, continue with `body`
  | empty
  -- operations on mixes of Markup and plain values (C15; of these only `join` is escaping-neutral and belongs to C16's fragment)
  | esc (e : Tm)                   -- `e|e`, `e|escape`
  | force (e : Tm)                 -- `e|forceescape`
  | add (a b : Tm)                 -- `a + b`
  | mod (f a : Tm)                 -- `f % a`, `f|format(a)`
  | join (d a b : Tm)              -- `[a, b]|join(d)` (sync_do_join: all three paths — plain, escaped delimiter, Markup delimiter)
  | replace (s old new : Tm)       -- `s|replace(old, new)`
  | indent (s w : Tm)              -- `s|indent(w, first=true)`
  | truncate (s e : Tm) (n : Nat)  -- `s|truncate(n, true, e, 0)`
  | wordwrap (s w : Tm)            -- `s|wordwrap(width, true, w)` (for the `wrap` given to the evaluator)
  deriving Repr, Inhabited

/-- terms of the escaping-neutral fragment (C16) -/
def Tm.neutral : Tm → Bool
  | .lit _ | .var _ | .text _ | .empty => true
  | .cat a b | .seq a b | .bind a b => a.neutral && b.neutral
  | .blk a | .emit a => a.neutral
  | .join d a b => d.neutral && a.neutral && b.neutral     -- joining is escaping-neutral, whatever is Markup among delimiter and items
  | _ => false

/-- `runtime.markup_join((a, b))` (autoescape) -/
def markupJoin (a b : Val) : Val :=
  if a.isMarkup || b.isMarkup then .markup (a.esc ++ b.esc) else .plain (a.text ++ b.text)

def lookup (env : List Val) (i : Nat) : Val := env.getD i (.plain [])

mutual
/-- value of a term under autoescape; a filter that raises yields no output at all, modelled as the empty plain value -/
def valOn (wrap : List Char → List (List Char)) : Tm → List Val → Val
  | .lit s, _ => .plain s
  | .var i, env => lookup env i
  | .cat a b, env => markupJoin (valOn wrap a env) (valOn wrap b env)
  | .blk n, env => .markup (outOn wrap n env)
  | .text t, _ => .markup t
  | .emit e, env => .markup (valOn wrap e env).esc
  | .seq a b, env => .markup (outOn wrap a env ++ outOn wrap b env)
  | .bind e n, env => .markup (outOn wrap n (valOn wrap e env :: env))
  | .empty, _ => .markup []
  | .esc e, env => doEscape (valOn wrap e env)
  | .force e, env => doForceescape (valOn wrap e env)
  | .add a b, env => vAdd (valOn wrap a env) (valOn wrap b env)
  | .mod f a, env => match vMod (valOn wrap f env) [valOn wrap a env] with
      | some (.ok v) => v
      | _ => .plain []
  | .join d a b, env => doJoin true [valOn wrap a env, valOn wrap b env] (valOn wrap d env)
  | .replace s o n, env => doReplace true (valOn wrap s env) (valOn wrap o env) (valOn wrap n env) none
  | .indent s w, env => (doIndent (valOn wrap s env) (.str (valOn wrap w env)) true false).getD (.plain [])
  | .truncate s e n, env => (doTruncate (valOn wrap s env) n true (valOn wrap e env) 0).getD (.plain [])
  | .wordwrap s w, env => doWordwrap wrap (valOn wrap s env) (valOn wrap w env)
/-- text written by a term used as a body under autoescape -/
def outOn (wrap : List Char → List (List Char)) : Tm → List Val → List Char
  | .text t, _ => t
  | .emit e, env => (valOn wrap e env).esc
  | .seq a b, env => outOn wrap a env ++ outOn wrap b env
  | .bind e n, env => outOn wrap n (valOn wrap e env :: env)
  | .empty, _ => []
  | .blk n, env => outOn wrap n env           -- `escape(Markup(x))` is `x`
  | .lit s, _ => escape s
  | .var i, env => (lookup env i).esc
  | .cat a b, env => (markupJoin (valOn wrap a env) (valOn wrap b env)).esc
  | .esc e, env => (doEscape (valOn wrap e env)).esc
  | .force e, env => (doForceescape (valOn wrap e env)).esc
  | .add a b, env => (vAdd (valOn wrap a env) (valOn wrap b env)).esc
  | .mod f a, env => match vMod (valOn wrap f env) [valOn wrap a env] with
      | some (.ok v) => v.esc
      | _ => []
  | .join d a b, env => (doJoin true [valOn wrap a env, valOn wrap b env] (valOn wrap d env)).esc
  | .replace s o n, env => (doReplace true (valOn wrap s env) (valOn wrap o env) (valOn wrap n env) none).esc
  | .indent s w, env => ((doIndent (valOn wrap s env) (.str (valOn wrap w env)) true false).getD (.plain [])).esc
  | .truncate s e n, env => ((doTruncate (valOn wrap s env) n true (valOn wrap e env) 0).getD (.plain [])).esc
  | .wordwrap s w, env => (doWordwrap wrap (valOn wrap s env) (valOn wrap w env)).esc
end

mutual
/-- value of a neutral term without autoescape: everything is a plain string (`str_join`, `concat(buffer)`, `str(e)`) -/
def valOff : Tm → List (List Char) → List Char
  | .lit s, _ => s
  | .var i, env => env.getD i []
  | .cat a b, env => valOff a env ++ valOff b env
  | .blk n, env => outOff n env
  | .text t, _ => t
  | .emit e, env => valOff e env
  | .seq a b, env => outOff a env ++ outOff b env
  | .bind e n, env => outOff n (valOff e env :: env)
  | .empty, _ => []
  | .join d a b, env => valOff a env ++ valOff d env ++ valOff b env      -- `str(d).join(map(str, value))`
  | _, _ => []
def outOff : Tm → List (List Char) → List Char
  | .text t, _ => t
  | .emit e, env => valOff e env
  | .seq a b, env => outOff a env ++ outOff b env
  | .bind e n, env => outOff n (valOff e env :: env)
  | .empty, _ => []
  | .blk n, env => outOff n env
  | .lit s, _ => s
  | .var i, env => env.getD i []
  | .cat a b, env => valOff a env ++ valOff b env
  | .join d a b, env => valOff a env ++ valOff d env ++ valOff b env
  | _, _ => []
end

/-- template text of a term: the `text` pieces (literals are *not* template text: they are plain values) -/
def Tm.texts : Tm → List (List Char)
  | .text t => [t]
  | .lit _ | .var _ | .empty => []
  | .blk a | .emit a | .esc a | .force a => a.texts
  | .cat a b | .seq a b | .bind a b | .add a b | .mod a b | .indent a b | .wordwrap a b => a.texts ++ b.texts
  | .truncate a b _ => a.texts ++ b.texts
  | .join a b c | .replace a b c => a.texts ++ b.texts ++ c.texts

/-- text in which `unescape` finds only complete entities: characters other than `&`, and the five entities -/
inductive AmpOK : List Char → Prop
  | nil : AmpOK []
  | chr (c : Char) (t : List Char) : c ≠ '&' → AmpOK t → AmpOK (c :: t)
  | ent (e : List Char) (c : Char) (t : List Char) : (e, c) ∈ entities → AmpOK t → AmpOK (e ++ t)

/-- the "escaped exactly once" relation between a value under autoescape and the string without -/
def Once (v : Val) (s : List Char) : Prop :=
  match v with
  | .plain p => p = s
  | .markup m => AmpOK m ∧ unescape m = s

/-- environments related position by position (context data: the same plain strings on both sides) -/
inductive EnvOnce : List Val → List (List Char) → Prop
  | nil : EnvOnce [] []
  | cons {v : Val} {s : List Char} {vs : List Val} {ss : List (List Char)} : Once v s → EnvOnce vs ss → EnvOnce (v :: vs) (s :: ss)

end JinjaV.Autoesc
