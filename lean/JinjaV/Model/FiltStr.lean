/-
  M-Filt (strings and numbers) — transcriptions of the string/number filters of
  src/jinja2/filters.py over `List Char` (text) and `Int`/rationals (numbers).  Core Lean only.

  Modelled here (each definition cites the lines it transcribes):
    truncate, indent (with Python's `str.splitlines`), center (`str.center`), trim (`str.strip`),
    replace (`str.replace` with count), wordcount on ASCII (`\w+`), the unit selection of
    filesizeformat, and the try/except decision structure of int / float over the READ handler
    lists and the MEASURED conversion table of Gen/ConvertTable.lean.

  Not modelled (Python stdlib behaviour; correspondence-only in harness/props/c23.py):
    wordwrap (textwrap), title/capitalize/upper/lower (Unicode case mapping), urlencode
    (urllib quote), round (float rounding), striptags (markupsafe), format (printf formatting).
-/
import JinjaV.Gen.ConvertTable
import JinjaV.Gen.FilterWorkers

namespace JinjaV.FiltStr

abbrev Str := List Char

/-! ## truncate — filters.py:901-914 -/

/-- `t.rsplit(" ", 1)[0]`: everything before the last space, or all of `t` if it has no space -/
def cutLastSpace (t : Str) : Str :=
  match t.reverse.dropWhile (fun c => c != ' ') with
  | [] => t
  | _ :: rest => rest.reverse

/-- `do_truncate(env, s, length, killwords, end, leeway)`; `none` = the `assert` fails
    (`length >= len(end)`, `leeway >= 0`).  `leeway` is the resolved value (argument or policy). -/
def truncate (s : Str) (length : Int) (killwords : Bool) (end_ : Str) (leeway : Int) : Option Str :=
  if length < (end_.length : Int) then none
  else if leeway < 0 then none
  else if (s.length : Int) ≤ length + leeway then some s
  else if killwords then some (s.take (length - end_.length).toNat ++ end_)
  else some (cutLastSpace (s.take (length - end_.length).toNat) ++ end_)

/-! ## Python `str.splitlines()` and indent — filters.py:839-866 -/

/-- the characters `str.splitlines` treats as line boundaries (besides the pair `\r\n`) -/
def isBreak (c : Char) : Bool :=
  c == '\n' || c == '\r' || c == '\x0b' || c == '\x0c' || c == '\x1c' || c == '\x1d' || c == '\x1e' ||
  c == '\u0085' || c == '\u2028' || c == '\u2029'

/-- `splitlinesAux rest cur afterCR`: `cur` is the current line, reversed; `afterCR`: the previous character was
    a `\r` that ended a line, so a `\n` now belongs to the same boundary (`\r\n` counts once) -/
def splitlinesAux : Str → Str → Bool → List Str
  | [], cur, _ => if cur.isEmpty then [] else [cur.reverse]
  | c :: rest, cur, afterCR =>
    if afterCR && c == '\n' then splitlinesAux rest cur false
    else if isBreak c then cur.reverse :: splitlinesAux rest [] (c == '\r')
    else splitlinesAux rest (c :: cur) false

/-- `s.splitlines()` (keepends = False) -/
def splitlines (s : Str) : List Str := splitlinesAux s [] false

def joinWith (sep : Str) : List Str → Str
  | [] => []
  | [l] => l
  | l :: ls => l ++ sep ++ joinWith sep ls

/-- `do_indent(s, width, first, blank)` for a plain `str`; `ind` is the indentation string
    (`width` if it is a string, else `" " * width`). -/
def indent (s ind : Str) (first blank : Bool) : Str :=
  let lines := splitlines (s ++ ['\n'])
  let rv :=
    if blank then joinWith ('\n' :: ind) lines
    else
      match lines with
      | [] => []       -- unreachable: `s + "\n"` always has a first line (`splitlines_snoc_ne_nil`)
      | l0 :: rest =>
        if rest.isEmpty then l0
        else l0 ++ ['\n'] ++ joinWith ['\n'] (rest.map fun l => if l.isEmpty then l else ind ++ l)
  if first then ind ++ rv else rv

/-! ## center — `str.center(width)` (CPython unicodeobject.c `unicode_center_impl`) -/

def center (s : Str) (width : Int) : Str :=
  if width ≤ (s.length : Int) then s
  else
    let marg := (width - s.length).toNat
    let left := marg / 2 + (marg % 2) * (width.toNat % 2)      -- marg/2 + (marg & width & 1)
    List.replicate left ' ' ++ s ++ List.replicate (marg - left) ' '

/-! ## trim — `str.strip(chars)` -/

/-- `str.isspace` per character (Unicode White_Space as CPython defines it) -/
def isPySpace (c : Char) : Bool :=
  let n := c.toNat
  (9 ≤ n && n ≤ 13) || (28 ≤ n && n ≤ 32) || n == 0x85 || n == 0xa0 || n == 0x1680 ||
  (0x2000 ≤ n && n ≤ 0x200a) || n == 0x2028 || n == 0x2029 || n == 0x202f || n == 0x205f || n == 0x3000

def lstrip (p : Char → Bool) (s : Str) : Str := s.dropWhile p
def rstrip (p : Char → Bool) (s : Str) : Str := (s.reverse.dropWhile p).reverse
def strip (p : Char → Bool) (s : Str) : Str := rstrip p (lstrip p s)

def stripPred : Option Str → Char → Bool
  | none => isPySpace
  | some cs => fun c => cs.contains c

/-- `do_trim(value, chars)` -/
def trim (s : Str) (chars : Option Str) : Str := strip (stripPred chars) s

/-! ## replace — `str.replace(old, new, count)`; filters.py:196-200 -/

/-- count as Python gives it: negative (or None → -1) = unlimited -/
def countOf (count : Int) : Option Nat := if count < 0 then none else some count.toNat

def decr : Option Nat → Option Nat
  | none => none
  | some n => some (n - 1)

/-- scanning replace for a non-empty `old`: leftmost, non-overlapping, at most `cnt` times -/
def replaceNE (old new : Str) (s : Str) (cnt : Option Nat) : Str :=
  match s with
  | [] => []
  | c :: cs =>
    if cnt = some 0 then c :: cs
    else if _h : old ≠ [] ∧ old.isPrefixOf (c :: cs) then
      new ++ replaceNE old new ((c :: cs).drop old.length) (decr cnt)
    else c :: replaceNE old new cs cnt
termination_by s.length
decreasing_by
  · have : 0 < old.length := List.length_pos_iff.mpr _h.1
    simp only [List.length_drop, List.length_cons]; omega
  · simp

/-- `s.replace("", new, count)`: `new` is inserted before every character and at the end -/
def replaceEmpty (new : Str) : Str → Option Nat → Str
  | s, some 0 => s
  | [], _ => new
  | c :: cs, cnt => new ++ c :: replaceEmpty new cs (decr cnt)

/-- `do_replace` without autoescape: `str(s).replace(str(old), str(new), count)` -/
def replace (s old new : Str) (count : Int) : Str :=
  if old.isEmpty then replaceEmpty new s (countOf count) else replaceNE old new s (countOf count)

/-! ## wordcount on ASCII — `len(re.findall(r"\w+", s))`; filters.py:973-978 -/

def isWordAscii (c : Char) : Bool := c.isAlphanum || c == '_'

/-- number of maximal runs of word characters; `inw`: the previous character was a word character -/
def wordcountGo : Str → Bool → Nat
  | [], _ => 0
  | c :: cs, inw =>
    if isWordAscii c then (if inw then 0 else 1) + wordcountGo cs true
    else wordcountGo cs false

def wordcount (s : Str) : Nat := wordcountGo s false

/-! ## wordwrap — filters.py:949-970, with `textwrap.wrap(line, width, …)` as a parameter

  `wrapstring.join([wrapstring.join(textwrap.wrap(line, …)) for line in s.splitlines()])` -/

def wordwrap (wrap : Str → List Str) (ws : Str) (s : Str) : Str :=
  joinWith ws ((splitlines s).map fun line => joinWith ws (wrap line))

/-- the non-whitespace text of a string, in order -/
def nonws (s : Str) : Str := s.filter fun c => !isPySpace c

/-- textwrap's contract, part 1: a paragraph's non-whitespace text is kept, in order -/
def WrapKeepsText (wrap : Str → List Str) : Prop := ∀ line, nonws (wrap line).flatten = nonws line

/-- textwrap's contract, part 2 (`break_long_words=True`): no produced line is longer than the width -/
def WrapFits (wrap : Str → List Str) (width : Nat) : Prop := ∀ line, ∀ l ∈ wrap line, l.length ≤ width

/-! ## striptags — filters.py:1047-1052 → `Markup.striptags` (markupsafe 3.0: two find/cut loops, then
  `" ".join(value.split())`, then `unescape`; modelled for text without `&`, where `unescape` is the identity) -/

/-- split at the first occurrence of `pat`: `(before, after)`; `none` if `pat` does not occur (`str.find == -1`) -/
def splitFirst (pat : Str) : Str → Option (Str × Str)
  | [] => if pat.isEmpty then some ([], []) else none
  | c :: cs =>
    if pat.isPrefixOf (c :: cs) then some ([], (c :: cs).drop pat.length)
    else (splitFirst pat cs).map fun ab => (c :: ab.1, ab.2)

/-- one round of `while (start := value.find(open)) != -1: if (end := value.find(close, start)) == -1: break;
    value = value[:start] + value[end + len(close):]` — `none` = the loop stops -/
def stripStep (opn close : Str) (s : Str) : Option Str :=
  match splitFirst opn s with
  | none => none
  | some (a, _) =>
    match splitFirst close (s.drop a.length) with
    | none => none
    | some (_, b) => some (a ++ b)

/-- the whole loop (it searches from the start of the shortened text again); the length guard only serves termination,
    it is always true for a non-empty `close` (`stripStep_shorter`) -/
def stripAll (opn close : Str) (s : Str) : Str :=
  match stripStep opn close s with
  | none => s
  | some s' => if s'.length < s.length then stripAll opn close s' else s
termination_by s.length

/-- `value.split()`: the maximal runs of non-whitespace characters; `cur` is the current run, reversed -/
def splitWsAux : Str → Str → List Str
  | [], cur => if cur.isEmpty then [] else [cur.reverse]
  | c :: cs, cur =>
    if isPySpace c then (if cur.isEmpty then splitWsAux cs [] else cur.reverse :: splitWsAux cs [])
    else splitWsAux cs (c :: cur)

def splitWs (s : Str) : List Str := splitWsAux s []

/-- `" ".join(value.split())` -/
def collapse (s : Str) : Str := joinWith [' '] (splitWs s)

/-- `do_striptags` on plain text without `&`: comments, then tags, then whitespace -/
def striptags (s : Str) : Str :=
  collapse (stripAll ['<'] ['>'] (stripAll ['<', '!', '-', '-'] ['-', '-', '>'] s))

/-! ## format — filters.py:1034-1039: `soft_str(value) % args` for positional arguments and the directives
  `%s`, `%d`, `%%` (CPython's left-to-right scan; errors are raised where the scan meets them) -/

/-- an argument as the format operator sees it: its `str()` and, if it is a number, its `%d` rendering
    (both produced by Python: number formatting is a parameter of the model) -/
structure FmtArg where
  s : Str
  d : Option Str
  deriving Repr, DecidableEq

inductive FmtRes where
  | ok (out : Str)
  | typeError        -- not enough arguments / `%d` of a non-number / not all arguments converted
  | valueError       -- incomplete format (`%` at the end)
  | oom              -- a directive outside the modelled subset
  deriving Repr, DecidableEq

def FmtRes.cons (c : Str) : FmtRes → FmtRes
  | .ok out => .ok (c ++ out)
  | e => e

def formatGo : Str → List FmtArg → FmtRes
  | [], [] => .ok []
  | [], _ :: _ => .typeError                      -- not all arguments converted
  | '%' :: [], _ => .valueError                   -- incomplete format
  | '%' :: '%' :: rest, args => (formatGo rest args).cons ['%']
  | '%' :: 's' :: rest, args =>
    match args with
    | [] => .typeError                            -- not enough arguments
    | a :: as => (formatGo rest as).cons a.s
  | '%' :: 'd' :: rest, args =>
    match args with
    | [] => .typeError
    | a :: as =>
      match a.d with
      | none => .typeError                        -- %d format: a real number is required
      | some d => (formatGo rest as).cons d
  | '%' :: _ :: _, _ => .oom
  | c :: rest, args => (formatGo rest args).cons [c]

/-- `do_format(value, *args)` with positional arguments only -/
def format (fmt : Str) (args : List FmtArg) : FmtRes := formatGo fmt args

/-! ## filesizeformat: unit selection — filters.py:706-730

  `bytes` is the float value as an exact rational `num/den` (`den > 0`); every finite float is one. -/

inductive SizeUnit where
  | byte1                -- "1 Byte"
  | bytes (n : Int)      -- f"{int(bytes)} Bytes"
  | pref (i : Nat)       -- prefixes[i]; mantissa `base * bytes / base^(i+2)`
  deriving Repr, DecidableEq

/-- the `for i, prefix in enumerate(prefixes)` loop over the indices still to visit -/
def prefLoop (lt : Nat → Bool) : List Nat → Option Nat
  | [] => none
  | i :: is => if lt i then some i else prefLoop lt is

def sizeBase (binary : Bool) : Nat := if binary then 1024 else 1000

def sizeUnit (num : Int) (den : Nat) (binary : Bool) : SizeUnit :=
  let base := sizeBase binary
  if num = den then .byte1
  else if num < base * den then .bytes (Int.tdiv num den)
  else
    match prefLoop (fun i => num < (base ^ (i + 2) : Nat) * den) (List.range 8) with
    | some i => .pref i
    | none => .pref 7       -- after the loop `unit`/`prefix` keep their last values

/-! ## int / float — filters.py:990-1000, 1008-1011, as a decision over the conversion outcomes -/

open JinjaV.Gen.ConvertTable in
/-- `except (A, B, ...)` catches an exception iff one of the named classes is on its MRO -/
def catches (handler : List String) (mro : List String) : Bool := handler.any fun c => mro.contains c

inductive ConvOut where
  | value                      -- a converted value is returned
  | default                    -- the `default` argument is returned
  | raises (cls : String)      -- an exception leaves the filter
  deriving Repr, DecidableEq

open JinjaV.Gen.ConvertTable in
/-- `do_int`: try `int(value[, base])`; on a caught class try `int(float(value))`; on a caught class the default -/
def doInt (outer inner : List String) (r : Row) : ConvOut :=
  match r.int1 with
  | .ok => .value
  | .raises mro =>
    if catches outer mro then
      match r.intflt with
      | .ok => .value
      | .raises mro2 => if catches inner mro2 then .default else .raises (mro2.headD "?")
    else .raises (mro.headD "?")

open JinjaV.Gen.ConvertTable in
/-- `do_float`: try `float(value)`; on a caught class the default -/
def doFloat (handler : List String) (r : Row) : ConvOut :=
  match r.flt with
  | .ok => .value
  | .raises mro => if catches handler mro then .default else .raises (mro.headD "?")

open JinjaV.Gen.ConvertTable in
/-- what `|int` does on a row of the measured table, with the handlers READ from filters.py -/
def intOut (r : Row) : ConvOut := doInt intOuterCaught intInnerCaught r

open JinjaV.Gen.ConvertTable in
/-- what `|float` does on a row of the measured table, with the handler READ from filters.py -/
def floatOut (r : Row) : ConvOut := doFloat floatCaught r

def ConvOut.isRaise : ConvOut → Bool
  | .raises _ => true
  | _ => false

open JinjaV.Gen.ConvertTable in
/-- counterexample finder for `convert_total`: the (filter, sample, base, class) rows on which an exception escapes -/
def escapingRows : List (String × String × Int × String) :=
  rows.flatMap fun r =>
    (match intOut r with | .raises c => [("int", r.name, r.base, c)] | _ => []) ++
    (match floatOut r with | .raises c => [("float", r.name, r.base, c)] | _ => [])

/-! ## no memoised worker: a filter is a function of its arguments

  A decorator on a function reached from a C23 filter is harmless if it only marks how the function is called
  (`pass_*`, `async_variant`, overloads, `internalcode`).  Anything else — in particular `functools.lru_cache` / `cache`,
  whose keys conflate `1 == 1.0 == True` and reject unhashable arguments — makes the result depend on earlier calls. -/

def allowedDecorators : List String :=
  ["pass_context", "pass_eval_context", "pass_environment", "async_variant", "typing.overload", "t.overload", "internalcode"]

open JinjaV.Gen.FilterWorkers in
/-- counterexample finder: workers carrying a decorator that is not a known call marker -/
def suspectWorkers : List Worker := workers.filter fun w => w.decorators.any fun d => !allowedDecorators.contains d

end JinjaV.FiltStr
