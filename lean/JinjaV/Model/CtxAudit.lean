/-
  C29 — which classes of write targets are the engine's own (decidable audit of Gen/CtxWrites.lean; the counterexample
  finders are served by Wire).
-/
import JinjaV.Gen.CtxWrites

namespace JinjaV.CtxAudit
open JinjaV.Gen.CtxWrites

/-- targets generated code may store into: the context's own `vars` / `exported_vars` / `blocks` / `eval_ctx`, the vars of a
    derived context it has just made, frame-local dicts and buffers, local names of the generated function, assignment
    targets (names, tuples of names) and attributes of a `namespace()` object (guarded by the isinstance check; the
    documented way for a template author to carry a value out of a loop) -/
def allowedEmitted : List AClass :=
  [.ctxVars, .ctxExported, .ctxBlocks, .ctxEvalCtx, .derivedCtxVars, .frameDict, .buffer, .local, .assignTarget, .namespaceAttr]

/-- store classes of runtime.py / environment.py that do not touch an input of the render:
    own fields, the module cache, the derived context, `parent[key] = value` in new_context (shown by
    `C29.new_context_copies` to hit a fresh dict whenever it happens), containers built by the function itself, the template
    cache (C25), configuration API outside the render path, and `template.globals.update(globals)` in `_load_template`
    (documented: `get_template(name, globals=…)` extends a cached template's globals; generated code passes no globals, and
    `template.globals` is a ChainMap in front of the environment globals). -/
def allowedStores : List BClass :=
  [.ownInit, .ownState, .moduleCache, .derivedCtx, .newCtxParent, .localContainer, .templateCache, .templateGlobals, .setupApi]

def emittedOffenders : List Emitted := emitted.filter fun e => !allowedEmitted.contains e.cls
def storeOffenders : List Store := stores.filter fun s => !allowedStores.contains s.cls

end JinjaV.CtxAudit
