/-
  M-Lex literals: what `Lexer.wrap` (lexer.py:621-666) does with the text of an `integer`, `float` and
  `string` token, and what `Parser.parse_primary` (parser.py:658-665) does with adjacent string tokens.

    integer : `int(value_str.replace("_", ""), 0)`                                           (lexer.py:660)
    float   : `literal_eval(value_str.replace("_", ""))`                                     (lexer.py:663)
    string  : `_normalize_newlines(value_str[1:-1]).encode("ascii", "backslashreplace")
                 .decode("unicode-escape")`, any exception -> TemplateSyntaxError            (lexer.py:650-658)

  The token texts come from the hand scanners of `Model/Lex.lean` (`matchInt`, `matchFloat`, `matchString`).
  Source text is `List Char`; string *values* are lists of code points (`Nat`), because a Python `str` may hold
  lone surrogates (`'\ud800'`), which a Lean `Char` cannot.  A float value is the exact decimal
  `mantissa * 10 ^ exponent`; the conversion of that decimal to an IEEE double is Python's on both sides and
  is not modelled.  `int`, `literal_eval` and the two codecs are CPython's: they are modelled here from their
  documentation and tied to the running interpreter by the correspondence run of C14 only.
-/
import JinjaV.Model.Lex
namespace JinjaV.Literal
open JinjaV.Lex

-- code points are `Nat` (a Python `str` may hold lone surrogates, a Lean `Char` cannot)

-- the regexes the hand scanners transcribe ---------------------------------------------------------------------
-- (re.VERBOSE layout removed; pinned to the source on every run by Props/C14Regex.lean over Gen/LiteralRegex.lean)

/-- `integer_re`, re.IGNORECASE | re.ASCII (so `\\d` is `[0-9]`, as `Char.isDigit`; /repo e06a1f7) — transcribed by `Lex.matchInt` (`matchPrefInt` x3, `matchDecInt`) -/
def scannedIntegerRe : String := "(0b(_?[0-1])+|0o(_?[0-7])+|0x(_?[\\da-f])+|[1-9](_?\\d)*|0(_?0)*)"
/-- `float_re`, re.IGNORECASE | re.ASCII — transcribed by `Lex.matchFloat` (`digitRun`, `matchFrac`, `matchExpo`, `prev`) -/
def scannedFloatRe : String := "(?<!\\.)(\\d+_)*\\d+((\\.(\\d+_)*\\d+)?e[+\\-]?(\\d+_)*\\d+|\\.(\\d+_)*\\d+)"
/-- `string_re`, re.S — transcribed by `Lex.matchString` / `strBody` -/
def scannedStringRe : String := "('([^'\\\\]*(?:\\\\.[^'\\\\]*)*)'|\"([^\"\\\\]*(?:\\\\.[^\"\\\\]*)*)\")"
def scannedIntegerFlags : List String := ["ASCII", "IGNORECASE"]
def scannedFloatFlags : List String := ["ASCII", "IGNORECASE"]
def scannedStringFlags : List String := ["DOTALL"]

-- integers ----------------------------------------------------------------------------------------------

/-- `value_str.replace("_", "")` -/
def stripUnderscores (s : Str) : Str := s.filter (· != '_')

/-- the digit value `int()` gives an ASCII alphanumeric (bases up to 36) -/
def digitVal? (c : Char) : Option Nat :=
  if '0' ≤ c && c ≤ '9' then some (c.toNat - 48)
  else if 'a' ≤ c && c ≤ 'z' then some (c.toNat - 87)
  else if 'A' ≤ c && c ≤ 'Z' then some (c.toNat - 55)
  else none

/-- the digits of `s` in base `b`, most significant first, on top of `acc`; `none` (ValueError) on a character
    that is not a digit of the base -/
def digitsAcc (b : Nat) : Nat → Str → Option Nat
  | acc, [] => some acc
  | acc, c :: r =>
    match digitVal? c with
    | some d => if d < b then digitsAcc b (acc * b + d) r else none
    | none => none

/-- `int(s, 0)` for a text without sign, blanks and underscores (nothing else reaches it from `integer_re`):
    base from the `0b/0o/0x` prefix; a decimal with a leading zero is only accepted if it is all zeros;
    `none` = ValueError -/
def intBase0 (s : Str) : Option Nat :=
  match s with
  | [] => none
  | '0' :: p :: ds =>
    if lower p == 'b' then (if ds.isEmpty then none else digitsAcc 2 0 ds)
    else if lower p == 'o' then (if ds.isEmpty then none else digitsAcc 8 0 ds)
    else if lower p == 'x' then (if ds.isEmpty then none else digitsAcc 16 0 ds)
    else if (p :: ds).all (· == '0') then some 0 else none
  | c :: r => if c == '0' then (if r.isEmpty then some 0 else none) else digitsAcc 10 0 (c :: r)

/-- value of an `integer` token (lexer.py:660) -/
def intValue (tok : Str) : Option Nat := intBase0 (stripUnderscores tok)

-- floats ------------------------------------------------------------------------------------------------

/-- the exact decimal `mant * 10 ^ exp` -/
structure Dec where
  mant : Nat
  exp : Int
  deriving Repr, DecidableEq

def mkDec (ip fp : Str) (x : Int) : Option Dec :=
  match digitsAcc 10 0 (ip ++ fp) with
  | some m => some ⟨m, x - fp.length⟩
  | none => none

/-- `literal_eval(s)` for an underscore-free text, where it yields a *float*: `D+ . D* [e[+-]D+]`,
    `. D+ [e[+-]D+]` or `D+ e[+-]D+`.  `none`: the text is no float literal (`literal_eval` raises or returns
    something that is not a float, e.g. an `int` for plain digits). -/
def floatLit (s : Str) : Option Dec :=
  let ip := s.takeWhile isDigit
  let r1 := s.dropWhile isDigit
  let hasDot := match r1 with | '.' :: _ => true | _ => false
  let fp := match r1 with | '.' :: r => r.takeWhile isDigit | _ => []
  let r2 := match r1 with | '.' :: r => r.dropWhile isDigit | _ => r1
  if ip.isEmpty && fp.isEmpty then none else
  match r2 with
  | [] => if hasDot then mkDec ip fp 0 else none
  | e :: r3 =>
    if isE e then
      let ds := (takeExpSign r3).2
      if ds.isEmpty then none else
      match digitsAcc 10 0 ds with
      | some x => mkDec ip fp (if (takeExpSign r3).1 == ['-'] then - (x : Int) else (x : Int))
      | none => none
    else none

/-- value of a `float` token (lexer.py:663) -/
def floatValue (tok : Str) : Option Dec := floatLit (stripUnderscores tok)

-- strings -----------------------------------------------------------------------------------------------

/-- `_normalize_newlines` with the default `newline_sequence = "\n"` (lexer.py:602) -/
def normNl : List Nat → List Nat
  | [] => []
  | 13 :: 10 :: r => 10 :: normNl r
  | 13 :: r => 10 :: normNl r
  | c :: r => c :: normNl r

def hexDigitCP (d : Nat) : Nat := if d < 10 then 48 + d else 87 + d

/-- `w` lower-case hex digits of `n`, most significant first (`n < 16 ^ w`) -/
def hexN : Nat → Nat → List Nat
  | 0, _ => []
  | w + 1, n => hexDigitCP (n / 16 ^ w) :: hexN w (n % 16 ^ w)

/-- `str.encode("ascii", "backslashreplace")` for one code point: `\xhh`, `\uhhhh`, `\Uhhhhhhhh` -/
def enc1 (c : Nat) : List Nat :=
  if c < 128 then [c]
  else if c < 256 then 92 :: 120 :: hexN 2 c
  else if c < 65536 then 92 :: 117 :: hexN 4 c
  else 92 :: 85 :: hexN 8 c

def encodeAscii (s : List Nat) : List Nat := s.flatMap enc1

inductive DErr where
  | syntax      -- the codec raises UnicodeDecodeError; `wrap` turns it into TemplateSyntaxError
  | oom         -- `\N{...}` needs the Unicode name table: outside the model
  deriving Repr, DecidableEq

/-- state of the `unicode-escape` decoder between two input bytes -/
inductive DState where
  | plain
  | esc                         -- just after a backslash
  | oct (left acc : Nat)        -- inside `\ooo`: up to `left` further octal digits
  | hex (left acc : Nat)        -- inside `\x`, `\u`, `\U`: exactly `left` further hex digits
  deriving Repr, DecidableEq

def hexValCP (c : Nat) : Option Nat :=
  if 48 ≤ c && c ≤ 57 then some (c - 48)
  else if 97 ≤ c && c ≤ 102 then some (c - 87)
  else if 65 ≤ c && c ≤ 70 then some (c - 55)
  else none

def isOctCP (c : Nat) : Bool := 48 ≤ c && c ≤ 55

/-- a byte in the plain state -/
def stepPlain (c : Nat) : List Nat × DState := if c == 92 then ([], .esc) else ([c], .plain)

/-- the byte after a backslash (CPython `_PyUnicode_DecodeUnicodeEscapeInternal`): `\<newline>` is dropped,
    the single-character escapes, octal, `\x \u \U`, `\N` (declined), anything else keeps both characters -/
def stepEsc (c : Nat) : Except DErr (List Nat × DState) :=
  if c == 10 then .ok ([], .plain)
  else if c == 92 then .ok ([92], .plain)
  else if c == 39 then .ok ([39], .plain)
  else if c == 34 then .ok ([34], .plain)
  else if c == 97 then .ok ([7], .plain)        -- \a
  else if c == 98 then .ok ([8], .plain)        -- \b
  else if c == 102 then .ok ([12], .plain)      -- \f
  else if c == 110 then .ok ([10], .plain)      -- \n
  else if c == 114 then .ok ([13], .plain)      -- \r
  else if c == 116 then .ok ([9], .plain)       -- \t
  else if c == 118 then .ok ([11], .plain)      -- \v
  else if isOctCP c then .ok ([], .oct 2 (c - 48))
  else if c == 120 then .ok ([], .hex 2 0)      -- \x
  else if c == 117 then .ok ([], .hex 4 0)      -- \u
  else if c == 85 then .ok ([], .hex 8 0)       -- \U
  else if c == 78 then .error .oom              -- \N{...}
  else .ok ([92, c], .plain)

def step : DState → Nat → Except DErr (List Nat × DState)
  | .plain, c => .ok (stepPlain c)
  | .esc, c => stepEsc c
  | .oct left acc, c =>
    if left > 0 && isOctCP c then
      (if left == 1 then .ok ([acc * 8 + (c - 48)], .plain) else .ok ([], .oct (left - 1) (acc * 8 + (c - 48))))
    else .ok (acc :: (stepPlain c).1, (stepPlain c).2)
  | .hex left acc, c =>
    match hexValCP c with
    | none => .error .syntax                                    -- "truncated \xXX escape"
    | some d =>
      if left ≤ 1 then (if acc * 16 + d > 0x10ffff then .error .syntax    -- "illegal Unicode character"
                        else .ok ([acc * 16 + d], .plain))
      else .ok ([], .hex (left - 1) (acc * 16 + d))

def finish : DState → Except DErr (List Nat)
  | .plain => .ok []
  | .esc => .error .syntax                    -- "\ at end of string"
  | .oct _ acc => .ok [acc]
  | .hex _ _ => .error .syntax

/-- `bytes.decode("unicode-escape")` on ASCII input, started in state `st` -/
def decodeFrom : DState → List Nat → Except DErr (List Nat)
  | st, [] => finish st
  | st, c :: r =>
    match step st c with
    | .error e => .error e
    | .ok (out, st') =>
      match decodeFrom st' r with
      | .error e => .error e
      | .ok v => .ok (out ++ v)

def decodeEscapes (s : List Nat) : Except DErr (List Nat) := decodeFrom .plain s

/-- no backslash in escape position is directly followed by a non-ASCII code point (the shape of finding F13:
    `backslashreplace` would turn that code point into an escape of its own) -/
def f13Free : List Nat → Bool
  | [] => true
  | 92 :: c :: r => decide (c < 128) && f13Free r
  | _ :: r => f13Free r

/-- what `wrap` does with the text between the quotes (lexer.py:652-656) -/
def unescapeBody (body : List Nat) : Except DErr (List Nat) :=
  decodeEscapes (encodeAscii (normNl body))

/-- value of a `string` token: `value_str[1:-1]` unescaped -/
def stringValue (tok : Str) : Except DErr (List Nat) :=
  unescapeBody (((tok.drop 1).dropLast).map Char.toNat)

-- repr-style and alternative spellings of a string value -----------------------------------------------

/-- `\ooo` -/
def octN (n : Nat) : List Nat := [48 + n / 64 % 8, 48 + n / 8 % 8, 48 + n % 8]

/-- how one code point is written inside the quotes -/
inductive Style where
  | raw        -- the character itself
  | simple     -- `\\ \' \" \a \b \f \n \r \t \v`
  | hex2       -- `\xhh`
  | oct3       -- `\ooo`
  | u4         -- `\uhhhh`
  | u8         -- `\Uhhhhhhhh`
  deriving Repr, DecidableEq

def simpleLetter? (c : Nat) : Option Nat :=
  if c == 92 then some 92 else if c == 39 then some 39 else if c == 34 then some 34
  else if c == 7 then some 97 else if c == 8 then some 98 else if c == 12 then some 102
  else if c == 10 then some 110 else if c == 13 then some 114 else if c == 9 then some 116
  else if c == 11 then some 118 else none

/-- the style can write code point `c` inside quotes `q` -/
def Style.ok (q : Nat) (c : Nat) : Style → Bool
  | .raw => c != 92 && c != q && c != 13 && c < 0x110000
  | .simple => (simpleLetter? c).isSome
  | .hex2 => c < 256
  | .oct3 => c < 512
  | .u4 => c < 65536
  | .u8 => c < 0x110000

def spell1 (c : Nat) : Style → List Nat
  | .raw => [c]
  | .simple => match simpleLetter? c with | some l => [92, l] | none => [c]
  | .hex2 => 92 :: 120 :: hexN 2 c
  | .oct3 => 92 :: octN c
  | .u4 => 92 :: 117 :: hexN 4 c
  | .u8 => 92 :: 85 :: hexN 8 c

/-- the text between the quotes for value `v` written with the styles `sts` (one per code point) -/
def spellBody : List Style → List Nat → List Nat
  | st :: sts, c :: v => spell1 c st ++ spellBody sts v
  | _, _ => []

/-- one applicable style per code point -/
def stylesOk (q : Nat) : List Style → List Nat → Bool
  | [], [] => true
  | st :: sts, c :: v => st.ok q c && stylesOk q sts v
  | _, _ => false

/-- the style `repr()` uses for a code point inside quotes `q` (CPython `unicode_repr`); `printable` is
    `str.isprintable` for non-ASCII code points (a fact of the Unicode database: a parameter) -/
def reprStyle (printable : Nat → Bool) (q : Nat) (c : Nat) : Style :=
  if c == 92 || c == q then .simple
  else if c == 9 || c == 10 || c == 13 then .simple
  else if c < 32 || c == 127 then .hex2
  else if c < 127 then .raw
  else if printable c then .raw
  else if c < 256 then .hex2
  else if c < 65536 then .u4
  else .u8

/-- the text `repr(v)` puts between quotes `q` -/
def reprBody (printable : Nat → Bool) (q : Nat) (v : List Nat) : List Nat :=
  spellBody (v.map (reprStyle printable q)) v

/-- a token text from a quote character and the code points between the quotes -/
def quoted (q : Char) (body : List Nat) : Str := q :: body.map Char.ofNat ++ [q]

-- adjacent string literals (parser.py:658-665) -----------------------------------------------------------

/-- the converted tokens the parser sees, as far as literals are concerned -/
inductive PTok where
  | string (v : List Nat)
  | other (kind : TK) (text : Str)
  deriving Repr, DecidableEq

/-- `buf = [token.value]; while stream.current.type == "string": buf.append(...)`: the values of the maximal
    run of string tokens at the head, and the remaining tokens -/
def stringRun : List PTok → List (List Nat) × List PTok
  | .string v :: r => (v :: (stringRun r).1, (stringRun r).2)
  | ts => ([], ts)

/-- the `string` branch of `parse_primary`: `Const("".join(buf))` -/
def primaryString (ts : List PTok) : Option (List Nat × List PTok) :=
  match ts with
  | .string _ :: _ => some ((stringRun ts).1.flatten, (stringRun ts).2)
  | _ => none

-- one expression made of literals, through the tag lexer ----------------------------------------------

def defaultCfg : Cfg :=
  { blockStart := ['{', '%'], blockEnd := ['%', '}'], varStart := ['{', '{'], varEnd := ['}', '}'],
    commentStart := ['{', '#'], commentEnd := ['#', '}'], lineStmt := none, lineComment := none,
    trimBlocks := false, lstripBlocks := false, keepTrailingNl := false }

/-- the non-whitespace tokens the lexer yields for `{{ <spelling> }}` between the delimiters;
    `none`: lexer error, or the spelling closes the tag itself -/
def exprTokens (sp : Str) : Option (List Tok) :=
  match tokeniter defaultCfg (['{', '{', ' '] ++ sp ++ [' ', '}', '}']) with
  | .ok toks =>
    let inner := toks.filter (fun t => t.kind != .whitespace)
    match inner with
    | b :: rest =>
      if b.kind == .variableBegin && (rest.getLast?.map (·.kind)) == some .variableEnd &&
         (rest.dropLast).all (fun t => t.kind != .variableEnd && t.kind != .data && t.kind != .variableBegin)
      then some rest.dropLast else none
    | [] => none
  | _ => none

inductive NumVal where
  | int (n : Nat)
  | float (d : Dec)
  deriving Repr, DecidableEq

/-- the spelling is read as exactly one number token: its value (`none` inside: conversion error) -/
def oneNumber (sp : Str) : Option (Option NumVal) :=
  match exprTokens sp with
  | some [t] =>
    if t.kind == .integer then some ((intValue t.text).map .int)
    else if t.kind == .float then some ((floatValue t.text).map .float)
    else none
  | _ => none

def convertStrings : List Tok → Except DErr (List PTok)
  | [] => .ok []
  | t :: r =>
    match convertStrings r with
    | .error e => .error e
    | .ok rs =>
      if t.kind == .string then
        match stringValue t.text with
        | .ok v => .ok (.string v :: rs)
        | .error e => .error e
      else .ok (.other t.kind t.text :: rs)

/-- the spelling consists of one or more adjacent string literals and nothing else: the value of the `Const` -/
def stringsValue (sp : Str) : Option (Except DErr (List Nat)) :=
  match exprTokens sp with
  | some toks =>
    if toks.isEmpty || !toks.all (fun t => t.kind == .string) then none else
    match convertStrings toks with
    | .error e => some (.error e)
    | .ok pts =>
      match primaryString pts with
      | some (v, []) => some (.ok v)
      | _ => none
  | none => none

end JinjaV.Literal
