/-
  Lexical `{% autoescape %}` regions and `{% block %}` tags (C15 known finding).  Core Lean only.

  `render` transcribes what the engine does: everything follows the innermost region, except that a block body is compiled
  as a separate function from the *template-level* escaping mode (compiler.py `visit_Template`: `block_frame = Frame(eval_ctx)`,
  emitted after `visit_ScopedEvalContextModifier` has restored the compile-time mode).  `renderSpec` is what the property
  asks for: the innermost region decides, also inside a block.
-/
import JinjaV.Model.Escape
namespace JinjaV.AutoescRegion
open JinjaV.Escape

inductive Body where
  | data (s : List Char)                 -- `{{ d }}` with a plain context string
  | text (t : List Char)                 -- template data
  | seq (a b : Body)
  | region (mode : Bool) (body : Body)   -- `{% autoescape true|false %}…{% endautoescape %}`
  | block (body : Body)                  -- `{% block n %}…{% endblock %}`, rendered in place
  deriving Repr

/-- the engine: `tmode` is the template-level mode (environment / select_autoescape), `cur` the innermost region's -/
def render (tmode : Bool) : Bool → Body → List Char
  | cur, .data s => if cur then escape s else s
  | _, .text t => t
  | cur, .seq a b => render tmode cur a ++ render tmode cur b
  | _, .region m b => render tmode m b
  | _, .block b => render tmode tmode b

/-- the property: the innermost region decides everywhere -/
def renderSpec : Bool → Body → List Char
  | cur, .data s => if cur then escape s else s
  | _, .text t => t
  | cur, .seq a b => renderSpec cur a ++ renderSpec cur b
  | _, .region m b => renderSpec m b
  | cur, .block b => renderSpec cur b

/-- every block tag sits where the innermost region's mode equals the template-level mode -/
def blocksAgree (tmode : Bool) : Bool → Body → Bool
  | _, .data _ => true
  | _, .text _ => true
  | cur, .seq a b => blocksAgree tmode cur a && blocksAgree tmode cur b
  | _, .region m b => blocksAgree tmode m b
  | cur, .block b => cur == tmode && blocksAgree tmode cur b

/-- no `{% autoescape false %}` region inside -/
def noOffRegion : Body → Bool
  | .data _ => true
  | .text _ => true
  | .seq a b => noOffRegion a && noOffRegion b
  | .region m b => m && noOffRegion b
  | .block b => noOffRegion b

/-- the template text is free of `< > " '` -/
def textsMFree : Body → Prop
  | .data _ => True
  | .text t => MFree t
  | .seq a b => textsMFree a ∧ textsMFree b
  | .region _ b => textsMFree b
  | .block b => textsMFree b

/-- full-strength statement of the property for regions (it FAILS: Findings/F20.lean) -/
def RegionStatement : Prop := ∀ (tmode cur : Bool) (b : Body), render tmode cur b = renderSpec cur b

end JinjaV.AutoescRegion
