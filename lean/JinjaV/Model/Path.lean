/-
  M-Path: template-name handling of the loaders (loaders.py).
  Strings are `List Char`.
-/
namespace JinjaV.Path

abbrev Str := List Char

/-- `s.split("/")` -/
def splitSlash : Str → List Str
  | [] => [[]]
  | c :: cs =>
    if c = '/' then [] :: splitSlash cs
    else match splitSlash cs with
      | p :: ps => (c :: p) :: ps
      | [] => [[c]]

def dot : Str := ['.']
def pardir : Str := ['.', '.']

/-- `split_template_path` (loaders.py:24-38); `none` = TemplateNotFound.
    `sep`/`altsep` are `os.sep` / `os.path.altsep`. -/
def hasAlt (altsep : Option Char) (piece : Str) : Bool :=
  match altsep with
  | some a => piece.contains a
  | none => false

/-- the piece is refused: contains `os.sep` or `os.path.altsep`, or is `..` -/
def bad (sep : Char) (altsep : Option Char) (piece : Str) : Bool :=
  piece.contains sep || hasAlt altsep piece || piece == pardir

def checkPieces (sep : Char) (altsep : Option Char) : List Str → Option (List Str)
  | [] => some []
  | piece :: rest =>
    if bad sep altsep piece then
      none
    else
      match checkPieces sep altsep rest with
      | none => none
      | some ps => if !piece.isEmpty && piece != dot then some (piece :: ps) else some ps

def splitTemplatePath (sep : Char) (altsep : Option Char) (name : Str) : Option (List Str) :=
  checkPieces sep altsep (splitSlash name)

/-- `posixpath.join(a, *p)` -/
def posixJoin (a : Str) : List Str → Str
  | [] => a
  | b :: rest =>
    if b.head? = some '/' then posixJoin b rest
    else if a.isEmpty || a.getLast? = some '/' then posixJoin (a ++ b) rest
    else posixJoin (a ++ '/' :: b) rest

/-- path components: split on '/', empty components dropped -/
def components (p : Str) : List Str := (splitSlash p).filter (fun c => !c.isEmpty)

-- loader composition ---------------------------------------------------------------------

/-- an abstract loader: name ↦ source id, `none` = TemplateNotFound -/
abbrev Loader := Str → Option Nat

/-- `ChoiceLoader.get_source` -/
def choice : List Loader → Loader
  | [], _ => none
  | l :: ls, n => match l n with
    | some s => some s
    | none => choice ls n

/-- `template.split(delimiter, 1)` for a non-empty delimiter; `none` = delimiter absent (ValueError) -/
def splitFirst (delim : Str) : Str → Option (Str × Str)
  | [] => if delim.isEmpty then some ([], []) else none
  | c :: cs =>
    if delim.isPrefixOf (c :: cs) then some ([], (c :: cs).drop delim.length)
    else match splitFirst delim cs with
      | some (p, r) => some (c :: p, r)
      | none => none

def lookup (m : List (Str × Loader)) (k : Str) : Option Loader :=
  match m with
  | [] => none
  | (k', l) :: r => if k' = k then some l else lookup r k

/-- `PrefixLoader.get_source` -/
def prefixLoad (mapping : List (Str × Loader)) (delim : Str) (name : Str) : Option Nat :=
  match splitFirst delim name with
  | none => none
  | some (p, rest) =>
    match lookup mapping p with
    | none => none
    | some l => l rest

end JinjaV.Path
