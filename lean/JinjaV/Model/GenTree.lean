/-
  GenTree — how generated async template code consumes the async generators it creates,
  and what happens to them when the render ends early.

  A generator body `G` is a sequence (continuation style) of

    yld            `yield …`                       — the consumer may stop here and `aclose()`
    awt            `await …` that really suspends  — `CancelledError` may be raised here
    opn br c b     `async for … in c(): b`         — create generator `c`, run `b` per item
                     br = bracketed: `gen = c(); try: async for … in gen: b  finally: await gen.aclose()`
                                     (compiler.py visit_Block/visit_Include/visit_Template-extends)
                                     or `async with aclosing(gen): async for …` (environment.py generate_async)
                     br = bare:      `async for … in c(…): b`   (compiler.py visit_For, loop filter `t_N`)
    drain c        `[x async for x in c()]`        — (environment.py render_async/make_module_async,
                                                      runtime.py BlockReference._async_call)

  Semantics: big-step, the suspended frames are the Lean call stack; a generator's consumer
  is a function that is called at each `yield` and answers with what happens to the suspended
  generator: it is resumed, `GeneratorExit` is thrown into it (`aclose()`), or it is never
  resumed (abandoned: only the GC finaliser could still close it — the model has no GC).
  The adversary is a list of booleans consumed one per suspension point of the task (each
  `awt`, each chunk handed to the top-level consumer): `true` at an `awt` raises
  `CancelledError` there, `true` at a top-level chunk makes the consumer stop and `aclose()`
  the root.  Unwinding (`finally: await gen.aclose()`) contains no further suspension point:
  generated code has no `await` in a `finally` other than the `aclose()` itself.

  Core Lean only.
-/
namespace JinjaV.GenTree

inductive Br where
  | bracketed | bare
  deriving DecidableEq, Repr, Inhabited

inductive G where
  | nil
  | yld (k : G)
  | awt (k : G)
  | opn (br : Br) (child body k : G)
  | drain (child k : G)
  deriving Repr, Inhabited

/-- How the execution of (the rest of) a frame ends.
    `exited p`: `GeneratorExit` was thrown at one of this frame's yields and it unwound; the
    frame that called `aclose()` goes on with its own pending outcome `p`.
    `abandoned p`: the frame stays suspended at a yield for ever; its consumer goes on with `p`. -/
inductive Out where
  | done
  | raised
  | exited (pend : Out)
  | abandoned (pend : Out)
  deriving Repr, Inhabited, DecidableEq

/-- what a consumer answers at a `yield` -/
inductive Sig where
  | resume
  | exit (pend : Out)
  | abandon (pend : Out)
  deriving Repr, Inhabited

structure St where
  /-- generators opened so far; their ids are `0 … nOpened-1` in order of first iteration -/
  nOpened : Nat
  /-- ids of generators that finished: ran to the end, ended by an exception, or were `aclose()`d -/
  closed : List Nat
  /-- the adversary's remaining choices -/
  adv : List Bool
  /-- suspension points passed so far -/
  points : Nat
  deriving Repr, Inhabited

abbrev Consumer := St → St × Sig

def St.openGen (s : St) : St × Nat := ({ s with nOpened := s.nOpened + 1 }, s.nOpened)

def St.close (s : St) (i : Nat) : St := { s with closed := i :: s.closed }

/-- next adversary choice (an exhausted adversary lets the run continue) -/
def St.choice (s : St) : St × Bool :=
  match s.adv with
  | [] => ({ s with points := s.points + 1 }, false)
  | b :: r => ({ s with adv := r, points := s.points + 1 }, b)

/-- The consumer `async for … in child: body` of frame F: `o` is how `body` ended. -/
def sigOf (br : Br) : Out → Sig
  | .done => .resume
  | .abandoned p => .abandon (.abandoned p)
  | o => match br with
    | .bracketed => .exit o      -- F's `finally: await gen.aclose()` runs while `o` propagates
    | .bare => .abandon o        -- nothing closes the suspended child

/-- what frame F does once the child generator `id` has ended with `o` -/
def afterChild (id : Nat) (s : St) : Out → St × Option Out
  | .done => (s.close id, none)            -- exhausted: go on with the rest of F
  | .raised => (s.close id, some .raised)  -- ended by the exception, which propagates in F
  | .exited p => (s.close id, some p)      -- closed by F's `aclose()`
  | .abandoned p => (s, some p)            -- left suspended

def exec : G → Consumer → St → St × Out
  | .nil, _, s => (s, .done)
  | .yld k, c, s =>
    match c s with
    | (s', .resume) => exec k c s'
    | (s', .exit p) => (s', .exited p)
    | (s', .abandon p) => (s', .abandoned p)
  | .awt k, c, s =>
    match s.choice with
    | (s', true) => (s', .raised)
    | (s', false) => exec k c s'
  | .opn br child body k, c, s =>
    let r := exec child (fun t => ((exec body c t).1, sigOf br (exec body c t).2)) s.openGen.1
    match afterChild s.openGen.2 r.1 r.2 with
    | (s2, none) => exec k c s2
    | (s2, some o) => (s2, o)
  | .drain child k, c, s =>
    let r := exec child (fun t => (t, .resume)) s.openGen.1
    match afterChild s.openGen.2 r.1 r.2 with
    | (s2, none) => exec k c s2
    | (s2, some o) => (s2, o)

/-- the top-level consumer: takes a chunk; the adversary may make it stop and `aclose()` the root -/
def topConsumer : Consumer := fun s =>
  match s.choice with
  | (s', true) => (s', .exit .done)
  | (s', false) => (s', .resume)

/-- Run the root generator (id 0) against an adversary.  However it ends — exhausted, by the
    exception, by the consumer's `aclose()` — the root itself is finished afterwards. -/
def run (g : G) (adv : List Bool) : St × Out :=
  let r := exec g topConsumer { nOpened := 1, closed := [], adv := adv, points := 0 }
  match r.2 with
  | .abandoned _ => r
  | _ => (r.1.close 0, r.2)

/-- generators that were opened and never closed -/
def leaked (s : St) : List Nat := (List.range s.nOpened).filter (fun i => !s.closed.contains i)

/-- every generator is consumed in a closing form -/
def allBracketed : G → Bool
  | .nil => true
  | .yld k => allBracketed k
  | .awt k => allBracketed k
  | .opn br child body k => br == .bracketed && allBracketed child && allBracketed body && allBracketed k
  | .drain child k => allBracketed child && allBracketed k

/-- number of `bare` sites -/
def bareCount : G → Nat
  | .nil => 0
  | .yld k => bareCount k
  | .awt k => bareCount k
  | .opn br child body k => (if br == .bare then 1 else 0) + bareCount child + bareCount body + bareCount k
  | .drain child k => bareCount child + bareCount k

end JinjaV.GenTree
