/-
  M-Scope — what `meta.find_undeclared_variables` / `meta.find_referenced_templates` compute, and what a
  render of the compiled template fetches from the render context / asks the loader for.  Core Lean only.

  Transcribed from
    * idtracking.py:33-169   `Symbols` (`store`, `declare_parameter`, `load`, `branch_update`)
    * idtracking.py:172-316  `RootVisitor` (what is analysed *inside* a new frame) and `FrameSymbolVisitor`
                             (what a statement contributes to the frame it *occurs in*)
    * compiler.py:142-152, 269-288  `find_undeclared` / `UndeclaredNameVisitor` (special names)
    * compiler.py:580-594    `enter_frame` (a `resolve(name)` is emitted exactly for every `loads` entry with
                             action `resolve` of the frame that is entered)
    * compiler.py:610-691 (macro_body), 825-943 (visit_Template: root frame, one isolated frame per block),
      1178-1315 (visit_For: test/loop/else frames), 1317-1377 (If/Macro/CallBlock/FilterBlock/With),
      1610-1630 (AssignBlock: body and filter in the block's frame), 1951-1956 (Scope)
    * meta.py:12-31 (TrackingCodeGenerator.enter_frame), meta.py:62-112 (find_referenced_templates)

  An expression matters for name binding only through the `Name(ctx='load')` nodes inside it (Jinja expressions
  bind nothing), so `Expr` is the list of loaded names in visiting order; the Wire module flattens the real
  `Environment.parse` expression trees.  In a frame the identifier of a name is `l_<level>_<name>` and a frame only
  ever defines identifiers of its own level (`_define_ref`), so `refs`/`loads` of one `Symbols` object are one
  dictionary `name ↦ action`; the parent chain is only ever asked `find_ref(name) is not None`, so it is the
  list `outer` of names that have a reference in some ancestor frame.
-/
namespace JinjaV.Scope

abbrev Name := String
/-- names loaded by an expression, in visiting order -/
abbrev Expr := List Name

/-- load instruction of an identifier (idtracking.py:9-12) -/
inductive Act where
  | param | resolve | alias | undef
  deriving Repr, BEq, DecidableEq, Inhabited

/-- assignment target leaf: `Name(ctx='store')` or `NSRef` (`{% set ns.x = … %}`) -/
inductive Tgt where
  | store (n : Name)
  | nsref (n : Name)
  deriving Repr, BEq, Inhabited

/-- one item of a template reference written as tuple/list, or one element of a constant tuple value -/
inductive TItem where
  | str (s : String)      -- constant string
  | other                 -- constant that is not a string
  | dyn                   -- not a constant
  deriving Repr, DecidableEq, Inhabited

/-- shape of the `template` expression of Extends/Include/Import/FromImport (meta.py:82-112) -/
inductive TExpr where
  | constStr (s : String)            -- `Const` with a `str` value
  | constSeq (items : List TItem)    -- `Const` whose value is a tuple/list (items are `str`/`other`)
  | constOther                       -- `Const` with any other value
  | seq (items : List TItem)         -- `Tuple` / `List` node
  | dyn                              -- any other expression
  deriving Repr, Inhabited

inductive RefKind where
  | extends_ | include_ | import_ | fromImport
  deriving Repr, DecidableEq, Inhabited

inductive Stmt where
  | output (e : Expr)
  /-- `elifs` are the `If` nodes of `elif_` (each with empty `elif_`/`else_`, as the parser builds them) -/
  | ite (test : Expr) (body elifs els : List Stmt)
  | for_ (targets : List Name) (iter : Expr) (body els : List Stmt) (test : Option Expr) (recursive : Bool)
  | assign (tgts : List Tgt) (e : Expr)
  | assignBlock (tgt : Tgt) (filt : Expr) (body : List Stmt)
  | with_ (targets : List Name) (values : Expr) (body : List Stmt)
  | macro_ (name : Name) (args : List Name) (defaults : Expr) (body : List Stmt)
  | callBlock (call : Expr) (args : List Name) (defaults : Expr) (body : List Stmt)
  | filterBlock (filt : Expr) (body : List Stmt)
  | block (name : Name) (sc : Bool) (body : List Stmt)
  | ref (kind : RefKind) (t : TExpr) (e : Expr) (binds : List Name)
  | scope (body : List Stmt)
  /-- `ScopedEvalContextModifier` (the body of `{% autoescape %}`): options, then statements, same frame -/
  | evalctx (opts : Expr) (body : List Stmt)
  deriving Repr, Inhabited

/-! ## `Symbols` -/

structure St where
  loads : List (Name × Act) := []
  stores : List Name := []
  deriving Repr, Inhabited

def keys (l : List (Name × Act)) : List Name := l.map (·.1)

/-- `d[n] = a` on an insertion-ordered dict -/
def setL (l : List (Name × Act)) (n : Name) (a : Act) : List (Name × Act) :=
  if n ∈ keys l then l.map (fun p => if p.1 = n then (n, a) else p) else l ++ [(n, a)]

/-- `d.update(m)` -/
def updateL (l m : List (Name × Act)) : List (Name × Act) :=
  m.foldl (fun acc p => setL acc p.1 p.2) l

def addStore (s : List Name) (n : Name) : List Name := if n ∈ s then s else s ++ [n]

/-- `find_ref(n) is not None` from a frame with own dictionary `st.loads` and ancestors `outer` -/
def hasRef (outer : List Name) (st : St) (n : Name) : Bool := n ∈ keys st.loads || n ∈ outer

/-- `Symbols.declare_parameter` (idtracking.py:113-115) -/
def declParam (n : Name) (st : St) : St :=
  { loads := setL st.loads n .param, stores := addStore st.stores n }

/-- `Symbols.store` (idtracking.py:95-111) -/
def store (outer : List Name) (n : Name) (st : St) : St :=
  let stores := addStore st.stores n
  if n ∈ keys st.loads then { st with stores := stores }
  else if n ∈ outer then { loads := setL st.loads n .alias, stores := stores }
  else { loads := setL st.loads n .undef, stores := stores }

/-- `Symbols.load` (idtracking.py:117-119) -/
def load (outer : List Name) (n : Name) (st : St) : St :=
  if hasRef outer st n then st else { st with loads := setL st.loads n .resolve }

def loadAll (outer : List Name) (e : Expr) (st : St) : St := e.foldl (fun s n => load outer n s) st
def declParams (ns : List Name) (st : St) : St := ns.foldl (fun s n => declParam n s) st
def storeAll (outer : List Name) (ns : List Name) (st : St) : St := ns.foldl (fun s n => store outer n s) st

def visitTgt (outer : List Name) (t : Tgt) (st : St) : St :=
  match t with
  | .store n => store outer n st
  | .nsref n => load outer n st        -- visit_NSRef (idtracking.py:247-248)

def visitTgts (outer : List Name) (ts : List Tgt) (st : St) : St := ts.foldl (fun s t => visitTgt outer t s) st

/-- `Symbols.branch_update` (idtracking.py:121-143) -/
def branchUpdate (outer : List Name) (st : St) (bs : List St) : St :=
  let allStores := bs.foldl (fun acc b => b.stores.foldl addStore acc) []
  let newStores := allStores.filter (fun n => !(n ∈ st.stores))
  let loads := bs.foldl (fun acc b => updateL acc b.loads) st.loads
  let stores := bs.foldl (fun acc b => b.stores.foldl addStore acc) st.stores
  let loads := newStores.foldl (fun acc n => setL acc n (if n ∈ outer then .alias else .resolve)) loads
  { loads := loads, stores := stores }

/-- names for which `enter_frame` emits `resolve(name)` (compiler.py:585-586; meta.py:28-30 before the globals test) -/
def resolves (st : St) : List Name := (st.loads.filter (fun p => p.2 == .resolve)).map (·.1)

/-! ## `FrameSymbolVisitor`: contribution of a statement to the frame it occurs in -/

mutual
def fsv (outer : List Name) : Stmt → St → St
  | .output e, st => loadAll outer e st
  | .ite t b ei el, st =>
    let st := loadAll outer t st
    branchUpdate outer st [fsvs outer b st, fsvs outer ei st, fsvs outer el st]
  | .for_ _ it _ _ _ _, st => loadAll outer it st
  | .assign ts e, st => visitTgts outer ts (loadAll outer e st)
  | .assignBlock t _ _, st => visitTgt outer t st
  | .with_ _ vs _, st => loadAll outer vs st
  | .macro_ n _ _ _, st => store outer n st
  | .callBlock c _ _ _, st => loadAll outer c st
  | .filterBlock f _, st => loadAll outer f st
  | .block _ _ _, st => st
  | .ref _ _ e binds, st => storeAll outer binds (loadAll outer e st)
  | .scope _, st => st
  | .evalctx o b, st => fsvs outer b (loadAll outer o st)
def fsvs (outer : List Name) : List Stmt → St → St
  | [], st => st
  | s :: ss, st => fsvs outer ss (fsv outer s st)
end

/-! ## `find_undeclared` for the special names -/

/-- `Name` occurrences `(name, ctx == 'load')` in `generic_visit` order, not descending into blocks
    (UndeclaredNameVisitor.visit_Block); `NSRef`, macro names and import targets are not `Name` nodes -/
def tgtOcc : Tgt → List (Name × Bool)
  | .store n => [(n, false)]
  | .nsref _ => []

def exprOcc (e : Expr) : List (Name × Bool) := e.map (·, true)
def paramOcc (ns : List Name) : List (Name × Bool) := ns.map (·, false)

mutual
def occ : Stmt → List (Name × Bool)
  | .output e => exprOcc e
  | .ite t b ei el => exprOcc t ++ occs b ++ occs ei ++ occs el
  | .for_ tg it b el test _ =>
    paramOcc tg ++ exprOcc it ++ occs b ++ occs el ++ (match test with | some t => exprOcc t | none => [])
  | .assign ts e => ts.flatMap tgtOcc ++ exprOcc e
  | .assignBlock t f b => tgtOcc t ++ exprOcc f ++ occs b
  | .with_ tg vs b => paramOcc tg ++ exprOcc vs ++ occs b
  | .macro_ _ args d b => paramOcc args ++ exprOcc d ++ occs b
  | .callBlock c args d b => exprOcc c ++ paramOcc args ++ exprOcc d ++ occs b
  | .filterBlock f b => occs b ++ exprOcc f
  | .block _ _ _ => []
  | .ref _ _ e _ => exprOcc e
  | .scope b => occs b
  | .evalctx o b => exprOcc o ++ occs b
def occs : List Stmt → List (Name × Bool)
  | [] => []
  | s :: ss => occ s ++ occs ss
end

/- `name in find_undeclared(nodes, names)`: the first `Name` node called `name` is a load -/
def firstOccIsLoad (n : Name) (os : List (Name × Bool)) : Bool :=
  match os.find? (fun p => p.1 == n) with
  | some p => p.2
  | none => false

def special (n : Name) (body : List Stmt) : Bool := firstOccIsLoad n (occs body)

/- all `Block` nodes below (node.find_all(nodes.Block), nested ones included) as `(scoped, body)` -/
mutual
def blocksOf : Stmt → List (Name × Bool × List Stmt)
  | .output _ => []
  | .ite _ b ei el => blocksOfs b ++ blocksOfs ei ++ blocksOfs el
  | .for_ _ _ b el _ _ => blocksOfs b ++ blocksOfs el
  | .assign _ _ => []
  | .assignBlock _ _ b => blocksOfs b
  | .with_ _ _ b => blocksOfs b
  | .macro_ _ _ _ b => blocksOfs b
  | .callBlock _ _ _ b => blocksOfs b
  | .filterBlock _ b => blocksOfs b
  | .block n sc b => (n, sc, b) :: blocksOfs b
  | .ref _ _ _ _ => []
  | .scope b => blocksOfs b
  | .evalctx _ b => blocksOfs b
def blocksOfs : List Stmt → List (Name × Bool × List Stmt)
  | [] => []
  | s :: ss => blocksOf s ++ blocksOfs ss
end

/-! ## Frames the code generator creates (what is analysed inside each: `RootVisitor`) -/

/-- ancestors' names as seen from a child of the frame `(outer, st)` -/
def inner (outer : List Name) (st : St) : List Name := outer ++ keys st.loads

/-- visit_For: extended loop? (compiler.py:1187-1192) -/
def extendedLoop (body els : List Stmt) (recursive : Bool) : Bool :=
  recursive || special "loop" body || (blocksOfs body ++ blocksOfs els).any (fun b => b.2.1)

/-- loop frame: `loop` parameter if extended, targets as parameters, body (compiler.py:1194-1198, idtracking.py:203-218) -/
def loopFrame (o' : List Name) (tg : List Name) (body els : List Stmt) (recursive : Bool) : St :=
  fsvs o' body (declParams tg (if extendedLoop body els recursive then declParam "loop" {} else {}))

def elseFrame (o' : List Name) (els : List Stmt) : St := fsvs o' els {}

/-- loop filter frame: targets as parameters, then the test (idtracking.py:208-212) -/
def testFrame (o' : List Name) (tg : List Name) (test : Expr) : St := loadAll o' test (declParams tg {})

/-- macro / call block frame (compiler.py:610-660): analyse, declare the special parameters the body reads, analyse again -/
def macroAnalyse (o' : List Name) (args : List Name) (d : Expr) (body : List Stmt) (st : St) : St :=
  fsvs o' body (loadAll o' d (declParams args st))

def macroFrame (o' : List Name) (args : List Name) (d : Expr) (body : List Stmt) : St :=
  let st := macroAnalyse o' args d body {}
  let st := if special "caller" body && !("caller" ∈ args) then declParam "caller" st else st
  let st := if special "kwargs" body && !("kwargs" ∈ args) then declParam "kwargs" st else st
  let st := if special "varargs" body && !("varargs" ∈ args) then declParam "varargs" st else st
  macroAnalyse o' args d body st

def withFrame (o' : List Name) (tg : List Name) (body : List Stmt) : St := fsvs o' body (declParams tg {})
def plainFrame (o' : List Name) (body : List Stmt) : St := fsvs o' body {}
/-- filter block frame, set-block frame: body, then the filter's arguments (idtracking.py:183 with
    nodes.FilterBlock.fields; idtracking.py:188-195) -/
def filterFrame (o' : List Name) (f : Expr) (body : List Stmt) : St := loadAll o' f (fsvs o' body {})

/-- root frame (compiler.py:875-879) -/
def rootFrame (body : List Stmt) : St :=
  fsvs [] body (if special "self" body then declParam "self" {} else {})

/-- block frame: isolated, `self`/`super` parameters (compiler.py:922-931) -/
def blockFrame (body : List Stmt) : St :=
  let st : St := if special "self" body then declParam "self" {} else {}
  let st := if special "super" body then declParam "super" st else st
  fsvs [] body st

/-! ## Which names the code generator asks `frame.symbols.ref(name)` for (an `AssertionError` if there is none)

  `needs s`: names visited *in the frame the statement occurs in* (compiler.py visit_Name:1640, visit_NSRef:1664,
  visit_Assign:1595, visit_Macro:1345, visit_Import:1114, visit_FromImport:1136); `refOk` follows the frames like `cg`.
  The filter of a set block is visited in the block's frame (compiler.py:1625), which analyses the body and then the
  filter (idtracking.py:188-195). -/

def tgtName : Tgt → Name
  | .store n => n
  | .nsref n => n

mutual
def needs : Stmt → List Name
  | .output e => e
  | .ite t b ei el => t ++ needss b ++ needss ei ++ needss el
  | .for_ _ it _ _ _ _ => it
  | .assign ts e => e ++ ts.map tgtName
  | .assignBlock t _ _ => [tgtName t]
  | .with_ _ vs _ => vs
  | .macro_ n _ _ _ => [n]
  | .callBlock c _ _ _ => c
  | .filterBlock _ _ => []
  | .block _ _ _ => []
  | .ref _ _ e binds => e ++ binds
  | .scope _ => []
  | .evalctx o b => o ++ needss b
def needss : List Stmt → List Name
  | [] => []
  | s :: ss => needs s ++ needss ss
end

def allRef (outer : List Name) (st : St) (ns : List Name) : Bool := ns.all (hasRef outer st)

mutual
def refOk (outer : List Name) (st : St) : Stmt → Bool
  | .output e => allRef outer st e
  | .ite t b ei el => allRef outer st t && refOks outer st b && refOks outer st ei && refOks outer st el
  | .for_ tg it body els test recursive =>
    let o' := inner outer st
    let lf := loopFrame o' tg body els recursive
    let ef := elseFrame o' els
    allRef outer st it && allRef o' lf tg &&
    (match test with | some t => allRef o' (testFrame o' tg t) t | none => true) &&
    refOks o' lf body && refOks o' ef els
  | .assign ts e => allRef outer st (e ++ ts.map tgtName)
  | .assignBlock t flt body =>
    let o' := inner outer st
    let f := filterFrame o' flt body
    allRef outer st [tgtName t] && allRef o' f flt && refOks o' f body
  | .with_ tg vs body =>
    let o' := inner outer st
    let f := withFrame o' tg body
    allRef outer st vs && allRef o' f tg && refOks o' f body
  | .macro_ nm args d body =>
    let o' := inner outer st
    let f := macroFrame o' args d body
    allRef outer st [nm] && allRef o' f (args ++ d) && refOks o' f body
  | .callBlock c args d body =>
    let o' := inner outer st
    let f := macroFrame o' args d body
    allRef outer st c && allRef o' f (args ++ d) && refOks o' f body
  | .filterBlock flt body =>
    let o' := inner outer st
    let f := filterFrame o' flt body
    allRef o' f flt && refOks o' f body
  | .block _ _ _ => true
  | .ref _ _ e binds => allRef outer st (e ++ binds)
  | .scope body =>
    let o' := inner outer st
    let f := plainFrame o' body
    refOks o' f body
  | .evalctx o b => allRef outer st o && refOks outer st b
def refOks (outer : List Name) (st : St) : List Stmt → Bool
  | [] => true
  | s :: ss => refOk outer st s && refOks outer st ss
end

/-- the whole module compiles without `Symbols.ref` failing: root function and every block function -/
def refOkTemplate (t : List Stmt) : Bool :=
  refOks [] (rootFrame t) t && (blocksOfs t).all (fun b => refOks [] (blockFrame b.2.2) b.2.2)

/-! ## every `resolve(name)` the (tracking) code generator emits below a statement of the frame `(outer, st)` -/

mutual
def cg (outer : List Name) (st : St) : Stmt → List Name
  | .output _ => []
  | .ite _ b ei el => cgs outer st b ++ cgs outer st ei ++ cgs outer st el
  | .for_ tg _ body els test recursive =>
    let o' := inner outer st
    let lf := loopFrame o' tg body els recursive
    let ef := elseFrame o' els
    (match test with | some t => resolves (testFrame o' tg t) | none => []) ++
    resolves lf ++ cgs o' lf body ++
    (if els.isEmpty then [] else resolves ef ++ cgs o' ef els)
  | .assign _ _ => []
  | .assignBlock _ flt body =>
    let o' := inner outer st
    let f := filterFrame o' flt body
    resolves f ++ cgs o' f body
  | .with_ tg _ body =>
    let o' := inner outer st
    let f := withFrame o' tg body
    resolves f ++ cgs o' f body
  | .macro_ _ args d body =>
    let o' := inner outer st
    let f := macroFrame o' args d body
    resolves f ++ cgs o' f body
  | .callBlock _ args d body =>
    let o' := inner outer st
    let f := macroFrame o' args d body
    resolves f ++ cgs o' f body
  | .filterBlock flt body =>
    let o' := inner outer st
    let f := filterFrame o' flt body
    resolves f ++ cgs o' f body
  | .block _ _ _ => []
  | .ref _ _ _ _ => []
  | .scope body =>
    let o' := inner outer st
    let f := plainFrame o' body
    resolves f ++ cgs o' f body
  | .evalctx _ body => cgs outer st body
def cgs (outer : List Name) (st : St) : List Stmt → List Name
  | [] => []
  | s :: ss => cg outer st s ++ cgs outer st ss
end

/-- resolve sites of the block functions (compiler.py:911-938) -/
def cgBlocks : List (Name × Bool × List Stmt) → List Name
  | [] => []
  | (_, _, body) :: bs => (resolves (blockFrame body) ++ cgs [] (blockFrame body) body) ++ cgBlocks bs

/-- every name for which the generated module contains `resolve(name)` -/
def resolveSites (t : List Stmt) : List Name :=
  resolves (rootFrame t) ++ cgs [] (rootFrame t) t ++ cgBlocks (blocksOfs t)

/-- `meta.find_undeclared_variables` (as a duplicate-free list): resolve sites that are not environment globals -/
def undeclared (globals : List Name) (t : List Stmt) : List Name :=
  ((resolveSites t).filter (fun n => !(n ∈ globals))).eraseDups

/-! ## Runtime: which names a render fetches from the context

  The generated code reads the context only in `enter_frame` prologues (`l = resolve(name)`), once per *dynamic* entry
  of the frame.  A run is parameterised by an oracle that decides every `if`, every iteration count, how often each
  macro / call block / block function is invoked and how deep a recursive loop recurses.  Sub-executions get
  independent sub-oracles. -/

abbrev Oracle := Nat → Nat
def Oracle.l (o : Oracle) : Oracle := fun i => o (2 * i + 1)
def Oracle.r (o : Oracle) : Oracle := fun i => o (2 * i + 2)
/-- the `j`-th of countably many independent sub-oracles (Cantor pairing) -/
def Oracle.nth (o : Oracle) (j : Nat) : Oracle := fun i => o ((i + j) * (i + j + 1) / 2 + j)

/-- `f 0 ++ f 1 ++ … ++ f (n-1)` -/
def rep (n : Nat) (f : Nat → List Name) : List Name := (List.range n).flatMap f

mutual
def run (o : Oracle) (outer : List Name) (st : St) : Stmt → List Name
  | .output _ => []
  | .ite _ b ei el =>
    if o 0 = 0 then runs o.l outer st b
    else match runChain o.r.l outer st ei with
      | some r => r
      | none => runs o.r.r outer st el
  | .for_ tg _ body els test recursive =>
    let o' := inner outer st
    let lf := loopFrame o' tg body els recursive
    let ef := elseFrame o' els
    -- a recursive loop's function may be re-entered through `loop(...)` any number of times
    rep (if recursive then 1 + o 1 else 1) fun j =>
      let oj := o.r.nth j
      (match test with | some t => resolves (testFrame o' tg t) | none => []) ++
      rep (oj 0) (fun i => resolves lf ++ runs (oj.l.nth i) o' lf body) ++
      (if oj 0 = 0 ∧ !els.isEmpty then resolves ef ++ runs oj.r o' ef els else [])
  | .assign _ _ => []
  | .assignBlock _ flt body =>
    let o' := inner outer st
    let f := filterFrame o' flt body
    resolves f ++ runs o o' f body
  | .with_ tg _ body =>
    let o' := inner outer st
    let f := withFrame o' tg body
    resolves f ++ runs o o' f body
  | .macro_ _ args d body =>
    -- the macro function runs once per call; calls may come from anywhere (also from importing templates)
    let o' := inner outer st
    let f := macroFrame o' args d body
    rep (o 0) fun j => resolves f ++ runs (o.r.nth j) o' f body
  | .callBlock _ args d body =>
    let o' := inner outer st
    let f := macroFrame o' args d body
    rep (o 0) fun j => resolves f ++ runs (o.r.nth j) o' f body
  | .filterBlock flt body =>
    let o' := inner outer st
    let f := filterFrame o' flt body
    resolves f ++ runs o o' f body
  | .block _ _ _ => []      -- a call through `context.blocks`; block functions are accounted for in `runTemplate`
  | .ref _ _ _ _ => []      -- other templates run their own code
  | .scope body =>
    let o' := inner outer st
    let f := plainFrame o' body
    resolves f ++ runs o o' f body
  | .evalctx _ body => runs o outer st body
def runs (o : Oracle) (outer : List Name) (st : St) : List Stmt → List Name
  | [] => []
  | s :: ss => run o.l outer st s ++ runs o.r outer st ss
/- the `elif` chain: the first alternative whose test holds runs; `none` when none holds -/
def runChain (o : Oracle) (outer : List Name) (st : St) : List Stmt → Option (List Name)
  | [] => none
  | .ite _ b _ _ :: es => if o 0 = 0 then some (runs o.l outer st b) else runChain o.r outer st es
  | _ :: es => runChain o.r outer st es
end

/-- block functions: each is invoked some number of times (from this template's root, from a parent's root,
    through `self.name()` or `super()`) -/
def runBlocks (o : Oracle) : List (Name × Bool × List Stmt) → List Name
  | [] => []
  | (_, _, body) :: bs =>
    rep (o 0) (fun j => resolves (blockFrame body) ++ runs (o.l.nth j) [] (blockFrame body) body) ++ runBlocks o.r bs

/-- names fetched with `context.resolve_or_missing` by the code of template `t` during one render -/
def runtimeLookups (o : Oracle) (t : List Stmt) : List Name :=
  resolves (rootFrame t) ++ runs o.l [] (rootFrame t) t ++ runBlocks o.r (blocksOfs t)

/-! ## Referenced templates -/

/-- what meta.find_referenced_templates yields for one node (meta.py:83-112) -/
def yieldedItem : TItem → List (Option String)
  | .str s => [some s]
  | .other => []
  | .dyn => [none]

def constStrs : List TItem → List (Option String)
  | [] => []
  | .str s :: r => some s :: constStrs r
  | _ :: r => constStrs r

def yielded (k : RefKind) : TExpr → List (Option String)
  | .seq items => items.flatMap yieldedItem
  | .dyn => [none]
  | .constStr s => [some s]
  | .constSeq items => if k = .include_ then constStrs items else [none]
  | .constOther => [none]

/- all Extends/FromImport/Import/Include nodes (`ast.find_all(_ref_types)`) -/
mutual
def refsOf : Stmt → List (RefKind × TExpr)
  | .output _ => []
  | .ite _ b ei el => refsOfs b ++ refsOfs ei ++ refsOfs el
  | .for_ _ _ b el _ _ => refsOfs b ++ refsOfs el
  | .assign _ _ => []
  | .assignBlock _ _ b => refsOfs b
  | .with_ _ _ b => refsOfs b
  | .macro_ _ _ _ b => refsOfs b
  | .callBlock _ _ _ b => refsOfs b
  | .filterBlock _ b => refsOfs b
  | .block _ _ b => refsOfs b
  | .ref k t _ _ => [(k, t)]
  | .scope b => refsOfs b
  | .evalctx _ b => refsOfs b
def refsOfs : List Stmt → List (RefKind × TExpr)
  | [] => []
  | s :: ss => refsOf s ++ refsOfs ss
end

def referenced (t : List Stmt) : List (Option String) := (refsOfs t).flatMap (fun p => yielded p.1 p.2)

/- Template names (strings) a load site can hand to the loader.  `dynv i` is the runtime value of the `i`-th
    dynamic expression met (`none`: not a string).  A tuple/list reaches `select_template` for includes (each
    string element may be tried); `get_template` (extends/import) looks a non-string up as one key, which is not a
    template *name*. -/
def itemLoads (dynv : Nat → List String) : Nat → List TItem → List String
  | _, [] => []
  | i, .str s :: r => s :: itemLoads dynv i r
  | i, .other :: r => itemLoads dynv i r
  | i, .dyn :: r => dynv i ++ itemLoads dynv (i + 1) r

def strsOf : List (Option String) → List String
  | [] => []
  | some s :: r => s :: strsOf r
  | none :: r => strsOf r

def siteLoads (dynv : Nat → List String) (k : RefKind) : TExpr → List String
  | .constStr s => [s]
  | .constSeq items => if k = .include_ then strsOf (constStrs items) else []
  | .constOther => []
  | .seq items => if k = .include_ then itemLoads dynv 0 items else (if TItem.dyn ∈ items then dynv 0 else [])
  | .dyn => dynv 0

/- loader requests made by the code of `t` in one run: like `run`, every load site that is executed -/
mutual
def loadsRun (o : Oracle) (dynv : Nat → Nat → List String) : Stmt → List String
  | .output _ => []
  | .ite _ b ei el =>
    if o 0 = 0 then loadsRuns o.l dynv b
    else if o 0 = 1 then loadsRuns o.r.l dynv ei else loadsRuns o.r.r dynv el
  | .for_ _ _ b el _ _ => rep (o 0) (fun i => loadsRuns (o.l.nth i) dynv b) ++ (if o 0 = 0 then loadsRuns o.r dynv el else [])
  | .assign _ _ => []
  | .assignBlock _ _ b => loadsRuns o dynv b
  | .with_ _ _ b => loadsRuns o dynv b
  | .macro_ _ _ _ b => rep (o 0) (fun j => loadsRuns (o.r.nth j) dynv b)
  | .callBlock _ _ _ b => rep (o 0) (fun j => loadsRuns (o.r.nth j) dynv b)
  | .filterBlock _ b => loadsRuns o dynv b
  | .block _ _ b => rep (o 0) (fun j => loadsRuns (o.r.nth j) dynv b)
  | .ref k t _ _ => siteLoads (dynv (o 0)) k t
  | .scope b => loadsRuns o dynv b
  | .evalctx _ b => loadsRuns o dynv b
def loadsRuns (o : Oracle) (dynv : Nat → Nat → List String) : List Stmt → List String
  | [] => []
  | s :: ss => loadsRun o.l dynv s ++ loadsRuns o.r dynv ss
end

end JinjaV.Scope
