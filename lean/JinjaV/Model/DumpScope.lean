/-
  `Symbols.dump_stores` (idtracking.py): the dict `{name: ref}` of every variable stored in the scope chain of a frame,
  which `CodeGenerator.dump_local_context` turns into the `locals` argument of `context.derived(...)` at a scoped
  block call site (and of include / import with context).  The function body is READ from the source by
  translate/dump_stores.py into a `DumpProg` (Gen/DumpStores.lean); this file says what such a program computes.
  A scope is the list of (name, value held by the scope's own ref); a chain lists the scopes innermost first.
  Core Lean only.
-/
namespace JinjaV.DumpScope

abbrev Text := List Char
abbrev Scope := List (String × Text)

/-- the right-hand side of `rv[name] = …` -/
inductive Value where
  | findRefFromSelf     -- `self.find_ref(name)`: the innermost binding seen from the frame whose stores are dumped
  | refOfNode           -- `node.refs[name]` / `node.find_ref(name)`: the binding of the scope being visited
  deriving Repr, DecidableEq

structure DumpProg where
  /-- `if name not in rv:` guards the assignment -/
  guardAbsent : Bool
  value : Value
  deriving Repr, DecidableEq

def hasKey (rv : Scope) (k : String) : Bool := rv.any (fun kv => kv.1 == k)

/-- `rv[k] = v` on an insertion-ordered dict -/
def setKey (rv : Scope) (k : String) (v : Text) : Scope :=
  if hasKey rv k then rv.map (fun kv => if kv.1 == k then (k, v) else kv) else rv ++ [(k, v)]

def valueOf (p : DumpProg) (full here : Scope) (n : String) : Text :=
  match p.value with
  | .findRefFromSelf => (full.lookup n).getD []
  | .refOfNode => (here.lookup n).getD []

/-- `for name in sorted(node.stores): …` for one node (`here` = the chain from this node outwards, flattened) -/
def stepScope (p : DumpProg) (full here : Scope) (rv : Scope) (scope : Scope) : Scope :=
  scope.foldl (fun rv kv => if p.guardAbsent && hasKey rv kv.1 then rv else setKey rv kv.1 (valueOf p full here kv.1)) rv

/-- `while node is not None: …; node = node.parent` -/
def go (p : DumpProg) (full : Scope) : List Scope → Scope → Scope
  | [], rv => rv
  | s :: more, rv => go p full more (stepScope p full (s :: more).flatten rv s)

/-- `dump_stores()` of the innermost frame of `chain` -/
def run (p : DumpProg) (chain : List Scope) : Scope := go p chain.flatten chain []

end JinjaV.DumpScope
