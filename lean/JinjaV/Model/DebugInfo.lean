/-
  M-DebugInfo — the code generator's line bookkeeping and the template's line map (C35).

  Transcribed from
    compiler.py:336-361   CodeGenerator.__init__  (code_lineno = 1, debug_info = [], _write_debug_info = None,
                                                   _new_lines = 0, _last_line = 0, _first_write = True, _indentation = 0)
    compiler.py:412-418   indent / outdent
    compiler.py:451-463   write
    compiler.py:465-468   writeline = newline; write
    compiler.py:470-475   newline
    compiler.py:942-943   debug_info string  "&".join(f"{k}={v}" for k, v in self.debug_info)
    environment.py:1476-1483  Template.get_corresponding_lineno
    environment.py:1492-1501  Template.debug_info  (decode of the string)

  Core Lean only.  Text is `List Char`.  Line numbers are `Nat` (the lexer theorems give lineno ≥ 1).
-/
namespace JinjaV.DebugInfo

abbrev Str := List Char

/-- one call on the code generator's emission interface -/
inductive Op where
  | write (text : Str)
  | newline (node : Option Nat) (extra : Nat)   -- `node` = `node.lineno` of the node passed, `none` for `node=None`
  | indent
  | outdent (step : Nat)
  deriving Repr, DecidableEq

/-- the fields of `CodeGenerator` that take part in line bookkeeping; `streamRev` is the text written so far, reversed -/
structure Gen where
  codeLineno : Nat := 1
  debugInfo : List (Nat × Nat) := []        -- (template line, code line), in append order
  writeDebugInfo : Option Nat := none
  newLines : Nat := 0
  lastLine : Nat := 0
  firstWrite : Bool := true
  indentation : Int := 0
  streamRev : Str := []
  deriving Repr, DecidableEq

def init : Gen := {}

def Gen.stream (g : Gen) : Str := g.streamRev.reverse

/-- `"    " * n` (Python: a non-positive count gives the empty string) -/
def indentText (n : Int) : Str := (List.replicate n.toNat "    ".toList).flatten

/-- compiler.py:470-475 -/
def newline (g : Gen) (node : Option Nat) (extra : Nat) : Gen :=
  let g := { g with newLines := max g.newLines (1 + extra) }
  match node with
  | some ln => if ln != g.lastLine then { g with writeDebugInfo := some ln, lastLine := ln } else g
  | none => g

/-- compiler.py:451-463 -/
def write (g : Gen) (x : Str) : Gen :=
  if g.newLines != 0 then
    let g :=
      if !g.firstWrite then
        let g := { g with streamRev := List.replicate g.newLines '\n' ++ g.streamRev,
                          codeLineno := g.codeLineno + g.newLines }
        match g.writeDebugInfo with
        | some w => { g with debugInfo := g.debugInfo ++ [(w, g.codeLineno)], writeDebugInfo := none }
        | none => g
      else g
    { g with firstWrite := false, streamRev := x.reverse ++ ((indentText g.indentation).reverse ++ g.streamRev),
             newLines := 0 }
  else
    { g with streamRev := x.reverse ++ g.streamRev }

def step (g : Gen) : Op → Gen
  | .write x => write g x
  | .newline n e => newline g n e
  | .indent => { g with indentation := g.indentation + 1 }
  | .outdent k => { g with indentation := g.indentation - k }

def run (g : Gen) (ops : List Op) : Gen := ops.foldl step g

/-- compiler.py:465-468 -/
def writeline (x : Str) (node : Option Nat) (extra : Nat) : List Op := [.newline node extra, .write x]

/-! ### the line map -/

/-- environment.py:1476-1483: `scan` walks the reversed table -/
def scan (ℓ : Nat) : List (Nat × Nat) → Nat
  | [] => 1
  | (tl, cl) :: rest => if cl ≤ ℓ then tl else scan ℓ rest

def correspondingLineno (table : List (Nat × Nat)) (ℓ : Nat) : Nat := scan ℓ table.reverse

/-! ### the `debug_info` string -/

def digitChar (d : Nat) : Char := Char.ofNat (48 + d)

/-- decimal digits of a natural number (what `f"{n}"` gives for a non-negative `int`); `fuel` ≥ `n` is enough -/
def digitsAux : Nat → Nat → Str
  | 0, n => [digitChar (n % 10)]
  | fuel + 1, n => if n < 10 then [digitChar n] else digitsAux fuel (n / 10) ++ [digitChar (n % 10)]

def digits (n : Nat) : Str := digitsAux n n

def intercalate (sep : Str) : List Str → Str
  | [] => []
  | [x] => x
  | x :: y :: r => x ++ sep ++ intercalate sep (y :: r)

/-- compiler.py:942 -/
def encode (t : List (Nat × Nat)) : Str :=
  intercalate ['&'] (t.map fun (a, b) => digits a ++ ['='] ++ digits b)

/-- `str.split(sep)` for a one-character separator -/
def splitOn (sep : Char) : Str → List Str
  | [] => [[]]
  | c :: r =>
    if c == sep then [] :: splitOn sep r
    else match splitOn sep r with
      | [] => [[c]]          -- unreachable: `splitOn` never returns `[]`
      | p :: ps => (c :: p) :: ps

def digitVal? (c : Char) : Option Nat :=
  if 48 ≤ c.toNat ∧ c.toNat ≤ 57 then some (c.toNat - 48) else none

def parseNatAux (acc : Nat) : Str → Option Nat
  | [] => some acc
  | c :: r => match digitVal? c with
    | some d => parseNatAux (acc * 10 + d) r
    | none => none

/-- `int(s)` restricted to non-empty ASCII digit strings; anything else is declined (`none`) — Python's `int`
    also accepts signs, blanks, underscores and non-ASCII digits, which `encode` never produces -/
def parseNat : Str → Option Nat
  | [] => none
  | cs => parseNatAux 0 cs

def decodePair (s : Str) : Option (Nat × Nat) :=
  match splitOn '=' s with
  | [a, b] => do pure (← parseNat a, ← parseNat b)
  | _ => none     -- a tuple of another length breaks the unpacking in get_corresponding_lineno: declined

def mapM? {α β} (f : α → Option β) : List α → Option (List β)
  | [] => some []
  | x :: xs => do let a ← f x; let as ← mapM? f xs; pure (a :: as)

/-- environment.py:1492-1501 -/
def decode (s : Str) : Option (List (Nat × Nat)) :=
  if s.isEmpty then some [] else mapM? decodePair (splitOn '&' s)

end JinjaV.DebugInfo
