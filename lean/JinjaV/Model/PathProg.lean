/-
  M-PathProg: the *whole body* of `split_template_path` (loaders.py:25-39) as a small program.
  The program is READ from the source on every run (translate/split_path.py → Gen/SplitPath.lean):

      pieces = []
      for piece in template.split("/"):
          [piece = f(piece) …]                 -- optional re-bindings of the loop variable
          if REJECT: raise TemplateNotFound(template)
          elif KEEP: pieces.append(STORE)
      return pieces

  REJECT / KEEP are boolean conditions over expressions of the loop variable, STORE is an expression of
  the loop variable.  An expression is a chain of `str → str` function symbols applied to the raw piece
  (`unicodedata.normalize("NFKC", ·)`, `·.strip()`, `·.lower()`, `·.replace(a, b)`, `os.path.normcase(·)`, …).
  The symbols are *uninterpreted*: every theorem about a program holds for every interpretation `sem`
  of them, so it does not matter what NFKC does — what matters is whether the value that is stored is
  the value that was checked.
-/
import JinjaV.Model.Path

namespace JinjaV.Path

/-- a `str → str` function symbol with its literal arguments -/
structure Xf where
  fn : String
  args : List String
  deriving DecidableEq, Repr

/-- an expression over the loop variable: function symbols, innermost first; `[]` is the raw piece -/
abbrev Ex := List Xf

inductive Cond where
  /-- `os.sep in e` -/
  | sepIn (e : Ex)
  /-- `os.path.altsep and os.path.altsep in e` -/
  | altIn (e : Ex)
  /-- `"s" in e` (substring) -/
  | litIn (s : Str) (e : Ex)
  /-- `e == "s"` (`os.path.pardir` is `".."`, `os.path.curdir` is `"."` in posixpath and ntpath) -/
  | eqLit (e : Ex) (s : Str)
  /-- `e` used as a condition: non-empty -/
  | truthy (e : Ex)
  | not (c : Cond)
  | and (a b : Cond)
  | or (a b : Cond)
  deriving DecidableEq, Repr

structure SplitProg where
  reject : Cond
  keep : Cond
  store : Ex
  deriving DecidableEq, Repr

/-- an interpretation of the function symbols -/
abbrev Sem := String → List String → Str → Str

def evalEx (sem : Sem) (e : Ex) (p : Str) : Str := e.foldl (fun acc x => sem x.fn x.args acc) p

/-- Python `s in t` for strings -/
def hasSub (s : Str) : Str → Bool
  | [] => s.isEmpty
  | c :: cs => s.isPrefixOf (c :: cs) || hasSub s cs

def evalCond (sem : Sem) (sep : Char) (altsep : Option Char) (p : Str) : Cond → Bool
  | .sepIn e => (evalEx sem e p).contains sep
  | .altIn e => hasAlt altsep (evalEx sem e p)
  | .litIn s e => hasSub s (evalEx sem e p)
  | .eqLit e s => evalEx sem e p == s
  | .truthy e => !(evalEx sem e p).isEmpty
  | .not c => !evalCond sem sep altsep p c
  | .and a b => evalCond sem sep altsep p a && evalCond sem sep altsep p b
  | .or a b => evalCond sem sep altsep p a || evalCond sem sep altsep p b

/-- the loop: `none` = TemplateNotFound (raised at the first refused piece; whether a later piece
    would also be refused does not change the outcome) -/
def runPieces (sem : Sem) (g : SplitProg) (sep : Char) (altsep : Option Char) : List Str → Option (List Str)
  | [] => some []
  | piece :: rest =>
    if evalCond sem sep altsep piece g.reject then
      none
    else
      match runPieces sem g sep altsep rest with
      | none => none
      | some ps =>
        if evalCond sem sep altsep piece g.keep then some (evalEx sem g.store piece :: ps) else some ps

def runProg (sem : Sem) (g : SplitProg) (sep : Char) (altsep : Option Char) (name : Str) : Option (List Str) :=
  runPieces sem g sep altsep (splitSlash name)

/-- `d` is one of the disjuncts of `c` (syntactically) -/
def hasDisj (d : Cond) (c : Cond) : Bool :=
  decide (c = d) || match c with
    | .or a b => hasDisj d a || hasDisj d b
    | _ => false

/-- `d` is one of the conjuncts of `c` (syntactically) -/
def hasConj (d : Cond) (c : Cond) : Bool :=
  decide (c = d) || match c with
    | .and a b => hasConj d a || hasConj d b
    | _ => false

/-- the decidable sufficient condition the safety theorem is proved from: the value that is *stored*
    is itself tested against `os.sep`, `os.path.altsep` and `..` by the refusing branch, and against
    emptiness and `.` by the keeping branch.  A transformation applied after the test (the stored
    expression differs from the tested one) makes this false. -/
def safeProg (g : SplitProg) : Bool :=
  hasDisj (.sepIn g.store) g.reject && hasDisj (.altIn g.store) g.reject && hasDisj (.eqLit g.store pardir) g.reject
    && hasConj (.truthy g.store) g.keep && hasConj (.not (.eqLit g.store dot)) g.keep

/-- what "safe" means for one returned piece: non-empty, not `.`, not `..`, no `os.sep`, no `os.path.altsep` -/
def SafePiece (sep : Char) (altsep : Option Char) (p : Str) : Prop :=
  p ≠ [] ∧ p ≠ dot ∧ p ≠ pardir ∧ sep ∉ p ∧ (∀ a, altsep = some a → a ∉ p)

/-- the program the hand model `splitTemplatePath` transcribes -/
def refProg : SplitProg :=
  { reject := .or (.sepIn []) (.or (.altIn []) (.eqLit [] pardir)),
    keep := .and (.truthy []) (.not (.eqLit [] dot)),
    store := [] }

/-- the identity interpretation (used by the driver for programs without function symbols) -/
def semId : Sem := fun _ _ p => p

/-- every function symbol occurring in the program (the driver declines programs that have any) -/
def Cond.syms : Cond → List Xf
  | .sepIn e | .altIn e | .litIn _ e | .eqLit e _ | .truthy e => e
  | .not c => c.syms
  | .and a b | .or a b => a.syms ++ b.syms

def SplitProg.syms (g : SplitProg) : List Xf := g.reject.syms ++ g.keep.syms ++ g.store

end JinjaV.Path
