/-
  M-NativeTpl: which pieces a native template yields, for the small statement language in which a
  template's output is "one expression plus material that compiles to nothing".

  Input is the token list of the lexer model (`Model/Lex.lean`, the model behind C11/C12/C39), seen
  through `Lexer.wrap` (lexer.py:612-666: comments, whitespace, raw_begin/raw_end are dropped, line
  statements become blocks).  The pieces follow `Parser.subparse` (parser.py:1000-1046: data and
  `{{ … }}` are collected into one Output node until a block tag; an empty data token is skipped when
  the `if token.value:` guard is there — the parameter `guard`) and the native code generator
  (nativetypes.py:50-86 + compiler.py `visit_Output`: adjacent template data of one Output node are folded
  into one string, every other child is yielded as the value itself, no `str()`).

  A `{{ … }}` whose expression is a compile-time constant (compiler.py `visit_Output`: `_output_child_to_const`
  succeeds) joins the group of template data / constants around it in the same Output node: ONE string piece per
  maximal run of data and constants — also when that string is empty; a group is never dropped.  The constant
  expressions are not evaluated here: the request names them (token texts joined) with their documented text.

  Statements understood: `{{ name }}`, `{{ constant }}`, `{{ macro(name) }}`, `{% if name %}…{% else %}…{% endif %}`,
  `{% set name = name|literal %}`, `{% macro name(param) %}…{% endmacro %}`; anything else is outside the
  model (`none`).  A macro call is modelled where `native_concat` of the macro body's pieces is a single
  non-string value (the documented identity case), or a text that is NOT a Python literal — the text is recorded in
  `assumed` and the harness confirms the assumption with Python's own `literal_eval` (the parameter); otherwise `none`.
-/
import JinjaV.Model.Lex
import JinjaV.Model.Native

namespace JinjaV.NativeTpl
open JinjaV.Lex JinjaV.Native

/-- what the parser sees -/
inductive PTok where
  | data (s : Str)
  | varBegin | varEnd | blockBegin | blockEnd
  | name (s : Str)
  | op (s : Str)
  | lit (s : Str)          -- integer / float / string literal (never evaluated here)
  deriving Repr, DecidableEq

/-- `Lexer.wrap`: ignored tokens disappear, line statements are blocks -/
def wrapTok (t : Tok) : Option PTok :=
  match t.kind with
  | .data => some (.data t.text)
  | .blockBegin | .lineStmtBegin => some .blockBegin
  | .blockEnd | .lineStmtEnd => some .blockEnd
  | .variableBegin => some .varBegin
  | .variableEnd => some .varEnd
  | .name => some (.name t.text)
  | .operator => some (.op t.text)
  | .float | .integer | .string => some (.lit t.text)
  | _ => none

def wrap (toks : List Tok) : List PTok := toks.filterMap wrapTok

structure St where
  vars : List (Str × Option Val)            -- `none`: bound to something the model does not follow
  conds : List (Str × Bool)                 -- render data used as `if` tests
  consts : List (Str × String)              -- constant expressions (token texts joined) with their documented text
  assumed : List String                     -- macro results taken to be text: must not parse as Python literals
  macros : List (Str × Str × List PTok)     -- name, parameter, body tokens
  stack : List (Bool × Bool)                -- per open `if`: (live outside, value of the test)
  live : Bool
  out : List Val                            -- pieces yielded so far, reversed
  lastData : Bool                           -- the newest piece is template data of the open Output node
  deriving Repr

def lookup {α : Type} (k : Str) : List (Str × α) → Option α
  | [] => none
  | (k', v) :: r => if k = k' then some v else lookup k r

/-- a `TemplateData` child: folded into the preceding data of the same Output node -/
def pushData (st : St) (s : Str) : St :=
  if !st.live then st else
  match st.lastData, st.out with
  | true, .str t :: r => { st with out := .str (t ++ String.ofList s) :: r }
  | _, _ => { st with out := .str (String.ofList s) :: st.out, lastData := true }

/-- a constant expression child: part of the group of data / constants around it, never dropped, empty or not -/
def pushConst (st : St) (s : String) : St := pushData st s.toList

/-- an expression child: yielded as it is -/
def pushVal (st : St) (v : Val) : St :=
  if !st.live then st else { st with out := v :: st.out, lastData := false }

/-- a block tag ends the Output node (`flush_data`) -/
def endOutput (st : St) : St := { st with lastData := false }

def kw (s : String) : Str := s.toList

def cond (st : St) (n : Str) : Option Bool :=
  if n = kw "true" || n = kw "True" then some true
  else if n = kw "false" || n = kw "False" then some false
  else lookup n st.conds

def endMacroPrefix : List PTok → Option (List PTok)
  | .blockBegin :: .name n :: .blockEnd :: r => if n = kw "endmacro" then some r else none
  | _ => none

def startsMacro : List PTok → Bool
  | .blockBegin :: .name n :: _ => n = kw "macro"
  | _ => false

/-- the body of a macro up to its `{% endmacro %}` (no nested macro): (body, rest) -/
def splitEndMacro : List PTok → Option (List PTok × List PTok)
  | [] => none
  | t :: r =>
    match endMacroPrefix (t :: r) with
    | some rest => some ([], rest)
    | none =>
      if startsMacro (t :: r) then none else
      match splitEndMacro r with
      | some (b, r2) => some (t :: b, r2)
      | none => none

def macroState (st : St) (p : Str) (v : Val) : St :=
  { vars := [(p, some v)], conds := st.conds, consts := st.consts, assumed := st.assumed, macros := [], stack := [],
    live := true, out := [], lastData := false }

def tokText : PTok → Str
  | .data s => s | .name s => s | .op s => s | .lit s => s
  | .varBegin | .varEnd | .blockBegin | .blockEnd => []

/-- the tokens of an expression up to its `variable_end`: (token texts joined, rest after the end) -/
def splitVarEnd : List PTok → Option (Str × List PTok)
  | [] => none
  | .varEnd :: r => some ([], r)
  | .varBegin :: _ => none
  | .blockBegin :: _ => none
  | .blockEnd :: _ => none
  | .data _ :: _ => none
  | t :: r =>
    match splitVarEnd r with
    | some (k, r2) => some (tokText t ++ k, r2)
    | none => none

/-- the pieces, in order.  `guard` = `Parser.subparse` skips a data token whose value is empty. -/
def interp (guard : Bool) : Nat → List PTok → St → Option St
  | 0, _, _ => none
  | _ + 1, [], st => if st.stack.isEmpty then some (endOutput st) else none
  | n + 1, .data s :: r, st =>
    if guard && s.isEmpty then interp guard n r st else interp guard n r (pushData st s)
  | n + 1, .varBegin :: .name x :: .varEnd :: r, st =>
    if !st.live then interp guard n r st else
    match lookup x st.vars with
    | some (some v) => interp guard n r (pushVal st v)
    | _ => none
  | n + 1, .varBegin :: .name f :: .op ['('] :: .name a :: .op [')'] :: .varEnd :: r, st =>
    if !st.live then interp guard n r st else
    match lookup f st.macros, lookup a st.vars with
    | some (p, body), some (some va) =>
      match interp guard n body (macroState st p va) with
      | some st2 =>
        -- the macro returns `concat(buffer)` (a list): the identity case, or a text assumed not to be a literal
        match nativeConcat (fun _ => (none : Option Unit)) false st2.out.reverse with
        | .value v => interp guard n r (pushVal { st with assumed := st2.assumed } v)
        | .text raw => interp guard n r (pushVal { st with assumed := raw :: st2.assumed } (.str raw))
        | _ => none
      | none => none
    | _, _ => none
  | n + 1, .varBegin :: t :: r, st =>
    -- any other expression: modelled when it is one of the named compile-time constants
    match splitVarEnd (t :: r) with
    | some (key, r2) =>
      if !st.live then interp guard n r2 st else
      match lookup key st.consts with
      | some text => interp guard n r2 (pushConst st text)
      | none => none
    | none => none
  | n + 1, .blockBegin :: .name k :: .name c :: .blockEnd :: r, st =>
    if k = kw "if" then
      match cond st c with
      | some b => interp guard n r { endOutput st with stack := (st.live, b) :: st.stack, live := st.live && b }
      | none => none
    else none
  | n + 1, .blockBegin :: .name k :: .blockEnd :: r, st =>
    if k = kw "else" then
      match st.stack with
      | (outer, b) :: _ => interp guard n r { endOutput st with live := outer && !b }
      | [] => none
    else if k = kw "endif" then
      match st.stack with
      | (outer, _) :: rest => interp guard n r { endOutput st with stack := rest, live := outer }
      | [] => none
    else none
  | n + 1, .blockBegin :: .name k :: .name y :: .op ['='] :: .name x :: .blockEnd :: r, st =>
    if k = kw "set" then
      if !st.live then interp guard n r (endOutput st) else
      match lookup x st.vars with
      | some (some v) => interp guard n r { endOutput st with vars := (y, some v) :: st.vars }
      | _ => none
    else none
  | n + 1, .blockBegin :: .name k :: .name y :: .op ['='] :: .lit _ :: .blockEnd :: r, st =>
    if k = kw "set" then
      if !st.live then interp guard n r (endOutput st)
      else interp guard n r { endOutput st with vars := (y, none) :: st.vars }
    else none
  | n + 1, .blockBegin :: .name k :: .name m :: .op ['('] :: .name p :: .op [')'] :: .blockEnd :: r, st =>
    if k = kw "macro" then
      match splitEndMacro r with
      | some (body, r2) =>
        if !st.live then interp guard n r2 (endOutput st)
        else interp guard n r2 { endOutput st with macros := (m, p, body) :: st.macros }
      | none => none
    else none
  | _ + 1, _, _ => none

def initState (vars : List (Str × Option Val)) (conds : List (Str × Bool)) (consts : List (Str × String) := []) : St :=
  { vars := vars, conds := conds, consts := consts, assumed := [], macros := [], stack := [], live := true, out := [],
    lastData := false }

/-- pieces and the texts assumed not to be literals -/
def piecesWith (guard : Bool) (toks : List PTok) (vars : List (Str × Option Val)) (conds : List (Str × Bool))
    (consts : List (Str × String)) : Option (List Val × List String) :=
  (interp guard (2 * toks.length + 4) toks (initState vars conds consts)).map fun st => (st.out.reverse, st.assumed)

/-- the pieces the root render function yields for a token list -/
def pieces (guard : Bool) (toks : List PTok) (vars : List (Str × Option Val)) (conds : List (Str × Bool)) :
    Option (List Val) :=
  (interp guard (2 * toks.length + 4) toks (initState vars conds)).map fun st => st.out.reverse

/-- source text to pieces through the lexer model; `none`: lexer error or outside the model -/
def piecesOfSource (guard : Bool) (cfg : Cfg) (src : Str) (vars : List (Str × Option Val)) (conds : List (Str × Bool)) :
    Option (List Val) :=
  match tokeniter cfg src with
  | .ok toks => pieces guard (wrap toks) vars conds
  | _ => none

/-- `NativeTemplate.render` / `render_async` (nativetypes.py:95-130): `native_concat` of the yielded pieces -/
def render {L : Type} (litEval : String → Option L) (isGen : Bool) (guard : Bool) (cfg : Cfg) (src : Str)
    (vars : List (Str × Option Val)) (conds : List (Str × Bool)) : Option (Res L) :=
  (piecesOfSource guard cfg src vars conds).map (nativeConcat litEval isGen)

end JinjaV.NativeTpl
