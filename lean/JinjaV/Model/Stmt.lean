/-
  M-Stmt — the reference semantics of statements and variable scoping (docs/templates.rst "Assignments",
  "Scoping Behavior", "For", "Macros", "Call", "Filters", "Block Assignments", "With Statement"):

  * a name is looked up in the template's scopes, innermost first, then in the render context;
  * `if` shares the enclosing scope; every loop iteration, `with`, `filter`, block-`set`, macro body and
    `call` body runs in a fresh scope whose assignments are gone when it ends;
  * a macro (and a `call` body) is a closure over the scopes in which it was written — it sees those variables
    as they are when it is called, never the caller's;
  * `with` evaluates all its values in the enclosing scope; a loop's iterable too; macro arguments in the caller's;
  * namespaces are the only mutable cells.

  Expressions are those of M-Expr.  Autoescape is off in this fragment.
-/
import JinjaV.Model.Expr

namespace JinjaV.Stmt
open JinjaV.Expr

inductive Stmt where
  | text (s : String)
  | out (e : Expr)
  | ifs (branches : List (Expr × List Stmt)) (els : List Stmt)
  | for_ (target : String) (iter : Expr) (filt : Option Expr) (body els : List Stmt)
  | set (name : String) (e : Expr)
  | setBlock (name : String) (body : List Stmt)
  | with_ (binds : List (String × Expr)) (body : List Stmt)
  | macro (name : String) (params : List (String × Option Expr)) (body : List Stmt)
  | callMacro (name : String) (args : List Expr)                       -- {{ m(a, b) }}
  | callBlock (name : String) (args : List Expr) (body : List Stmt)    -- {% call m(a) %}…{% endcall %}
  | callerOut                                                          -- {{ caller() }}
  | filterBlock (fname : String) (body : List Stmt)
  | nsNew (name : String) (inits : List (String × Expr))               -- {% set ns = namespace(a=e) %}
  | nsSet (ns attr : String) (e : Expr)                                -- {% set ns.a = e %}
  | break_
  | continue_
  deriving Inhabited

structure MacroDef where
  params : List (String × Option Expr)
  body : List Stmt
  depth : Nat                 -- number of scopes alive where the macro was written (the closure)

structure CallerDef where
  body : List Stmt
  depth : Nat
  site : Nat                  -- index into `St.sites`: the scopes alive where the call block is written

structure Frame where
  vars : List (String × Val) := []
  macros : List (String × MacroDef) := []
  caller : Option CallerDef := none
  assigns : List String := []      -- names this scope's own statements assign somewhere (used only for `quirk`)

structure St where
  frames : List Frame               -- innermost first
  ns : List (List (String × Val))   -- namespace cells, by id
  quirk : Bool                      -- a read went past a scope that assigns the name later (see `noteReads`)
  sites : List (List Frame) := []   -- the suspended scope stacks of the call blocks being executed (innermost last)

inductive Sig where | normal | brk | cont
  deriving DecidableEq, Inhabited

/-! ## static helpers -/

mutual
def exprNames : Expr → List String
  | .const _ => []
  | .name n => [n]
  | .tuple es | .list es | .concat es => exprNamesList es
  | .dict kvs => exprNamesPairs kvs
  | .cond t a b => exprNames t ++ exprNames a ++ exprNamesOpt b
  | .and_ a b | .or_ a b | .bin _ a b | .getitem a b => exprNames a ++ exprNames b
  | .not_ a | .un _ a | .getattr a _ => exprNames a
  | .compare e ops => exprNames e ++ exprNamesCmp ops
  | .slice e a b s => exprNames e ++ exprNamesOpt a ++ exprNamesOpt b ++ exprNamesOpt s
  | .call f args => exprNames f ++ exprNamesList args
  | .filter e _ args | .test e _ args => exprNames e ++ exprNamesList args
def exprNamesList : List Expr → List String
  | [] => []
  | e :: es => exprNames e ++ exprNamesList es
def exprNamesPairs : List (Expr × Expr) → List String
  | [] => []
  | (k, v) :: rest => exprNames k ++ exprNames v ++ exprNamesPairs rest
def exprNamesOpt : Option Expr → List String
  | none => []
  | some e => exprNames e
def exprNamesCmp : List (CmpOp × Expr) → List String
  | [] => []
  | (_, e) :: rest => exprNames e ++ exprNamesCmp rest
end

/-- names assigned by a scope's own statements (`if` shares the scope; nested scopes do not count) -/
def assignedIn : Nat → List Stmt → List String
  | 0, _ => []
  | _ + 1, [] => []
  | fuel + 1, s :: rest =>
    (match s with
     | .set n _ | .setBlock n _ | .nsNew n _ => [n]
     | .macro n _ _ => [n]
     | .ifs branches els =>
       (branches.map (fun b => assignedIn fuel b.2)).flatten ++ assignedIn fuel els
     | _ => []) ++ assignedIn fuel rest

/-- does a macro body use `caller()` (anywhere but inside a nested macro definition)?  A macro that does not cannot be the
    target of a call block (`Macro.__call__` raises TypeError) -/
def usesCaller : Nat → List Stmt → Bool
  | 0, _ => false
  | _ + 1, [] => false
  | fuel + 1, s :: rest =>
    (match s with
     | .callerOut => true
     | .ifs branches els => branches.any (fun b => usesCaller fuel b.2) || usesCaller fuel els
     | .for_ _ _ _ body els => usesCaller fuel body || usesCaller fuel els
     | .setBlock _ body | .with_ _ body | .filterBlock _ body | .callBlock _ _ body => usesCaller fuel body
     | _ => false) || usesCaller fuel rest

/-! ## state helpers -/

def setVar (vars : List (String × Val)) (n : String) (v : Val) : List (String × Val) :=
  if vars.any (·.1 == n) then vars.map (fun p => if p.1 == n then (n, v) else p) else (n, v) :: vars

def St.bind (st : St) (n : String) (v : Val) : St :=
  match st.frames with
  | f :: rest => { st with frames := { f with vars := setVar f.vars n v } :: rest }
  | [] => st

def St.bindMacro (st : St) (n : String) (m : MacroDef) : St :=
  match st.frames with
  | f :: rest => { st with frames := { f with macros := (n, m) :: f.macros.filter (·.1 != n) } :: rest }
  | [] => st

def St.push (st : St) (f : Frame) : St := { st with frames := f :: st.frames }
def St.pop (st : St) : St := { st with frames := st.frames.tail }

def lookupFrames (frames : List Frame) (n : String) : Option Val :=
  match frames with
  | [] => none
  | f :: rest => match f.vars.find? (·.1 == n) with
    | some p => some p.2
    | none => lookupFrames rest n

def lookupMacro (frames : List Frame) (n : String) : Option MacroDef :=
  match frames with
  | [] => none
  | f :: rest => match f.macros.find? (·.1 == n) with
    | some p => some p.2
    | none => lookupMacro rest n

def lookupCaller (frames : List Frame) : Option CallerDef :=
  match frames with
  | [] => none
  | f :: rest => match f.caller with
    | some c => some c
    | none => lookupCaller rest

/-- the variables an expression sees: template scopes innermost first, then the render context -/
def visibleVars (st : St) (ctxVars : List (String × Val)) : List (String × Val) :=
  (st.frames.map (·.vars)).flatten ++ ctxVars

def mkCtx (st : St) (ctxVars : List (String × Val)) : Ctx :=
  { emptyCtx with
    vars := visibleVars st ctxVars
    attrs := fun id a => match st.ns[id]? with
      | some cell => (cell.find? (·.1 == a)).map Prod.snd
      | none => none }

def stmtCfg : CCfg := { autoescape := false, volatile := false, sandboxed := false, icBin := [], icUn := [], isAsync := false }

/-- `quirk`: some name read here is not bound yet in an ENCLOSING scope (not the innermost) whose own statements
    assign it; the implementation declares such a name at that scope's entry as undefined instead of looking it up in
    the context (known finding of C03) -/
def passesLaterAssign (frames : List Frame) (n : String) : Bool :=
  match frames with
  | [] => false
  | f :: rest =>
    if f.vars.any (·.1 == n) then false
    else
      -- enclosing scopes only
      let rec go : List Frame → Bool
        | [] => false
        | g :: more => if g.vars.any (·.1 == n) then false else (g.assigns.contains n || go more)
      go rest

def noteReads (st : St) (names : List String) : St :=
  if names.any (passesLaterAssign st.frames) then { st with quirk := true } else st

def evalIn (st : St) (ctxVars : List (String × Val)) (e : Expr) : Except Err Val :=
  (eval stmtCfg false (mkCtx st ctxVars) e).2

def evalListIn (st : St) (ctxVars : List (String × Val)) : List Expr → Except Err (List Val)
  | [] => .ok []
  | e :: es => do
    let v ← evalIn st ctxVars e
    let vs ← evalListIn st ctxVars es
    pure (v :: vs)

def evalBindsIn (st : St) (ctxVars : List (String × Val)) : List (String × Expr) → Except Err (List (String × Val))
  | [] => .ok []
  | (n, e) :: rest => do
    let v ← evalIn st ctxVars e
    let vs ← evalBindsIn st ctxVars rest
    pure ((n, v) :: vs)

/-- the scopes a closure written at `depth` sees (the `depth` outermost scopes, as they are now) -/
def closureFrames (frames : List Frame) (depth : Nat) : List Frame := frames.drop (frames.length - depth)

def applyBlockFilter (fname : String) (s : String) : Except Err String :=
  match applyFilter false fname (.str s) [] with
  | .ok v => .ok (pyStr v)
  | .error e => .error e

/-- errors carry the `quirk` flag of the moment they were raised -/
abbrev R := Except (Err × Bool) (St × String × Sig)

/-- the interpreter for statement lists with less fuel (the recursive call) -/
abbrev Runner := St → List Stmt → R

/-- run `body` in a fresh scope `f` on top of `base`, then drop that scope: only namespace cells and the quirk flag survive -/
def inScope (rn : Runner) (base : St) (f : Frame) (body : List Stmt) : R :=
  match rn (base.push f) body with
  | .ok (st', out, sig) => .ok ({ base with ns := st'.ns, quirk := st'.quirk }, out, sig)
  | .error e => .error e

/-- the first branch whose condition is truthy (conditions are evaluated in order, in the current scope), else `els` -/
def pickBranch (ctxVars : List (String × Val)) (els : List Stmt) :
    St → List (Expr × List Stmt) → Except (Err × Bool) (St × List Stmt)
  | st, [] => .ok (st, els)
  | st, (c, body) :: more =>
    let st := noteReads st (exprNames c)
    match evalIn st ctxVars c with
    | .ok v => if truth v then .ok (st, body) else pickBranch ctxVars els st more
    | .error err => .error (err, st.quirk)

/-- parameters that received no argument: the default (evaluated in the call scope, in order) or undefined -/
def bindDefaults (ctxVars : List (String × Val)) : St → List (String × Option Expr) → Except (Err × Bool) St
  | stc, [] => .ok stc
  | stc, (p, some e) :: more =>
    let stc := noteReads stc (exprNames e)
    (match evalIn stc ctxVars e with
     | .ok v => bindDefaults ctxVars (stc.bind p v) more
     | .error err => .error (err, stc.quirk))
  | stc, (p, none) :: more => bindDefaults ctxVars (stc.bind p (.undef "")) more

def callerDepthMismatch (caller : Option CallerDef) (depth : Nat) : Bool :=
  match caller with
  | some c => c.depth != depth
  | none => false

/-- `m(args)`: arguments are evaluated in the caller's scope; the body runs over the scopes the macro was written in -/
def callMacroWith (rn : Runner) (ctxVars : List (String × Val)) (fuelA : Nat) (st : St) (name : String) (args : List Expr)
    (caller : Option CallerDef) : Except (Err × Bool) (St × String) :=
  let st := noteReads st (exprNamesList args)
  match evalListIn st ctxVars args with
  | .error e => .error (e, st.quirk)
  | .ok argVals =>
    match lookupMacro st.frames name with
    | none => (match lookupFrames st.frames name, ctxVars.find? (·.1 == name) with
               | none, none => .error (.undefinedError, st.quirk)
               | _, _ => .error (.oom, st.quirk))
    | some m =>
      if args.length > m.params.length then .error (.typeError, st.quirk) else
      if caller.isSome && !usesCaller fuelA m.body then .error (.typeError, st.quirk) else
      let closure : St := { st with frames := closureFrames st.frames m.depth }
      let bound := (m.params.zip argVals).map (fun p => (p.1.1, p.2))
      let f0 : Frame := { vars := bound.reverse, caller := caller, assigns := assignedIn fuelA m.body }
      match bindDefaults ctxVars (closure.push f0) (m.params.drop argVals.length) with
      | .error e => .error e
      | .ok stc =>
        match rn stc m.body with
        | .ok (st', out, _) => .ok ({ st with ns := st'.ns, quirk := st'.quirk }, out)
        | .error e => .error e

/-- the iterations of a loop: one fresh scope per item; the filter sees the target in a scope of its own -/
def forLoop (rn : Runner) (ctxVars : List (String × Val)) (fuelA : Nat) (target : String) (filt : Option Expr) (body : List Stmt) :
    St → String → Bool → List Val → Except (Err × Bool) (St × String × Bool)
  | st, acc, ran, [] => .ok (st, acc, ran)
  | st, acc, ran, item :: more =>
    let keep : Except (Err × Bool) (St × Bool) :=
      match filt with
      | none => .ok (st, true)
      | some fe =>
        let stf := noteReads (st.push { vars := [(target, item)] }) (exprNames fe)
        (match evalIn stf ctxVars fe with
         | .ok v => .ok ({ st with quirk := stf.quirk }, truth v)
         | .error err => .error (err, stf.quirk))
    match keep with
    | .error err => .error err
    | .ok (st, false) => forLoop rn ctxVars fuelA target filt body st acc ran more
    | .ok (st, true) =>
      match inScope rn st { vars := [(target, item)], assigns := assignedIn fuelA body } body with
      | .error err => .error err
      | .ok (st', out, .brk) => .ok (st', acc ++ out, true)
      | .ok (st', out, _) => forLoop rn ctxVars fuelA target filt body st' (acc ++ out) true more

/-- one statement -/
def step (rn : Runner) (ctxVars : List (String × Val)) (fuelA : Nat) (st : St) : Stmt → R
  | .text t => .ok (st, t, .normal)
  | .out e =>
    let st := noteReads st (exprNames e)
    (match evalIn st ctxVars e with
     | .ok v => .ok (st, pyStr v, .normal)
     | .error err => .error (err, st.quirk))
  | .ifs branches els =>
    (match pickBranch ctxVars els st branches with
     | .ok (st, body) => rn st body
     | .error err => .error err)
  | .set n e =>
    let st := noteReads st (exprNames e)
    (match evalIn st ctxVars e with
     | .ok v => .ok (st.bind n v, "", .normal)
     | .error err => .error (err, st.quirk))
  | .setBlock n body =>
    (match inScope rn st { assigns := assignedIn fuelA body } body with
     | .ok (st', out, _) => .ok (st'.bind n (.str out), "", .normal)
     | .error err => .error err)
  | .with_ binds body =>
    let st := noteReads st ((binds.map (fun b => exprNames b.2)).flatten)
    (match evalBindsIn st ctxVars binds with
     | .ok bs => inScope rn st { vars := bs.reverse, assigns := assignedIn fuelA body } body
     | .error err => .error (err, st.quirk))
  | .filterBlock fname body =>
    (match inScope rn st { assigns := assignedIn fuelA body } body with
     | .ok (st', out, sig) =>
       (match applyBlockFilter fname out with
        | .ok o => .ok (st', o, sig)
        | .error err => .error (err, st'.quirk))
     | .error err => .error err)
  | .macro n params body =>
    .ok (st.bindMacro n { params := params, body := body, depth := st.frames.length }, "", .normal)
  | .callMacro n args =>
    (match callMacroWith rn ctxVars fuelA st n args none with
     | .ok (st', out) => .ok (st', out, .normal)
     | .error err => .error err)
  | .callBlock n args body =>
    -- the block's body closes over the scopes of the call site: they are suspended while the macro runs
    let st1 : St := { st with sites := st.sites ++ [st.frames] }
    (match callMacroWith rn ctxVars fuelA st1 n args (some { body := body, depth := st.frames.length, site := st.sites.length }) with
     | .ok (st', out) => .ok ({ st' with sites := st.sites }, out, .normal)
     | .error err => .error err)
  | .callerOut =>
    (match lookupCaller st.frames with
     | none => .error (.oom, st.quirk)      -- `caller` outside a call block: undefined / a context variable; outside the fragment
     | some c =>
       let closure : St := { st with frames := st.sites.getD c.site [] }
       (match rn (closure.push { assigns := assignedIn fuelA c.body }) c.body with
        | .ok (st', out, _) => .ok ({ st with ns := st'.ns, quirk := st'.quirk }, out, .normal)
        | .error err => .error err))
  | .nsNew n inits =>
    let st := noteReads st ((inits.map (fun b => exprNames b.2)).flatten)
    (match evalBindsIn st ctxVars inits with
     | .ok bs =>
       let id := st.ns.length
       let cell := bs.foldl (fun acc p => setVar acc p.1 p.2) []
       .ok (({ st with ns := st.ns ++ [cell] } : St).bind n (.obj id), "", .normal)
     | .error err => .error (err, st.quirk))
  | .nsSet nsName attr e =>
    let st := noteReads st (nsName :: exprNames e)
    (match evalIn st ctxVars (.name nsName), evalIn st ctxVars e with
     | .ok (.obj id), .ok v =>
       (match st.ns[id]? with
        | some cell => .ok ({ st with ns := st.ns.set id (setVar cell attr v) }, "", .normal)
        | none => .error (.oom, st.quirk))
     | .ok (.obj _), .error err => .error (err, st.quirk)
     | .ok _, _ => .error (.oom, st.quirk)     -- attribute assignment on something that is no namespace: TemplateRuntimeError
     | .error err, _ => .error (err, st.quirk))
  | .break_ => .ok (st, "", .brk)
  | .continue_ => .ok (st, "", .cont)
  | .for_ target iter filt body els =>
    let st := noteReads st (exprNames iter)
    (match evalIn st ctxVars iter with
     | .error err => .error (err, st.quirk)
     | .ok iv =>
       match seqItems iv with
       | .error err => .error (err, st.quirk)
       | .ok items =>
         match forLoop rn ctxVars fuelA target filt body st "" false items with
         | .error err => .error err
         | .ok (st', out, true) => .ok (st', out, .normal)
         | .ok (st', out, false) =>
           (match inScope rn st' { assigns := assignedIn fuelA els } els with
            | .ok (st'', out', sig) => .ok (st'', out ++ out', sig)
            | .error err => .error err))

/-- **the reference interpreter** (fuel bounds macro recursion; running out of fuel is `oom`) -/
def run (ctxVars : List (String × Val)) : Nat → St → List Stmt → R
  | 0, st, _ => .error (.oom, st.quirk)
  | _ + 1, st, [] => .ok (st, "", .normal)
  | fuel + 1, st, s :: rest =>
    match step (run ctxVars fuel) ctxVars fuel st s with
    | .error e => .error e
    | .ok (st', out, .normal) =>
      (match run ctxVars fuel st' rest with
       | .ok (st'', out', sig) => .ok (st'', out ++ out', sig)
       | .error e => .error e)
    | .ok (st', out, sig) => .ok (st', out, sig)

def initSt (body : List Stmt) : St :=
  { frames := [{ assigns := assignedIn 1000 body }], ns := [], quirk := false }

/-- render a template body against a context: the output text and the `quirk` flag -/
def render (fuel : Nat) (ctxVars : List (String × Val)) (body : List Stmt) : Except (Err × Bool) (String × Bool) :=
  match run ctxVars fuel (initSt body) body with
  | .ok (st, out, _) => .ok (out, st.quirk)
  | .error e => .error e

end JinjaV.Stmt
