/-
  M-Lex: executable model of `jinja2.lexer.Lexer.tokeniter` (lexer.py:668-868) together with the
  rule set built in `Lexer.__init__` (lexer.py:480-591) and `compile_rules` (lexer.py:211-249).

  Strings are `List Char`.  Python's `re` is not modelled as an engine: each rule is a hand scanner
  that reproduces the regex's match (including the order of alternatives and the lazy `(.*?)` search)
  for configurations that satisfy `Cfg.Valid` (no delimiter/prefix contains whitespace).

  Besides the real tokens the model emits `ghost` tokens holding the whitespace that `-` signs and
  `lstrip_blocks` remove, so that losslessness can be stated on the token list itself.
-/
namespace JinjaV.Lex

abbrev Str := List Char

structure Cfg where
  blockStart : Str
  blockEnd : Str
  varStart : Str
  varEnd : Str
  commentStart : Str
  commentEnd : Str
  lineStmt : Option Str
  lineComment : Option Str
  trimBlocks : Bool
  lstripBlocks : Bool
  keepTrailingNl : Bool
  deriving Repr, DecidableEq

/-- `\s` / `str.isspace()` (measured: the 29 code points Python's `re` treats as whitespace) -/
def isSpace (c : Char) : Bool :=
  let n := c.toNat
  (9 ≤ n && n ≤ 13) || (28 ≤ n && n ≤ 32) || n == 0x85 || n == 0xa0 || n == 0x1680 ||
  (0x2000 ≤ n && n ≤ 0x200a) || n == 0x2028 || n == 0x2029 || n == 0x202f || n == 0x205f || n == 0x3000

def isDigit (c : Char) : Bool := '0' ≤ c && c ≤ '9'

/-- identifier characters: ASCII `\w` plus a few non-ASCII characters used by the generators
    (`é ö ü 中 ·`); other non-ASCII input is outside the model -/
def isWord (c : Char) : Bool :=
  ('a' ≤ c && c ≤ 'z') || ('A' ≤ c && c ≤ 'Z') || isDigit c || c == '_' ||
  c == 'é' || c == 'ö' || c == 'ü' || c == '中' || c == '·'

inductive TK where
  | data | blockBegin | blockEnd | variableBegin | variableEnd | rawBegin | rawEnd
  | commentBegin | comment | commentEnd | lineStmtBegin | lineStmtEnd
  | lineCommentBegin | lineComment | lineCommentEnd
  | whitespace | float | integer | name | string | operator
  | ghost
  deriving Repr, DecidableEq

structure Tok where
  lineno : Nat
  kind : TK
  text : Str
  deriving Repr, DecidableEq

inductive ErrKind where
  | missingEndComment | missingEndRaw
  | unexpectedClose (c : Char)
  | unexpectedCloseExpected (c e : Char)
  | unexpectedChar (c : Char)
  deriving Repr, DecidableEq

inductive LexRes where
  | ok (toks : List Tok)
  | syntaxError (toks : List Tok) (k : ErrKind) (lineno : Nat)   -- tokens yielded before the error
  | fuel (toks : List Tok)
  deriving Repr, DecidableEq

-- small string utilities ------------------------------------------------------------------------

def countNl (s : Str) : Nat := s.count '\n'

/-- `s` starts with `p`: the remainder -/
def dropPrefix? : Str → Str → Option Str
  | [], s => some s
  | _ :: _, [] => none
  | p :: ps, c :: cs => if p = c then dropPrefix? ps cs else none

def spanSpace (s : Str) : Str × Str := s.span isSpace

/-- `str.rstrip()`: (kept, removed) -/
def rstrip (s : Str) : Str × Str :=
  let removed := (s.reverse.takeWhile isSpace).reverse
  (s.take (s.length - removed.length), removed)

/-- split at the last '\n': (up to and including it, after it); no newline: ([], s) -/
def splitLastNl (s : Str) : Str × Str :=
  let tail := (s.reverse.takeWhile (· != '\n')).reverse
  (s.take (s.length - tail.length), tail)

-- preprocessing (lexer.py:683-688) -------------------------------------------------------------------

/-- `newline_re.split(source)[::2]` -/
def splitLines : Str → List Str
  | [] => [[]]
  | '\r' :: '\n' :: r => [] :: splitLines r
  | '\r' :: r => [] :: splitLines r
  | '\n' :: r => [] :: splitLines r
  | c :: r => match splitLines r with
    | l :: ls => (c :: l) :: ls
    | [] => [[c]]

def joinNl : List Str → Str
  | [] => []
  | [l] => l
  | l :: ls => l ++ '\n' :: joinNl ls

def preprocess (cfg : Cfg) (src : Str) : Str :=
  let lines := splitLines src
  let lines := if !cfg.keepTrailingNl && lines.getLast? == some [] then lines.dropLast else lines
  joinNl lines

-- root alternatives -----------------------------------------------------------------------------------

inductive RootKind where
  | raw | comment | block | variable | lineStmt | lineComment
  deriving Repr, DecidableEq

def RootKind.rank : RootKind → Nat   -- order of the token names, for `sorted(rules, reverse=True)`
  | .variable => 5 | .lineStmt => 4 | .lineComment => 3 | .comment => 2 | .block => 1 | .raw => 0

def RootKind.tk : RootKind → TK
  | .raw => .rawBegin | .comment => .commentBegin | .block => .blockBegin | .variable => .variableBegin
  | .lineStmt => .lineStmtBegin | .lineComment => .lineCommentBegin

/-- insertion into a list sorted descending by (length, rank) -/
def insertAlt (a : Nat × RootKind) : List (Nat × RootKind) → List (Nat × RootKind)
  | [] => [a]
  | b :: bs =>
    if a.1 > b.1 || (a.1 == b.1 && a.2.rank > b.2.rank) then a :: b :: bs else b :: insertAlt a bs

/-- alternatives of the root regex in order: raw first, then `compile_rules` -/
def rootAlts (cfg : Cfg) : List RootKind :=
  let base : List (Nat × RootKind) :=
    [(cfg.commentStart.length, .comment), (cfg.blockStart.length, .block), (cfg.varStart.length, .variable)]
  let base := match cfg.lineStmt with | some p => base ++ [(p.length, RootKind.lineStmt)] | none => base
  let base := match cfg.lineComment with | some p => base ++ [(p.length, RootKind.lineComment)] | none => base
  .raw :: (base.foldl (fun acc a => insertAlt a acc) []).map Prod.snd

/-- `(\-|\+|)` -/
def takeSign : Str → Str × Str
  | '-' :: r => (['-'], r)
  | '+' :: r => (['+'], r)
  | s => ([], s)

def isHSpace (c : Char) : Bool := isSpace c && c != '\r' && c != '\n'      -- `[^\S\r\n]`
def isBlank (c : Char) : Bool := c == ' ' || c == '\t' || c == '\x0b'        -- `[ \t\v]`

/-- tag end of the form `\-E\s*|E` (variable end, and the tail of `raw`): (matched, rest) -/
def matchEndMinusOrPlain (e : Str) (s : Str) : Option (Str × Str) :=
  match s with
  | '-' :: r =>
    match dropPrefix? e r with
    | some r2 => let (ws, r3) := spanSpace r2; some ('-' :: e ++ ws, r3)
    | none => match dropPrefix? e s with
      | some r2 => some (e, r2)
      | none => none
  | _ => match dropPrefix? e s with
    | some r2 => some (e, r2)
    | none => none

/-- tag end of the form `\+E|\-E\s*|E\n?` (block end, comment end, endraw): (matched, rest) -/
def matchEnd3 (trim : Bool) (e : Str) (s : Str) : Option (Str × Str) :=
  let plain : Option (Str × Str) :=
    match dropPrefix? e s with
    | some r2 => (match trim, r2 with
      | true, '\n' :: r3 => some (e ++ ['\n'], r3)
      | _, _ => some (e, r2))
    | none => none
  match s with
  | '+' :: r =>
    (match dropPrefix? e r with
     | some r2 => some ('+' :: e, r2)
     | none => plain)
  | '-' :: r =>
    (match dropPrefix? e r with
     | some r2 => let (ws, r3) := spanSpace r2; some ('-' :: e ++ ws, r3)
     | none => plain)
  | _ => plain

/-- one alternative of the root regex at the current position.
    `prev` is the character before the position (for `^` and the look-behind).
    Returns (matched text, sign, rest). -/
def matchAlt (cfg : Cfg) (prev : Option Char) (s : Str) : RootKind → Option (Str × Str × Str)
  | .raw =>
    match dropPrefix? cfg.blockStart s with
    | none => none
    | some r1 =>
      let (sign, r2) := takeSign r1
      let (w1, r3) := spanSpace r2
      match dropPrefix? ['r', 'a', 'w'] r3 with
      | none => none
      | some r4 =>
        let (w2, r5) := spanSpace r4
        match matchEndMinusOrPlain cfg.blockEnd r5 with
        | none => none
        | some (e, r6) => some (cfg.blockStart ++ sign ++ w1 ++ ['r', 'a', 'w'] ++ w2 ++ e, sign, r6)
  | .comment =>
    match dropPrefix? cfg.commentStart s with
    | none => none
    | some r1 => let (sign, r2) := takeSign r1; some (cfg.commentStart ++ sign, sign, r2)
  | .block =>
    match dropPrefix? cfg.blockStart s with
    | none => none
    | some r1 => let (sign, r2) := takeSign r1; some (cfg.blockStart ++ sign, sign, r2)
  | .variable =>
    match dropPrefix? cfg.varStart s with
    | none => none
    | some r1 => let (sign, r2) := takeSign r1; some (cfg.varStart ++ sign, sign, r2)
  | .lineStmt =>
    match cfg.lineStmt with
    | none => none
    | some p =>
      if prev == none || prev == some '\n' then
        let (bl, r1) := s.span isBlank
        match dropPrefix? p r1 with
        | none => none
        | some r2 => let (sign, r3) := takeSign r2; some (bl ++ p ++ sign, sign, r3)
      else none
  | .lineComment =>
    match cfg.lineComment with
    | none => none
    | some p =>
      let atStart := prev == none || prev == some '\n'
      let afterNonSpace := match prev with | some c => !isSpace c | none => false
      if atStart || afterNonSpace then
        let (bl, r1) := s.span isHSpace
        match dropPrefix? p r1 with
        | none => none
        | some r2 => let (sign, r3) := takeSign r2; some (bl ++ p ++ sign, sign, r3)
      else none

def firstAlt (cfg : Cfg) (prev : Option Char) (s : Str) : List RootKind → Option (RootKind × Str × Str × Str)
  | [] => none
  | k :: ks => match matchAlt cfg prev s k with
    | some (m, sg, r) => some (k, m, sg, r)
    | none => firstAlt cfg prev s ks

/-- the lazy `(.*?)(?:…)`: least position at which some alternative matches.
    Returns (text, kind, matched, sign, rest). -/
def findRoot (cfg : Cfg) (alts : List RootKind) : Option Char → Str → Option (Str × RootKind × Str × Str × Str)
  | prev, [] =>
    match firstAlt cfg prev [] alts with
    | some (k, m, sg, r) => some ([], k, m, sg, r)
    | none => none
  | prev, c :: cs =>
    match firstAlt cfg prev (c :: cs) alts with
    | some (k, m, sg, r) => some ([], k, m, sg, r)
    | none =>
      match findRoot cfg alts (some c) cs with
      | some (t, k, m, sg, r) => some (c :: t, k, m, sg, r)
      | none => none

/-- lazy search for an end pattern: least position at which `f` matches: (text, matched, extra, rest) -/
def findLazy {β : Type} (f : Str → Option (Str × β × Str)) : Str → Option (Str × Str × β × Str)
  | [] =>
    match f [] with
    | some (m, b, r) => some ([], m, b, r)
    | none => none
  | c :: cs =>
    match f (c :: cs) with
    | some (m, b, r) => some ([], m, b, r)
    | none =>
      match findLazy f cs with
      | some (t, m, b, r) => some (c :: t, m, b, r)
      | none => none

/-- `BS(\-|\+|)\s*endraw\s*(?:\+BE|\-BE\s*|BE\n?)`: (matched, sign, rest) -/
def matchEndRaw (cfg : Cfg) (s : Str) : Option (Str × Str × Str) :=
  match dropPrefix? cfg.blockStart s with
  | none => none
  | some r1 =>
    let (sign, r2) := takeSign r1
    let (w1, r3) := spanSpace r2
    match dropPrefix? ['e', 'n', 'd', 'r', 'a', 'w'] r3 with
    | none => none
    | some r4 =>
      let (w2, r5) := spanSpace r4
      match matchEnd3 cfg.trimBlocks cfg.blockEnd r5 with
      | none => none
      | some (e, r6) => some (cfg.blockStart ++ sign ++ w1 ++ ['e', 'n', 'd', 'r', 'a', 'w'] ++ w2 ++ e, sign, r6)

-- tag rules ---------------------------------------------------------------------------------------------

/-- `D(_D)*` maximal: digits with single underscores strictly between digit groups -/
def digitRunF : Nat → Str → Str × Str
  | 0, s => ([], s)
  | n + 1, s =>
    let d := s.takeWhile isDigit
    let r := s.dropWhile isDigit
    if d.isEmpty then ([], s)
    else match r with
      | '_' :: r2 =>
        let (d2, r3) := digitRunF n r2
        if d2.isEmpty then (d, r) else (d ++ '_' :: d2, r3)
      | _ => (d, r)

def digitRun (s : Str) : Str × Str := digitRunF s.length s

def isE (c : Char) : Bool := c == 'e' || c == 'E'

/-- `float_re` -/
def matchFloat (prev : Option Char) (s : Str) : Option (Str × Str) :=
  if prev == some '.' then none else
  let (ip, r1) := digitRun s
  if ip.isEmpty then none else
  -- optional fractional part
  let frac : Option (Str × Str) := match r1 with
    | '.' :: r2 => let (fp, r3) := digitRun r2; if fp.isEmpty then none else some ('.' :: fp, r3)
    | _ => none
  let expo (r : Str) : Option (Str × Str) := match r with
    | e :: r2 =>
      if isE e then
        let (sg, r3) := (match r2 with | '+' :: r' => (['+'], r') | '-' :: r' => (['-'], r') | _ => ([], r2))
        let (ep, r4) := digitRun r3
        if ep.isEmpty then none else some (e :: sg ++ ep, r4)
      else none
    | [] => none
  match frac with
  | some (f, rf) =>
    (match expo rf with
     | some (x, rx) => some (ip ++ f ++ x, rx)
     | none => some (ip ++ f, rf))     -- second alternative: required fractional part
  | none =>
    (match expo r1 with
     | some (x, rx) => some (ip ++ x, rx)
     | none => none)

/-- `(_?[digits])+` for a digit class -/
def uDigits (ok : Char → Bool) : Str → Str × Str
  | '_' :: c :: r => if ok c then let (d, r2) := uDigits ok r; ('_' :: c :: d, r2) else ([], '_' :: c :: r)
  | c :: r => if c != '_' && ok c then let (d, r2) := uDigits ok r; (c :: d, r2) else ([], c :: r)
  | [] => ([], [])

def lower (c : Char) : Char := if 'A' ≤ c && c ≤ 'Z' then Char.ofNat (c.toNat + 32) else c
def isBin (c : Char) : Bool := c == '0' || c == '1'
def isOct (c : Char) : Bool := '0' ≤ c && c ≤ '7'
def isHex (c : Char) : Bool := isDigit c || ('a' ≤ lower c && lower c ≤ 'f')

/-- `integer_re` (alternatives in order) -/
def matchInt (s : Str) : Option (Str × Str) :=
  let pref (x : Char) (ok : Char → Bool) : Option (Str × Str) :=
    match s with
    | z :: p :: r =>
      if z == '0' && lower p == x then
        let (d, r2) := uDigits ok r
        if d.isEmpty then none else some (z :: p :: d, r2)
      else none
    | _ => none
  match pref 'b' isBin with
  | some m => some m
  | none => match pref 'o' isOct with
    | some m => some m
    | none => match pref 'x' isHex with
      | some m => some m
      | none =>
        match s with
        | c :: r =>
          if '1' ≤ c && c ≤ '9' then let (d, r2) := uDigits isDigit r; some (c :: d, r2)
          else if c == '0' then let (d, r2) := uDigits (· == '0') r; some (c :: d, r2)
          else none
        | [] => none

def matchName (s : Str) : Option (Str × Str) :=
  let (w, r) := s.span isWord
  if w.isEmpty then none else some (w, r)

/-- body of a quoted string: up to the closing quote `q`, a backslash escapes any character -/
def strBody (q : Char) : Str → Option (Str × Str)
  | [] => none
  | '\\' :: c :: r => match strBody q r with
    | some (b, r2) => some ('\\' :: c :: b, r2)
    | none => none
  | ['\\'] => none
  | c :: r =>
    if c == q then some ([q], r)
    else match strBody q r with
      | some (b, r2) => some (c :: b, r2)
      | none => none

def matchString (s : Str) : Option (Str × Str) :=
  match s with
  | '\'' :: r => (strBody '\'' r).map fun (b, r2) => ('\'' :: b, r2)
  | '"' :: r => (strBody '"' r).map fun (b, r2) => ('"' :: b, r2)
  | _ => none

def ops2 : List Str := [['/', '/'], ['*', '*'], ['=', '='], ['!', '='], ['>', '='], ['<', '=']]
def ops1 : List Char := ['+', '-', '/', '*', '%', '~', '[', ']', '(', ')', '{', '}', '>', '<', '=', '.', ':', '|', ',', ';']

def matchOp (s : Str) : Option (Str × Str) :=
  match ops2.findSome? (fun o => (dropPrefix? o s).map fun r => (o, r)) with
  | some m => some m
  | none => match s with
    | c :: r => if ops1.contains c then some ([c], r) else none
    | [] => none

inductive TagRes where
  | tok (k : TK) (text : Str) (rest : Str)
  | none
  deriving Repr

def tagRule (prev : Option Char) (s : Str) : TagRes :=
  let (ws, r) := spanSpace s
  if !ws.isEmpty then .tok .whitespace ws r else
  match matchFloat prev s with
  | some (m, r) => .tok .float m r
  | none => match matchInt s with
    | some (m, r) => .tok .integer m r
    | none => match matchName s with
      | some (m, r) => .tok .name m r
      | none => match matchString s with
        | some (m, r) => .tok .string m r
        | none => match matchOp s with
          | some (m, r) => .tok .operator m r
          | none => .none

/-- `\s*(\n|$)`: the whitespace run up to and including its last newline, or to the end of input -/
def matchLineStmtEnd (s : Str) : Option (Str × Str) :=
  let (ws, r) := spanSpace s
  if r.isEmpty then some (ws, [])
  else
    let (upto, _) := splitLastNl ws
    if upto.isEmpty then none else some (upto, s.drop upto.length)

-- the main loop -----------------------------------------------------------------------------------------

inductive St where
  | root | comment | block | variable | raw | lineStmt | lineComment
  deriving Repr, DecidableEq

structure Loop where
  stack : List St              -- innermost first; the bottom `root` is implicit
  lineno : Nat
  lineStarting : Bool
  balancing : List Char
  prev : Option Char
  out : List Tok               -- reversed
  deriving Repr

def emit (l : Loop) (k : TK) (text : Str) (always : Bool) : Loop :=
  let l' := if always || !text.isEmpty then { l with out := ⟨l.lineno, k, text⟩ :: l.out } else l
  { l' with lineno := l'.lineno + countNl text }

def lastOr (s : Str) (d : Option Char) : Option Char := match s.getLast? with | some c => some c | none => d

/-- `OptionalLStrip` handling (lexer.py:727-756): (kept text, removed whitespace) -/
def lstripText (cfg : Cfg) (lineStarting : Bool) (isVariable : Bool) (sign : Str) (text : Str) : Str × Str :=
  if sign == ['-'] then rstrip text
  else if sign != ['+'] && cfg.lstripBlocks && !isVariable then
    let (upto, tail) := splitLastNl text
    if (!upto.isEmpty || lineStarting) && !tail.isEmpty && tail.all isSpace then (upto, tail) else (text, [])
  else (text, [])

def pushSt : RootKind → St
  | .raw => .raw | .comment => .comment | .block => .block | .variable => .variable
  | .lineStmt => .lineStmt | .lineComment => .lineComment

/-- balancing of brackets on operator tokens (lexer.py:797-817) -/
def balance (bal : List Char) (op : Str) : Except ErrKind (List Char) :=
  match op with
  | ['{'] => .ok ('}' :: bal)
  | ['('] => .ok (')' :: bal)
  | ['['] => .ok (']' :: bal)
  | [c] =>
    if c == '}' || c == ')' || c == ']' then
      match bal with
      | [] => .error (.unexpectedClose c)
      | e :: rest => if e == c then .ok rest else .error (.unexpectedCloseExpected c e)
    else .ok bal
  | _ => .ok bal

def tagStep (l : Loop) (s : Str) : Except (ErrKind × Nat) (Loop × Str) :=
  match tagRule l.prev s with
  | .tok k text rest =>
    let bal := if k == .operator then balance l.balancing text else .ok l.balancing
    match bal with
    | .error e => .error (e, l.lineno)
    | .ok b =>
      let l1 := emit { l with balancing := b } k text false
      .ok ({ l1 with lineStarting := text.getLast? == some '\n', prev := lastOr text l.prev }, rest)
  | .none =>
    match s with
    | c :: _ => .error (.unexpectedChar c, l.lineno)
    | [] => .ok (l, [])      -- unreachable: callers handle the end of input

def finish (l : Loop) : List Tok := l.out.reverse

def loop (cfg : Cfg) (alts : List RootKind) : Nat → Loop → Str → LexRes
  | 0, l, _ => .fuel (finish l)
  | fuel + 1, l, s =>
    let st := match l.stack with | t :: _ => t | [] => St.root
    let popped : Loop := { l with stack := l.stack.drop 1 }
    match st with
    | .root =>
      (match findRoot cfg alts l.prev s with
       | some (text, kind, matched, sign, rest) =>
         let (kept, removed) := lstripText cfg l.lineStarting (kind == .variable) sign text
         let l1 := emit l .data kept false
         let l2 := emit l1 .ghost removed false
         let l3 := emit l2 kind.tk matched true
         loop cfg alts fuel
           { l3 with stack := pushSt kind :: l3.stack, lineStarting := matched.getLast? == some '\n',
                     prev := lastOr matched (lastOr text l.prev) } rest
       | none =>
         if s.isEmpty then .ok (finish l)
         else .ok (finish (emit l .data s false)))       -- `.+`, then end of input
    | .comment =>
      (match findLazy (fun x => (matchEnd3 cfg.trimBlocks cfg.commentEnd x).map fun (m, r) => (m, (), r)) s with
       | some (text, matched, _, rest) =>
         let l1 := emit popped .comment text false
         let l2 := emit l1 .commentEnd matched true
         loop cfg alts fuel { l2 with lineStarting := matched.getLast? == some '\n', prev := lastOr matched l.prev } rest
       | none =>
         if s.isEmpty then .ok (finish l) else .syntaxError (finish l) .missingEndComment l.lineno)
    | .raw =>
      (match findLazy (fun x => (matchEndRaw cfg x).map fun (m, sg, r) => (m, sg, r)) s with
       | some (text, matched, sign, rest) =>
         let (kept, removed) := lstripText cfg l.lineStarting false sign text
         let l1 := emit popped .data kept false
         let l2 := emit l1 .ghost removed false
         let l3 := emit l2 .rawEnd matched true
         loop cfg alts fuel { l3 with lineStarting := matched.getLast? == some '\n', prev := lastOr matched l.prev } rest
       | none =>
         if s.isEmpty then .ok (finish l) else .syntaxError (finish l) .missingEndRaw l.lineno)
    | .lineComment =>
      let (text, rest) := s.span (· != '\n')
      let l1 := emit popped .lineComment text false
      let l2 := emit l1 .lineCommentEnd [] true
      loop cfg alts fuel { l2 with lineStarting := text.getLast? == some '\n', prev := lastOr text l.prev } rest
    | .block | .variable | .lineStmt =>
      let endMatch : Option (TK × Str × Str) :=
        if !l.balancing.isEmpty then none else
        match st with
        | .block => (matchEnd3 cfg.trimBlocks cfg.blockEnd s).map fun (m, r) => (TK.blockEnd, m, r)
        | .variable => (matchEndMinusOrPlain cfg.varEnd s).map fun (m, r) => (TK.variableEnd, m, r)
        | _ => (matchLineStmtEnd s).map fun (m, r) => (TK.lineStmtEnd, m, r)
      match endMatch with
      | some (k, matched, rest) =>
        let l1 := emit popped k matched true
        loop cfg alts fuel { l1 with lineStarting := matched.getLast? == some '\n', prev := lastOr matched l.prev } rest
      | none =>
        if s.isEmpty then .ok (finish l)
        else match tagStep l s with
          | .error (e, ln) => .syntaxError (finish l) e ln
          | .ok (l', rest) => loop cfg alts fuel l' rest

def initLoop : Loop :=
  { stack := [], lineno := 1, lineStarting := true, balancing := [], prev := none, out := [] }

/-- `Lexer.tokeniter(source)` (state = root) -/
def tokeniter (cfg : Cfg) (src : Str) : LexRes :=
  let s := preprocess cfg src
  loop cfg (rootAlts cfg) (2 * s.length + 4) initLoop s

/-- configurations for which the hand scanners are exact: delimiters and prefixes are non-empty and
    free of whitespace, so that no `\s*` in a rule can compete with them -/
def Cfg.Valid (cfg : Cfg) : Bool :=
  let ok (d : Str) : Bool := !d.isEmpty && d.all (fun c => !isSpace c)
  ok cfg.blockStart && ok cfg.blockEnd && ok cfg.varStart && ok cfg.varEnd && ok cfg.commentStart &&
  ok cfg.commentEnd && (match cfg.lineStmt with | some p => ok p | none => true) &&
  (match cfg.lineComment with | some p => ok p | none => true)

end JinjaV.Lex
