/-
  M-Lex: executable model of `jinja2.lexer.Lexer.tokeniter` (lexer.py:668-868) together with the
  rule set built in `Lexer.__init__` (lexer.py:480-591) and `compile_rules` (lexer.py:211-249).

  Strings are `List Char`.  Python's `re` is not modelled as an engine: each rule is a hand scanner
  that reproduces the regex's match (including the order of alternatives and the lazy `(.*?)` search)
  for configurations that satisfy `Cfg.Valid` (no delimiter/prefix contains whitespace).

  Besides the real tokens the model emits `ghost` tokens holding the whitespace that `-` signs and
  `lstrip_blocks` remove, so that losslessness can be stated on the token list itself.
-/
namespace JinjaV.Lex

abbrev Str := List Char

structure Cfg where
  blockStart : Str
  blockEnd : Str
  varStart : Str
  varEnd : Str
  commentStart : Str
  commentEnd : Str
  lineStmt : Option Str
  lineComment : Option Str
  trimBlocks : Bool
  lstripBlocks : Bool
  keepTrailingNl : Bool
  deriving Repr, DecidableEq

/-- `\s` / `str.isspace()` (measured: the 29 code points Python's `re` treats as whitespace) -/
def isSpace (c : Char) : Bool :=
  let n := c.toNat
  (9 ≤ n && n ≤ 13) || (28 ≤ n && n ≤ 32) || n == 0x85 || n == 0xa0 || n == 0x1680 ||
  (0x2000 ≤ n && n ≤ 0x200a) || n == 0x2028 || n == 0x2029 || n == 0x202f || n == 0x205f || n == 0x3000

def isDigit (c : Char) : Bool := '0' ≤ c && c ≤ '9'

/-- identifier characters: ASCII `\w` plus a few non-ASCII characters used by the generators
    (`é ö ü 中 ·`); other non-ASCII input is outside the model -/
def isWord (c : Char) : Bool :=
  ('a' ≤ c && c ≤ 'z') || ('A' ≤ c && c ≤ 'Z') || isDigit c || c == '_' ||
  c == 'é' || c == 'ö' || c == 'ü' || c == '中' || c == '·'

inductive TK where
  | data | blockBegin | blockEnd | variableBegin | variableEnd | rawBegin | rawEnd
  | commentBegin | comment | commentEnd | lineStmtBegin | lineStmtEnd
  | lineCommentBegin | lineComment | lineCommentEnd
  | whitespace | float | integer | name | string | operator
  | ghost
  deriving Repr, DecidableEq

structure Tok where
  lineno : Nat
  kind : TK
  text : Str
  deriving Repr, DecidableEq

inductive ErrKind where
  | missingEndComment | missingEndRaw
  | unexpectedClose (c : Char)
  | unexpectedCloseExpected (c e : Char)
  | unexpectedChar (c : Char)
  deriving Repr, DecidableEq

inductive LexRes where
  | ok (toks : List Tok)
  | syntaxError (toks : List Tok) (k : ErrKind) (lineno : Nat)   -- tokens yielded before the error
  | fuel (toks : List Tok)
  deriving Repr, DecidableEq

-- small string utilities ------------------------------------------------------------------------

def countNl (s : Str) : Nat := s.count '\n'

/-- `s` starts with `p`: the remainder -/
def dropPrefix? : Str → Str → Option Str
  | [], s => some s
  | _ :: _, [] => none
  | p :: ps, c :: cs => if p = c then dropPrefix? ps cs else none

/-- `(takeWhile p, dropWhile p)` -/
def spanP (p : Char → Bool) (s : Str) : Str × Str := (s.takeWhile p, s.dropWhile p)

def spanSpace (s : Str) : Str × Str := spanP isSpace s

/-- split off the maximal suffix whose characters satisfy `p`: (rest, suffix) -/
def splitTrailing (p : Char → Bool) (s : Str) : Str × Str :=
  let k := s.length - (s.reverse.takeWhile p).length
  (s.take k, s.drop k)

/-- `str.rstrip()`: (kept, removed) -/
def rstrip (s : Str) : Str × Str := splitTrailing isSpace s

/-- split after the last '\n': (up to and including it, after it); no newline: ([], s) -/
def splitLastNl (s : Str) : Str × Str := splitTrailing (· != '\n') s

-- preprocessing (lexer.py:683-688) -------------------------------------------------------------------

/-- `newline_re.split(source)[::2]` -/
def splitLines : Str → List Str
  | [] => [[]]
  | '\r' :: '\n' :: r => [] :: splitLines r
  | '\r' :: r => [] :: splitLines r
  | '\n' :: r => [] :: splitLines r
  | c :: r => match splitLines r with
    | l :: ls => (c :: l) :: ls
    | [] => [[c]]

def joinNl : List Str → Str
  | [] => []
  | [l] => l
  | l :: ls => l ++ '\n' :: joinNl ls

def preprocess (cfg : Cfg) (src : Str) : Str :=
  let lines := splitLines src
  let lines := if !cfg.keepTrailingNl && lines.getLast? == some [] then lines.dropLast else lines
  joinNl lines

-- root alternatives -----------------------------------------------------------------------------------

inductive RootKind where
  | raw | comment | block | vari | lineStmt | lineComment
  deriving Repr, DecidableEq

def RootKind.rank : RootKind → Nat   -- order of the token names, for `sorted(rules, reverse=True)`
  | .vari => 5 | .lineStmt => 4 | .lineComment => 3 | .comment => 2 | .block => 1 | .raw => 0

def RootKind.tk : RootKind → TK
  | .raw => .rawBegin | .comment => .commentBegin | .block => .blockBegin | .vari => .variableBegin
  | .lineStmt => .lineStmtBegin | .lineComment => .lineCommentBegin

/-- insertion into a list sorted descending by (length, rank) -/
def insertAlt (a : Nat × RootKind) : List (Nat × RootKind) → List (Nat × RootKind)
  | [] => [a]
  | b :: bs =>
    if a.1 > b.1 || (a.1 == b.1 && a.2.rank > b.2.rank) then a :: b :: bs else b :: insertAlt a bs

/-- alternatives of the root regex in order: raw first, then `compile_rules` -/
def rootAlts (cfg : Cfg) : List RootKind :=
  let base : List (Nat × RootKind) :=
    [(cfg.commentStart.length, .comment), (cfg.blockStart.length, .block), (cfg.varStart.length, .vari)]
  let base := match cfg.lineStmt with | some p => base ++ [(p.length, RootKind.lineStmt)] | none => base
  let base := match cfg.lineComment with | some p => base ++ [(p.length, RootKind.lineComment)] | none => base
  .raw :: (base.foldl (fun acc a => insertAlt a acc) []).map Prod.snd

/-- `(\-|\+|)` -/
def takeSign : Str → Str × Str
  | '-' :: r => (['-'], r)
  | '+' :: r => (['+'], r)
  | s => ([], s)

def isHSpace (c : Char) : Bool := isSpace c && c != '\r' && c != '\n'      -- `[^\S\r\n]`
def isBlank (c : Char) : Bool := c == ' ' || c == '\t' || c == '\x0b'        -- `[ \t\v]`

/-- tag end of the form `\-E\s*|E` (variable end, and the tail of `raw`): (matched, rest) -/
def matchEndMinusOrPlain (e : Str) (s : Str) : Option (Str × Str) :=
  let plain : Option (Str × Str) := (dropPrefix? e s).map fun r2 => (e, r2)
  match s with
  | '-' :: r =>
    (match dropPrefix? e r with
     | some r2 => some ('-' :: e ++ (spanSpace r2).1, (spanSpace r2).2)
     | none => plain)
  | _ => plain

/-- `E\n?` -/
def matchPlainNl (trim : Bool) (e : Str) (s : Str) : Option (Str × Str) :=
  match dropPrefix? e s with
  | some r2 =>
    (match trim, r2 with
     | true, '\n' :: r3 => some (e ++ ['\n'], r3)
     | _, _ => some (e, r2))
  | none => none

/-- tag end of the form `\+E|\-E\s*|E\n?` (block end, comment end, endraw): (matched, rest) -/
def matchEnd3 (trim : Bool) (e : Str) (s : Str) : Option (Str × Str) :=
  match s with
  | '+' :: r =>
    (match dropPrefix? e r with
     | some r2 => some ('+' :: e, r2)
     | none => matchPlainNl trim e s)
  | '-' :: r =>
    (match dropPrefix? e r with
     | some r2 => some ('-' :: e ++ (spanSpace r2).1, (spanSpace r2).2)
     | none => matchPlainNl trim e s)
  | _ => matchPlainNl trim e s

/-- `BS(\-|\+|)\s*KW\s*` followed by `tail`: (matched, sign, rest) -/
def matchKeywordTag (bs kw : Str) (tail : Str → Option (Str × Str)) (s : Str) : Option (Str × Str × Str) :=
  match dropPrefix? bs s with
  | none => none
  | some r1 =>
    match dropPrefix? kw (spanSpace (takeSign r1).2).2 with
    | none => none
    | some r4 =>
      match tail (spanSpace r4).2 with
      | none => none
      | some er => some (bs ++ (takeSign r1).1 ++ (spanSpace (takeSign r1).2).1 ++ kw ++ (spanSpace r4).1 ++ er.1,
                         (takeSign r1).1, er.2)

/-- a plain delimiter followed by the optional sign: (matched, sign, rest) -/
def matchDelim (d : Str) (s : Str) : Option (Str × Str × Str) :=
  match dropPrefix? d s with
  | none => none
  | some r1 => some (d ++ (takeSign r1).1, (takeSign r1).1, (takeSign r1).2)

/-- optional horizontal blanks (class `bl`), the prefix, the optional sign -/
def matchPrefixed (bl : Char → Bool) (p : Str) (s : Str) : Option (Str × Str × Str) :=
  match dropPrefix? p (spanP bl s).2 with
  | none => none
  | some r2 => some ((spanP bl s).1 ++ p ++ (takeSign r2).1, (takeSign r2).1, (takeSign r2).2)

/-- one alternative of the root regex at the current position.
    `prev` is the character before the position (for `^` and the look-behind).
    Returns (matched text, sign, rest). -/
def matchAlt (cfg : Cfg) (prev : Option Char) (s : Str) : RootKind → Option (Str × Str × Str)
  | .raw => matchKeywordTag cfg.blockStart ['r', 'a', 'w'] (matchEndMinusOrPlain cfg.blockEnd) s
  | .comment => matchDelim cfg.commentStart s
  | .block => matchDelim cfg.blockStart s
  | .vari => matchDelim cfg.varStart s
  | .lineStmt =>
    match cfg.lineStmt with
    | none => none
    | some p => if prev == none || prev == some '\n' then matchPrefixed isBlank p s else none
  | .lineComment =>
    match cfg.lineComment with
    | none => none
    | some p =>
      if prev == none || prev == some '\n' || (match prev with | some c => !isSpace c | none => false)
      then matchPrefixed isHSpace p s else none

def firstAlt (cfg : Cfg) (prev : Option Char) (s : Str) : List RootKind → Option (RootKind × Str × Str × Str)
  | [] => none
  | k :: ks => match matchAlt cfg prev s k with
    | some (m, sg, r) => some (k, m, sg, r)
    | none => firstAlt cfg prev s ks

/-- the lazy `(.*?)(?:…)`: least position at which some alternative matches.
    Returns (text, kind, matched, sign, rest). -/
def findRoot (cfg : Cfg) (alts : List RootKind) : Option Char → Str → Option (Str × RootKind × Str × Str × Str)
  | prev, [] =>
    match firstAlt cfg prev [] alts with
    | some (k, m, sg, r) => some ([], k, m, sg, r)
    | none => none
  | prev, c :: cs =>
    match firstAlt cfg prev (c :: cs) alts with
    | some (k, m, sg, r) => some ([], k, m, sg, r)
    | none =>
      match findRoot cfg alts (some c) cs with
      | some (t, k, m, sg, r) => some (c :: t, k, m, sg, r)
      | none => none

/-- lazy search for an end pattern: least position at which `f` matches: (text, matched, extra, rest) -/
def findLazy {β : Type} (f : Str → Option (Str × β × Str)) : Str → Option (Str × Str × β × Str)
  | [] =>
    match f [] with
    | some (m, b, r) => some ([], m, b, r)
    | none => none
  | c :: cs =>
    match f (c :: cs) with
    | some (m, b, r) => some ([], m, b, r)
    | none =>
      match findLazy f cs with
      | some (t, m, b, r) => some (c :: t, m, b, r)
      | none => none

/-- `BS(\-|\+|)\s*endraw\s*(?:\+BE|\-BE\s*|BE\n?)`: (matched, sign, rest) -/
def matchEndRaw (cfg : Cfg) (s : Str) : Option (Str × Str × Str) :=
  matchKeywordTag cfg.blockStart ['e', 'n', 'd', 'r', 'a', 'w'] (matchEnd3 cfg.trimBlocks cfg.blockEnd) s

-- tag rules ---------------------------------------------------------------------------------------------

/-- `D(_D)*` maximal: digits with single underscores strictly between digit groups -/
def digitRunF : Nat → Str → Str × Str
  | 0, s => ([], s)
  | n + 1, s =>
    if (s.takeWhile isDigit).isEmpty then ([], s)
    else match s.dropWhile isDigit with
      | '_' :: r2 =>
        if (digitRunF n r2).1.isEmpty then (s.takeWhile isDigit, s.dropWhile isDigit)
        else (s.takeWhile isDigit ++ '_' :: (digitRunF n r2).1, (digitRunF n r2).2)
      | _ => (s.takeWhile isDigit, s.dropWhile isDigit)

def digitRun (s : Str) : Str × Str := digitRunF s.length s

def isE (c : Char) : Bool := c == 'e' || c == 'E'

/-- `\.D(_D)*` -/
def matchFrac (s : Str) : Option (Str × Str) :=
  match s with
  | '.' :: r2 => if (digitRun r2).1.isEmpty then none else some ('.' :: (digitRun r2).1, (digitRun r2).2)
  | _ => none

/-- `[+\-]?` -/
def takeExpSign : Str → Str × Str
  | '+' :: r => (['+'], r)
  | '-' :: r => (['-'], r)
  | s => ([], s)

/-- `e[+\-]?D(_D)*` -/
def matchExpo (s : Str) : Option (Str × Str) :=
  match s with
  | e :: r2 =>
    if isE e then
      if (digitRun (takeExpSign r2).2).1.isEmpty then none
      else some (e :: (takeExpSign r2).1 ++ (digitRun (takeExpSign r2).2).1, (digitRun (takeExpSign r2).2).2)
    else none
  | [] => none

/-- `float_re` -/
def matchFloat (prev : Option Char) (s : Str) : Option (Str × Str) :=
  if prev == some '.' then none else
  if (digitRun s).1.isEmpty then none else
  match matchFrac (digitRun s).2 with
  | some f =>
    (match matchExpo f.2 with
     | some x => some ((digitRun s).1 ++ f.1 ++ x.1, x.2)
     | none => some ((digitRun s).1 ++ f.1, f.2))     -- second alternative: required fractional part
  | none =>
    (match matchExpo (digitRun s).2 with
     | some x => some ((digitRun s).1 ++ x.1, x.2)
     | none => none)

/-- `(_?[digits])+` for a digit class -/
def uDigits (ok : Char → Bool) : Str → Str × Str
  | '_' :: c :: r => if ok c then ('_' :: c :: (uDigits ok r).1, (uDigits ok r).2) else ([], '_' :: c :: r)
  | c :: r => if c != '_' && ok c then (c :: (uDigits ok r).1, (uDigits ok r).2) else ([], c :: r)
  | [] => ([], [])

def lower (c : Char) : Char := if 'A' ≤ c && c ≤ 'Z' then Char.ofNat (c.toNat + 32) else c
def isBin (c : Char) : Bool := c == '0' || c == '1'
def isOct (c : Char) : Bool := '0' ≤ c && c ≤ '7'
def isHex (c : Char) : Bool := isDigit c || ('a' ≤ lower c && lower c ≤ 'f')

/-- `0[bB](_?[01])+` and friends -/
def matchPrefInt (x : Char) (ok : Char → Bool) (s : Str) : Option (Str × Str) :=
  match s with
  | z :: p :: r =>
    if z == '0' && lower p == x then
      if (uDigits ok r).1.isEmpty then none else some (z :: p :: (uDigits ok r).1, (uDigits ok r).2)
    else none
  | _ => none

/-- `[1-9](_?\d)*` | `0(_?0)*` -/
def matchDecInt (s : Str) : Option (Str × Str) :=
  match s with
  | c :: r =>
    if '1' ≤ c && c ≤ '9' then some (c :: (uDigits isDigit r).1, (uDigits isDigit r).2)
    else if c == '0' then some (c :: (uDigits (· == '0') r).1, (uDigits (· == '0') r).2)
    else none
  | [] => none

/-- `integer_re` (alternatives in order) -/
def matchInt (s : Str) : Option (Str × Str) :=
  match matchPrefInt 'b' isBin s with
  | some m => some m
  | none => match matchPrefInt 'o' isOct s with
    | some m => some m
    | none => match matchPrefInt 'x' isHex s with
      | some m => some m
      | none => matchDecInt s

def matchName (s : Str) : Option (Str × Str) :=
  if (s.takeWhile isWord).isEmpty then none else some (s.takeWhile isWord, s.dropWhile isWord)

/-- body of a quoted string: up to the closing quote `q`, a backslash escapes any character -/
def strBody (q : Char) : Str → Option (Str × Str)
  | [] => none
  | '\\' :: c :: r => match strBody q r with
    | some (b, r2) => some ('\\' :: c :: b, r2)
    | none => none
  | ['\\'] => none
  | c :: r =>
    if c == q then some ([q], r)
    else match strBody q r with
      | some (b, r2) => some (c :: b, r2)
      | none => none

def matchString (s : Str) : Option (Str × Str) :=
  match s with
  | '\'' :: r => (strBody '\'' r).map fun (b, r2) => ('\'' :: b, r2)
  | '"' :: r => (strBody '"' r).map fun (b, r2) => ('"' :: b, r2)
  | _ => none

def ops2 : List Str := [['/', '/'], ['*', '*'], ['=', '='], ['!', '='], ['>', '='], ['<', '=']]
def ops1 : List Char := ['+', '-', '/', '*', '%', '~', '[', ']', '(', ')', '{', '}', '>', '<', '=', '.', ':', '|', ',', ';']

def matchOp (s : Str) : Option (Str × Str) :=
  match ops2.findSome? (fun o => (dropPrefix? o s).map fun r => (o, r)) with
  | some m => some m
  | none => match s with
    | c :: r => if ops1.contains c then some ([c], r) else none
    | [] => none

inductive TagRes where
  | tok (k : TK) (text : Str) (rest : Str)
  | none
  deriving Repr

def tagRule (prev : Option Char) (s : Str) : TagRes :=
  if !(spanSpace s).1.isEmpty then .tok .whitespace (spanSpace s).1 (spanSpace s).2 else
  match matchFloat prev s with
  | some m => .tok .float m.1 m.2
  | none => match matchInt s with
    | some m => .tok .integer m.1 m.2
    | none => match matchName s with
      | some m => .tok .name m.1 m.2
      | none => match matchString s with
        | some m => .tok .string m.1 m.2
        | none => match matchOp s with
          | some m => .tok .operator m.1 m.2
          | none => .none

/-- `\s*(\n|$)`: the whitespace run up to and including its last newline, or to the end of input -/
def matchLineStmtEnd (s : Str) : Option (Str × Str) :=
  if (spanSpace s).2.isEmpty then some ((spanSpace s).1, (spanSpace s).2)
  else if (splitLastNl (spanSpace s).1).1.isEmpty then none
  else some ((splitLastNl (spanSpace s).1).1, (splitLastNl (spanSpace s).1).2 ++ (spanSpace s).2)

-- the main loop -----------------------------------------------------------------------------------------

inductive St where
  | root | comment | block | vari | raw | lineStmt | lineComment
  deriving Repr, DecidableEq

structure Loop where
  stack : List St              -- innermost first; the bottom `root` is implicit
  lineno : Nat
  lineStarting : Bool
  balancing : List Char
  prev : Option Char
  out : List Tok               -- reversed
  deriving Repr

def emit (l : Loop) (k : TK) (text : Str) (always : Bool) : Loop :=
  let l' := if always || !text.isEmpty then { l with out := ⟨l.lineno, k, text⟩ :: l.out } else l
  { l' with lineno := l'.lineno + countNl text }

def lastOr (s : Str) (d : Option Char) : Option Char := match s.getLast? with | some c => some c | none => d

/-- `OptionalLStrip` handling (lexer.py:727-756): (kept text, removed whitespace) -/
def lstripText (cfg : Cfg) (lineStarting : Bool) (isVariable : Bool) (sign : Str) (text : Str) : Str × Str :=
  if sign == ['-'] then rstrip text
  else if sign != ['+'] && cfg.lstripBlocks && !isVariable then
    let (upto, tail) := splitLastNl text
    if (!upto.isEmpty || lineStarting) && !tail.isEmpty && tail.all isSpace then (upto, tail) else (text, [])
  else (text, [])

def pushSt : RootKind → St
  | .raw => .raw | .comment => .comment | .block => .block | .vari => .vari
  | .lineStmt => .lineStmt | .lineComment => .lineComment

/-- balancing of brackets on operator tokens (lexer.py:797-817) -/
def balance (bal : List Char) (op : Str) : Except ErrKind (List Char) :=
  match op with
  | ['{'] => .ok ('}' :: bal)
  | ['('] => .ok (')' :: bal)
  | ['['] => .ok (']' :: bal)
  | [c] =>
    if c == '}' || c == ')' || c == ']' then
      match bal with
      | [] => .error (.unexpectedClose c)
      | e :: rest => if e == c then .ok rest else .error (.unexpectedCloseExpected c e)
    else .ok bal
  | _ => .ok bal

/-- only operator tokens take part in the bracket balancing -/
def balanceFor (k : TK) (bal : List Char) (text : Str) : Except ErrKind (List Char) :=
  if k == .operator then balance bal text else .ok bal

def tagStep (l : Loop) (s : Str) : Except (ErrKind × Nat) (Loop × Str) :=
  match tagRule l.prev s with
  | .tok k text rest =>
    match balanceFor k l.balancing text with
    | .error e => .error (e, l.lineno)
    | .ok b =>
      let l1 := emit { l with balancing := b } k text false
      .ok ({ l1 with lineStarting := text.getLast? == some '\n', prev := lastOr text l.prev }, rest)
  | .none =>
    match s with
    | c :: _ => .error (.unexpectedChar c, l.lineno)
    | [] => .ok (l, [])      -- unreachable: callers handle the end of input

def finish (l : Loop) : List Tok := l.out.reverse

inductive StepRes where
  | cont (l : Loop) (rest : Str)
  | done (r : LexRes)

/-- one iteration of the `while True` loop: the first rule of the current state that matches -/
def step (cfg : Cfg) (alts : List RootKind) (l : Loop) (s : Str) : StepRes :=
  let st := match l.stack with | t :: _ => t | [] => St.root
  let popped : Loop := { l with stack := l.stack.drop 1 }
  match st with
  | .root =>
    (match findRoot cfg alts l.prev s with
     | some (text, kind, matched, sign, rest) =>
       let kr := lstripText cfg l.lineStarting (kind == .vari) sign text
       let l1 := emit l .data kr.1 false
       let l2 := emit l1 .ghost kr.2 false
       let l3 := emit l2 kind.tk matched true
       .cont { l3 with stack := pushSt kind :: l3.stack, lineStarting := matched.getLast? == some '\n',
                       prev := lastOr matched (lastOr text l.prev) } rest
     | none =>
       if s.isEmpty then .done (.ok (finish l))
       else .done (.ok (finish (emit l .data s false))))       -- `.+`, then end of input
  | .comment =>
    (match findLazy (fun x => (matchEnd3 cfg.trimBlocks cfg.commentEnd x).map fun (m, r) => (m, (), r)) s with
     | some (text, matched, _, rest) =>
       let l1 := emit popped .comment text false
       let l2 := emit l1 .commentEnd matched true
       .cont { l2 with lineStarting := matched.getLast? == some '\n', prev := lastOr matched l.prev } rest
     | none =>
       if s.isEmpty then .done (.ok (finish l)) else .done (.syntaxError (finish l) .missingEndComment l.lineno))
  | .raw =>
    (match findLazy (fun x => (matchEndRaw cfg x).map fun (m, sg, r) => (m, sg, r)) s with
     | some (text, matched, sign, rest) =>
       let kr := lstripText cfg l.lineStarting false sign text
       let l1 := emit popped .data kr.1 false
       let l2 := emit l1 .ghost kr.2 false
       let l3 := emit l2 .rawEnd matched true
       .cont { l3 with lineStarting := matched.getLast? == some '\n', prev := lastOr matched l.prev } rest
     | none =>
       if s.isEmpty then .done (.ok (finish l)) else .done (.syntaxError (finish l) .missingEndRaw l.lineno))
  | .lineComment =>
    let tr := spanP (· != '\n') s
    let l1 := emit popped .lineComment tr.1 false
    let l2 := emit l1 .lineCommentEnd [] true
    .cont { l2 with lineStarting := tr.1.getLast? == some '\n', prev := lastOr tr.1 l.prev } tr.2
  | _ =>   -- block, variable, line statement: an end rule, then the shared tag rules
    let endMatch : Option (TK × Str × Str) :=
      if !l.balancing.isEmpty then none else
      match st with
      | .block => (matchEnd3 cfg.trimBlocks cfg.blockEnd s).map fun (m, r) => (TK.blockEnd, m, r)
      | .vari => (matchEndMinusOrPlain cfg.varEnd s).map fun (m, r) => (TK.variableEnd, m, r)
      | _ => (matchLineStmtEnd s).map fun (m, r) => (TK.lineStmtEnd, m, r)
    match endMatch with
    | some (k, matched, rest) =>
      let l1 := emit popped k matched true
      .cont { l1 with lineStarting := matched.getLast? == some '\n', prev := lastOr matched l.prev } rest
    | none =>
      if s.isEmpty then .done (.ok (finish l))
      else match tagStep l s with
        | .error (e, ln) => .done (.syntaxError (finish l) e ln)
        | .ok (l', rest) => .cont l' rest

def loop (cfg : Cfg) (alts : List RootKind) : Nat → Loop → Str → LexRes
  | 0, l, _ => .fuel (finish l)
  | fuel + 1, l, s =>
    match step cfg alts l s with
    | .cont l' rest => loop cfg alts fuel l' rest
    | .done r => r

def initLoop : Loop :=
  { stack := [], lineno := 1, lineStarting := true, balancing := [], prev := none, out := [] }

/-- `Lexer.tokeniter(source)` (state = root) -/
def tokeniter (cfg : Cfg) (src : Str) : LexRes :=
  let s := preprocess cfg src
  loop cfg (rootAlts cfg) (2 * s.length + 4) initLoop s

/-- configurations for which the hand scanners are exact: delimiters and prefixes are non-empty and
    free of whitespace, so that no `\s*` in a rule can compete with them -/
def Cfg.Valid (cfg : Cfg) : Bool :=
  let ok (d : Str) : Bool := !d.isEmpty && d.all (fun c => !isSpace c)
  ok cfg.blockStart && ok cfg.blockEnd && ok cfg.varStart && ok cfg.varEnd && ok cfg.commentStart &&
  ok cfg.commentEnd && (match cfg.lineStmt with | some p => ok p | none => true) &&
  (match cfg.lineComment with | some p => ok p | none => true)

end JinjaV.Lex
