/-
  M-Rt / Stream: `TemplateStream._buffered_generator` (environment.py:1629-1645).

  `gen` is the list of pieces the underlying generator will still yield, `buf` the
  pieces collected for the chunk in progress and `c` the number of non-empty pieces
  among them (`c_size`).  The model returns the *groups* of pieces; the chunks the
  real generator yields are `groups.map String.join` (`concat(buf)`).
-/
namespace JinjaV.Stream

/-- number of non-empty pieces -/
def ne (l : List String) : Nat := (l.filter (fun p => p != "")).length

def groupsAux (size : Nat) : List String → List String → Nat → List (List String)
  | [], buf, c => if c = 0 then [] else [buf]              -- StopIteration: `if not c_size: return`
  | p :: r, buf, c =>
    let buf' := buf ++ [p]
    let c' := if p = "" then c else c + 1
    if c' ≥ size then buf' :: groupsAux size r [] 0         -- `yield concat(buf); del buf[:]; c_size = 0`
    else groupsAux size r buf' c'

def groups (size : Nat) (pieces : List String) : List (List String) := groupsAux size pieces [] 0

/-- what iterating the buffered stream yields -/
def buffered (size : Nat) (pieces : List String) : List String := (groups size pieces).map String.join

/-- `concat` -/
def concat (pieces : List String) : String := String.join pieces

end JinjaV.Stream
