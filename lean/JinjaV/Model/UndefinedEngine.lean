/-
  M-Rt / UndefinedEngine: the operations of the undefined-type table performed THROUGH THE ENGINE
  (a template expression on an undefined value), not by a direct Python call on the object.

  Between the template operator and the special method of the undefined class sits engine code that
  guards the operation with `try/except`: Environment.getitem / getattr (environment.py:467-492),
  SandboxedEnvironment.getitem / getattr (sandbox.py:293-332), filters.do_attr / do_int / do_float
  (filters.py:1415-1430, 990-1010), tests.test_iterable (tests.py:193-200), Context.call
  (runtime.py:266-311).  Whether the UndefinedError raised by the object reaches the caller depends on
  the `except` tuples of those functions and on the exception class hierarchy; both are READ from the
  source on every run (Gen/ExceptionClasses.lean; the translator checks that the body of each function
  has exactly the shape transcribed here, with the tuples as the only parameters).

  `run` is the transcription (table of Gen/UndefinedTable + handlers of Gen/ExceptionClasses);
  `runSpec` is the documented behaviour (docs/api.rst "Undefined Types": an operation on an undefined
  either succeeds with the documented value or raises UndefinedError naming what is missing; only
  ChainableUndefined keeps returning itself for attribute and item access).
-/
import JinjaV.Gen.ExceptionClasses
import JinjaV.Model.UndefinedOps

namespace JinjaV.UndefinedEngine
open JinjaV.SpecUndefined JinjaV.UndefinedOps
open JinjaV.Gen.ExceptionClasses (classes builtinClasses sites caughtBuiltins undefinedException)

/-! ### exception class hierarchy (Python `issubclass` over the tables read from the source) -/

def basesOf (c : String) : List String :=
  match classes.lookup c with
  | some bs => bs
  | none => (builtinClasses.lookup c).getD []

/-- `c` and everything reachable through base classes, to depth `fuel` -/
def ancestorsFuel : Nat → String → List String
  | 0, c => [c]
  | n + 1, c => c :: (basesOf c).flatMap (ancestorsFuel n)

/-- depth bound; `hierarchy_closed` (Props/C21Engine.lean) proves one more level adds nothing -/
def depth : Nat := 8

def ancestors (c : String) : List String := (ancestorsFuel depth c).eraseDups
def isSubclass (c b : String) : Bool := (ancestors c).contains b

/-- `except caught:` catches an exception of class `exc` -/
def catches (caught : List String) (exc : String) : Bool := caught.any (isSubclass exc)

def sameSet (a b : List String) : Bool := a.all b.contains && b.all a.contains

def handler (site : String) (i : Nat) : List String := ((sites.lookup site).getD []).getD i []

/-- handler `i` of `site` catches what an undefined value raises -/
def caughtUE (site : String) (i : Nat) : Bool := catches (handler site i) undefinedException

/-- `hasattr(obj, n)` / `getattr(obj, n, default)` swallow AttributeError only (CPython) -/
def probeSwallowsUE : Bool := isSubclass undefinedException "AttributeError"

/-! ### template expressions on an undefined value -/

inductive EnvKind where
  | plain | sandbox
  deriving Repr, DecidableEq

/-- one access step applied to the value -/
inductive Acc where
  | attr         -- `X.k`          → environment.getattr(X, "k")
  | itemStr      -- `X['k']`       → environment.getitem(X, "k")     (also map(attribute="k"))
  | itemOther    -- `X[0]`, `X[(1, 2)]`, `X[none]`, `X[i]` → environment.getitem(X, key), key not a str (also map(attribute="0"))
  | slice        -- `X[1:2]`       → `X[slice(1, 2, None)]` directly (compiler.py visit_Getitem)
  | attrFilter   -- `X|attr('k')`  → filters.do_attr
  deriving Repr, DecidableEq

def allAccs : List Acc := [.attr, .itemStr, .itemOther, .slice, .attrFilter]

inductive BinOp where
  | add | sub | mul | truediv | floordiv | mod | pow | lt | le | gt | ge
  deriving Repr, DecidableEq

def allBinOps : List BinOp := [.add, .sub, .mul, .truediv, .floordiv, .mod, .pow, .lt, .le, .gt, .ge]

/-- the special method Python calls on the undefined operand (`reflected`: the undefined is the right operand and the
    left one, an int, returns NotImplemented) -/
def BinOp.op : BinOp → Bool → Op
  | .add, false => .add | .add, true => .radd
  | .sub, false => .sub | .sub, true => .rsub
  | .mul, false => .mul | .mul, true => .rmul
  | .truediv, false => .truediv | .truediv, true => .rtruediv
  | .floordiv, false => .floordiv | .floordiv, true => .rfloordiv
  | .mod, false => .mod | .mod, true => .rmod
  | .pow, false => .pow | .pow, true => .rpow
  | .lt, false => .lt | .lt, true => .gt
  | .le, false => .le | .le, true => .ge
  | .gt, false => .gt | .gt, true => .lt
  | .ge, false => .ge | .ge, true => .le

/-- the operation finally applied (template text in harness/props/c21.py `FINALS`) -/
inductive Final where
  | print | ifElse | notOp | andPrint | forLoop | length | count | list | string | concat | escapeF | trim
  | intF | floatF | default | defaultBool | isDefined | isUndefined | isNone | isIterable
  | inOp | notInOp | eqOp | neOp | eqSelf | reqOp | rneOp | testEq | inList
  | bin (o : BinOp) (reflected : Bool) | pos | neg | call | join | hashKey | sum | sort
  deriving Repr, DecidableEq

def allFinals : List Final :=
  [.print, .ifElse, .notOp, .andPrint, .forLoop, .length, .count, .list, .string, .concat, .escapeF, .trim,
   .intF, .floatF, .default, .defaultBool, .isDefined, .isUndefined, .isNone, .isIterable,
   .inOp, .notInOp, .eqOp, .neOp, .eqSelf, .reqOp, .rneOp, .testEq, .inList,
   .pos, .neg, .call, .join, .hashKey, .sum, .sort]
  ++ allBinOps.flatMap (fun o => [.bin o false, .bin o true])

/-- which undefined value an expression holds: the one the route produced, or a new one made by the engine
    (`environment.undefined(obj=<the undefined>, name=key)`), whose message no longer names what was missing -/
inductive Val where
  | orig | fresh
  deriving Repr, DecidableEq

inductive Piece where
  | lit (s : String)
  | dbg                 -- DebugUndefined's `{{ … }}` text
  deriving Repr, DecidableEq

inductive FOut where
  | raises (namesOrigin : Bool)                    -- UndefinedError; does its message name the missing thing
  | text (ps : List Piece) (namesOrigin : Bool)    -- rendered output
  | oom                                            -- outside the model (a table outcome the engine model does not expect)
  deriving Repr, DecidableEq

inductive Step where
  | same | fresh | raise | oom
  deriving Repr, DecidableEq

/-- what the engine's guards do with the undefined exception -/
structure Guards where
  ue : String → Nat → Bool      -- handler i of the site catches it
  probe : Bool                  -- hasattr / 3-argument getattr swallow it

/-- the guards as READ from the source -/
def srcGuards : Guards := { ue := caughtUE, probe := probeSwallowsUE }
/-- the documented engine: an UndefinedError raised by the value reaches the caller -/
def transparent : Guards := { ue := fun _ _ => false, probe := false }

section steps
variable (tbl : Kind → Op → Outcome) (g : Guards)

/-- Environment.getitem (environment.py:467-479) -/
def plainGetitem (k : Kind) (keyStr : Bool) : Step :=
  match tbl k .getitem with
  | .itself => .same
  | .raisesUndefined =>
    if g.ue "Environment.getitem" 0 then
      if keyStr then
        match tbl k .getattr with
        | .itself => .same
        | .raisesUndefined => if g.ue "Environment.getitem" 1 then .fresh else .raise
        | _ => .oom
      else .fresh
    else .raise
  | _ => .oom

/-- Environment.getattr (environment.py:481-492) -/
def plainGetattr (k : Kind) : Step :=
  match tbl k .getattr with
  | .itself => .same
  | .raisesUndefined =>
    if g.ue "Environment.getattr" 0 then
      match tbl k .getitem with
      | .itself => .same
      | .raisesUndefined => if g.ue "Environment.getattr" 1 then .fresh else .raise
      | _ => .oom
    else .raise
  | _ => .oom

/-- SandboxedEnvironment.getitem (sandbox.py:293-312); a plain attribute name is a safe attribute -/
def sandboxGetitem (k : Kind) (keyStr : Bool) : Step :=
  match tbl k .getitem with
  | .itself => .same
  | .raisesUndefined =>
    if g.ue "SandboxedEnvironment.getitem" 0 then
      if keyStr then
        match tbl k .getattr with
        | .itself => .same
        | .raisesUndefined => if g.ue "SandboxedEnvironment.getitem" 1 then .fresh else .raise
        | _ => .oom
      else .fresh
    else .raise
  | _ => .oom

/-- SandboxedEnvironment.getattr (sandbox.py:314-332) -/
def sandboxGetattr (k : Kind) : Step :=
  match tbl k .getattr with
  | .itself => .same
  | .raisesUndefined =>
    if g.ue "SandboxedEnvironment.getattr" 0 then
      match tbl k .getitem with
      | .itself => .same
      | .raisesUndefined => if g.ue "SandboxedEnvironment.getattr" 1 then .fresh else .raise
      | _ => .oom
    else .raise
  | _ => .oom

def envGetattr : EnvKind → Kind → Step
  | .plain, k => plainGetattr tbl g k
  | .sandbox, k => sandboxGetattr tbl g k

def envGetitem : EnvKind → Kind → Bool → Step
  | .plain, k, s => plainGetitem tbl g k s
  | .sandbox, k, s => sandboxGetitem tbl g k s

/-- filters.do_attr (filters.py:1415-1430): `getattr_static` finds no static attribute on an undefined value and raises
    AttributeError; `hasattr` then runs `__getattr__` -/
def attrFilter (e : EnvKind) (k : Kind) : Step :=
  if catches (handler "do_attr" 0) "AttributeError" then
    match tbl k .getattr with
    | .itself => envGetattr tbl g e k
    | .raisesUndefined => if g.probe then .fresh else .raise
    | _ => .oom
  else .oom

def step (e : EnvKind) (k : Kind) : Acc → Step
  | .attr => envGetattr tbl g e k
  | .itemStr => envGetitem tbl g e k true
  | .itemOther => envGetitem tbl g e k false
  | .slice =>
    match tbl k .getitem with
    | .itself => .same
    | .raisesUndefined => .raise
    | _ => .oom
  | .attrFilter => attrFilter tbl g e k

/-- the outcome is a value (the operation succeeded) -/
def isValue : Outcome → Bool
  | .raisesUndefined | .attributeError | .itself | .stringOfSelf | .reprUndefined => false
  | _ => true

/-- perform table operations in order: `none` all succeeded, `some true` one raised UndefinedError, `some false` outside the model -/
def perform (k : Kind) : List Op → Option Bool
  | [] => none
  | op :: rest =>
    match tbl k op with
    | .raisesUndefined => some true
    | o => if isValue o then perform k rest else some false

def strPiece (k : Kind) : Piece := if tbl k .str = .debugString then .dbg else .lit ""

/-- the final operations that are a fixed sequence of special-method calls and a text -/
def simpleFinal (isAsync : Bool) (k : Kind) : Final → Option (List Op × List Piece)
  | .print => some ([.str], [.lit "[", strPiece tbl k, .lit "]"])
  | .ifElse => some ([.bool], [.lit "F"])
  | .notOp => some ([.bool], [.lit "True"])
  | .andPrint => some ([.bool, .str], [.lit "[", strPiece tbl k, .lit "]"])
  | .forLoop => some ([if isAsync then .aiter else .iter], [.lit "[]"])
  | .length => some ([.len], [.lit "0"])
  | .count => some ([.len], [.lit "0"])
  | .list => some ([if isAsync then .aiter else .iter], [.lit "[]"])
  | .string => some ([.str], [.lit "[", strPiece tbl k, .lit "]"])
  | .concat => some ([.str], [.lit "[", strPiece tbl k, .lit "a]"])
  | .escapeF => some ([.str], [.lit "[", strPiece tbl k, .lit "]"])
  | .trim => some ([.str], [.lit "[", strPiece tbl k, .lit "]"])
  | .default => some ([], [.lit "d"])
  | .defaultBool => some ([], [.lit "d"])
  | .isDefined => some ([], [.lit "False"])
  | .isUndefined => some ([], [.lit "True"])
  | .isNone => some ([], [.lit "False"])
  | .inOp => some ([.contains], [.lit "False"])
  | .notInOp => some ([.contains], [.lit "True"])
  | .eqOp => some ([.eq], [.lit "False"])
  | .neOp => some ([.ne], [.lit "True"])
  | .eqSelf => some ([.eq], [.lit "True"])
  | .reqOp => some ([.eq], [.lit "False"])
  | .rneOp => some ([.ne], [.lit "True"])
  | .testEq => some ([.eq], [.lit "False"])
  | .inList => some ([.eq], [.lit "False"])
  | .bin o r => some ([o.op r], [])
  | .pos => some ([.pos], [])
  | .neg => some ([.neg], [])
  | .join => some ([if isAsync then .aiter else .iter], [.lit "[]"])
  | .hashKey => some ([.hash], [.lit "1"])
  | .sum => some ([if isAsync then .aiter else .iter], [.lit "0"])
  | .sort => some ([.iter], [.lit "[]"])
  | _ => none

/-- `obj(*args)` inside Context.call's `try … except StopIteration` (runtime.py:305-311) -/
def callIt (k : Kind) (named : Bool) : FOut :=
  match tbl k .call with
  | .raisesUndefined =>
    if g.ue "Context.call" 0 then .text [strPiece tbl k] false else .raises named
  | _ => .oom

/-- the final operation on the value `v` -/
def final (e : EnvKind) (isAsync : Bool) (k : Kind) (v : Val) (f : Final) : FOut :=
  let named := v == .orig
  match simpleFinal tbl isAsync k f with
  | some (ops, ps) =>
    (match perform tbl k ops with
     | some true => .raises named
     | some false => .oom
     | none => if ps.isEmpty then .oom else .text ps named)
  | none =>
    match f with
    | .intF =>          -- filters.do_int
      (match tbl k .int with
       | .raisesUndefined =>
         if g.ue "do_int" 0 then
           (match tbl k .float with
            | .raisesUndefined => if g.ue "do_int" 1 then .text [.lit "0"] named else .raises named
            | _ => .oom)
         else .raises named
       | _ => .oom)
    | .floatF =>        -- filters.do_float
      (match tbl k .float with
       | .raisesUndefined => if g.ue "do_float" 0 then .text [.lit "0.0"] named else .raises named
       | _ => .oom)
    | .isIterable =>    -- tests.test_iterable
      (match tbl k .iter with
       | .raisesUndefined => if g.ue "test_iterable" 0 then .text [.lit "False"] named else .raises named
       | .emptyIteration => .text [.lit "True"] named
       | _ => .oom)
    | .call =>
      -- sandbox: is_safe_callable reads `unsafe_callable` with a 3-argument getattr (sandbox.py:262-271);
      -- Context.call probes `hasattr(obj, "jinja_pass_arg")` (utils.py:91-95), then calls (runtime.py:305-311)
      (match tbl k .getattr with
       | .raisesUndefined => if g.probe then callIt tbl g k named else .raises named
       | .itself => (match perform tbl k (if e = .sandbox then [.bool] else []) with
                     | none => callIt tbl g k named
                     | some true => .raises named
                     | some false => .oom)
       | _ => .oom)
    | _ => .oom

/-- evaluate `final(accs(X))` for an undefined value X of kind `k` -/
def runFrom (e : EnvKind) (isAsync : Bool) (k : Kind) : Val → List Acc → Final → FOut
  | v, [], f => final tbl g e isAsync k v f
  | v, a :: rest, f =>
    match step tbl g e k a with
    | .same => runFrom e isAsync k v rest f
    | .fresh => runFrom e isAsync k .fresh rest f
    | .raise => .raises (v == .orig)
    | .oom => .oom

end steps

/-- the transcription: table and guards READ from the source -/
def run (e : EnvKind) (isAsync : Bool) (k : Kind) (accs : List Acc) (f : Final) : FOut :=
  runFrom outcome srcGuards e isAsync k .orig accs f

/-- only ChainableUndefined (and a logging variant of it) supports attribute and item access -/
def chainable : Kind → Bool
  | .chainable => true
  | .logging b => chainable b
  | _ => false

/-- documented: the first access on a non-chainable undefined raises UndefinedError naming what is missing; on a
    chainable one every access gives the same undefined back; the final operation follows the documented table, and the
    error reaches the caller -/
def runSpec (e : EnvKind) (isAsync : Bool) (k : Kind) (accs : List Acc) (f : Final) : FOut :=
  if chainable k || accs.isEmpty then final spec transparent e isAsync k .orig f
  else .raises true

def stepSpec (k : Kind) : Step := if chainable k then .same else .raise

end JinjaV.UndefinedEngine
