/-
  HTML escaping as markupsafe does it, over `List Char` (shared by C24, C16, C15).  Core Lean only.

  * `escape`   — markupsafe/_native.py:_escape_inner: five chained `str.replace` calls, `&` first
                 (`&amp; &gt; &lt; &#39; &#34;`); `escape1` is the single pass of markupsafe/_speedups.c.
  * `unescape` — html.unescape restricted to the five entities `escape` produces.
  * `Val`      — what a template expression evaluates to as far as escaping is concerned: a plain `str`
                 or a `Markup` (a str subclass with `__html__`), each carrying its text.
  * `Esc`      — the language of escaped text: characters other than `& < > ' "` and complete entities.
-/
namespace JinjaV.Escape

/-- the markup characters the C15 scan looks for -/
def isM (c : Char) : Bool := c == '<' || c == '>' || c == '"' || c == '\''

/-- the five characters `escape` rewrites -/
def isSpecial (c : Char) : Bool := c == '&' || isM c

/-- no markup character occurs -/
def MFree (s : List Char) : Prop := ∀ c ∈ s, isM c = false

instance (s : List Char) : Decidable (MFree s) := by unfold MFree; infer_instance

/-- Python `str.replace(x, r)` for a one-character pattern `x` -/
def replaceChar (x : Char) (r : List Char) (s : List Char) : List Char :=
  s.flatMap fun c => if c = x then r else [c]

/-- a chain `s.replace(c1, r1).replace(c2, r2)…` applied left to right -/
def applyChain (chain : List (Char × List Char)) (s : List Char) : List Char :=
  chain.foldl (fun acc p => replaceChar p.1 p.2 acc) s

/-- markupsafe/_native.py:1-8, in source order -/
def escapeChain : List (Char × List Char) :=
  [('&', "&amp;".toList), ('>', "&gt;".toList), ('<', "&lt;".toList), ('\'', "&#39;".toList), ('"', "&#34;".toList)]

/-- `markupsafe._native._escape_inner` -/
def escape (s : List Char) : List Char := applyChain escapeChain s

/-- one character of the single-pass escaper (markupsafe/_speedups.c) -/
def escChar (c : Char) : List Char :=
  if c = '&' then "&amp;".toList
  else if c = '<' then "&lt;".toList
  else if c = '>' then "&gt;".toList
  else if c = '\'' then "&#39;".toList
  else if c = '"' then "&#34;".toList
  else [c]

/-- `markupsafe._speedups._escape_inner` -/
def escape1 (s : List Char) : List Char := s.flatMap escChar

/-- the five entities (`&` included) with the character each stands for -/
def entities : List (List Char × Char) :=
  [("&amp;".toList, '&'), ("&lt;".toList, '<'), ("&gt;".toList, '>'), ("&#39;".toList, '\''), ("&#34;".toList, '"')]

/-- if `s` starts with one of the five entities: the character and the rest -/
def entityAt (s : List Char) : Option (Char × List Char) :=
  match s with
  | '&' :: 'a' :: 'm' :: 'p' :: ';' :: r => some ('&', r)
  | '&' :: 'l' :: 't' :: ';' :: r => some ('<', r)
  | '&' :: 'g' :: 't' :: ';' :: r => some ('>', r)
  | '&' :: '#' :: '3' :: '9' :: ';' :: r => some ('\'', r)
  | '&' :: '#' :: '3' :: '4' :: ';' :: r => some ('"', r)
  | _ => none

theorem entityAt_length {s r : List Char} {c : Char} (h : entityAt s = some (c, r)) : r.length < s.length := by
  unfold entityAt at h
  split at h <;> simp at h <;> (obtain ⟨_, rfl⟩ := h; simp only [List.length_cons]; omega)

/-- `html.unescape` restricted to the five entities: left to right, an `&` that starts one of them is
    replaced by its character, every other character is kept (fuel = length; `unescape` below) -/
def unescapeF : Nat → List Char → List Char
  | 0, _ => []
  | _ + 1, [] => []
  | n + 1, c :: r =>
    match entityAt (c :: r) with
    | some (x, r') => x :: unescapeF n r'
    | none => c :: unescapeF n r

def unescape (s : List Char) : List Char := unescapeF s.length s

/-- escaped text: ordinary characters and complete entities -/
inductive Esc : List Char → Prop
  | nil : Esc []
  | chr (c : Char) (t : List Char) : isSpecial c = false → Esc t → Esc (c :: t)
  | ent (e : List Char) (c : Char) (t : List Char) : (e, c) ∈ entities → Esc t → Esc (e ++ t)

/-- decides `Esc` (used by the wire oracle and by the `example`s) -/
def isEscF : Nat → List Char → Bool
  | 0, s => s.isEmpty
  | _ + 1, [] => true
  | n + 1, c :: r =>
    match entityAt (c :: r) with
    | some (_, r') => isEscF n r'
    | none => !isSpecial c && isEscF n r

def isEsc (s : List Char) : Bool := isEscF s.length s

/-- a template value as far as escaping is concerned -/
inductive Val where
  | plain (s : List Char)    -- `str` (also what `str(x)` gives for numbers etc.)
  | markup (s : List Char)   -- `markupsafe.Markup`
  deriving Repr, DecidableEq, Inhabited

namespace Val
def text : Val → List Char
  | plain s => s
  | markup s => s
def isMarkup : Val → Bool
  | plain _ => false
  | markup _ => true
/-- `markupsafe.escape(v)`: `Markup(v.__html__())` if present, else `Markup(_escape_inner(str(v)))`
    (markupsafe/__init__.py:24-46) -/
def esc : Val → List Char
  | plain s => escape s
  | markup s => s
/-- `str(v)` — drops the safe mark -/
def str : Val → List Char := text
/-- a value is clean when no markup character sits in trusted (Markup) text -/
def Clean : Val → Prop
  | plain _ => True
  | markup s => MFree s
end Val

end JinjaV.Escape
