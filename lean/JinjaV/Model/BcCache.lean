/-
  M-Cache / bytecode cache (`src/jinja2/bccache.py`, `loaders.py:107-149`).  Core Lean only.

  * an entry is a byte list  magic ++ pickle(checksum) ++ marshal(code)   (`Bucket.write_bytecode`, bccache.py:82-88)
  * the decoders `pickle.load` / `marshal.load` are PARAMETERS: total functions that return a value and the unread rest
    or raise an exception, given by the class names of its MRO (so that handler coverage is decided like Python does)
  * `loadBytecode` transcribes `Bucket.load_bytecode` (bccache.py:63-80); the classes each handler catches are a
    parameter (`LoadCfg`) which Props/C27 instantiates with what the translator READ from the source
  * the file-system cache writes through a temporary file and `os.replace` (bccache.py:275-311): `FsOp` over an abstract
    directory, with a crash after every prefix and with an exception injected at every step
  * `System` = loader sources + one cache shared by several configurations (`BaseLoader.load`)
-/
import JinjaV.Gen.BcCacheSites

namespace JinjaV.BcCache

abbrev Bytes := List Nat

/-! ## exceptions -/

/-- an exception as the harness reports it: the names of the classes in its `__mro__` -/
abbrev Exc := List String

/-- `except (C₁, …)` catches an exception iff one of the classes is in its MRO -/
def catches (caught : List String) (e : Exc) : Bool := e.any (fun c => caught.contains c)

/-- the part of Python's exception hierarchy the decoders' contracts mention (validated against the running
    interpreter by the harness on every run) -/
def mroOf : String → Exc
  | "EOFError" => ["EOFError", "Exception", "BaseException"]
  | "ValueError" => ["ValueError", "Exception", "BaseException"]
  | "TypeError" => ["TypeError", "Exception", "BaseException"]
  | "UnpicklingError" => ["UnpicklingError", "PickleError", "Exception", "BaseException"]
  | "UnicodeDecodeError" => ["UnicodeDecodeError", "UnicodeError", "ValueError", "Exception", "BaseException"]
  | "OSError" => ["OSError", "Exception", "BaseException"]
  | "FileNotFoundError" => ["FileNotFoundError", "OSError", "Exception", "BaseException"]
  | "PermissionError" => ["PermissionError", "OSError", "Exception", "BaseException"]
  | "IsADirectoryError" => ["IsADirectoryError", "OSError", "Exception", "BaseException"]
  | "NotADirectoryError" => ["NotADirectoryError", "OSError", "Exception", "BaseException"]
  | "FileExistsError" => ["FileExistsError", "OSError", "Exception", "BaseException"]
  | "InterruptedError" => ["InterruptedError", "OSError", "Exception", "BaseException"]
  | "BlockingIOError" => ["BlockingIOError", "OSError", "Exception", "BaseException"]
  | "TimeoutError" => ["TimeoutError", "OSError", "Exception", "BaseException"]
  | "KeyboardInterrupt" => ["KeyboardInterrupt", "BaseException"]
  | "Exception" => ["Exception", "BaseException"]
  | c => [c, "BaseException"]

/-- the exception sets of the decoders' assumed contracts (what `pickle.load` / `marshal.load` raise on a damaged
    stream; the comment at bccache.py:75 and the `pickle` documentation) -/
def pickleExc : List String := ["EOFError", "UnpicklingError", "ValueError", "TypeError"]
def marshalExc : List String := ["EOFError", "ValueError", "TypeError"]

/-- a handler covers an exception set iff it catches each member -/
def covers (caught : List String) (set : List String) : Bool := set.all (fun c => catches caught (mroOf c))

/-- an exception is "one of the set" iff one of the set's classes is in its MRO -/
def inSet (set : List String) (e : Exc) : Bool := e.any (fun c => set.contains c)

/-! ## decoders -/

inductive Dec (α : Type) where
  | ok (v : α) (rest : Bytes)
  | raise (e : Exc)
  deriving Repr, DecidableEq

/-- contract "total; raises only members of `set`" -/
def RaisesOnly {α} (d : Bytes → Dec α) (set : List String) : Prop :=
  ∀ b e, d b = .raise e → inSet set e = true

/-- contract "decoding what the encoder produced gives the value back and leaves the rest" -/
def RoundTrip {α} (enc : α → Bytes) (d : Bytes → Dec α) : Prop :=
  ∀ v rest, d (enc v ++ rest) = .ok v rest

/-! ## Bucket -/

structure LoadCfg where
  magic : Bytes
  pickleCaught : List String     -- classes caught around `pickle.load(f)` ([] = no try)
  marshalCaught : List String    -- classes caught around `marshal.load(f)`
  deriving Repr

inductive Res (Code : Type) where
  | miss                       -- bucket.code is None
  | hit (c : Code)
  | raises (e : Exc)
  deriving Repr, DecidableEq

def Res.quiet {Code} : Res Code → Bool
  | .raises _ => false
  | _ => true

/-- `Bucket.load_bytecode` (bccache.py:63-80) -/
def loadBytecode {Ck Code : Type} [DecidableEq Ck] (cfg : LoadCfg) (pl : Bytes → Dec Ck) (ml : Bytes → Dec Code)
    (ck : Ck) (b : Bytes) : Res Code :=
  -- magic = f.read(len(bc_magic)); if magic != bc_magic: reset; return
  if b.take cfg.magic.length ≠ cfg.magic then .miss else
  -- checksum = pickle.load(f)
  match pl (b.drop cfg.magic.length) with
  | .raise e => if catches cfg.pickleCaught e then .miss else .raises e
  | .ok c rest =>
    -- if self.checksum != checksum: reset; return
    if ck ≠ c then .miss else
    -- try: self.code = marshal.load(f) except (…): reset; return
    match ml rest with
    | .raise e => if catches cfg.marshalCaught e then .miss else .raises e
    | .ok code _ => .hit code

/-- `Bucket.write_bytecode` (bccache.py:82-88): the three parts in order -/
def writeBytecode {Ck Code : Type} (magic : Bytes) (encCk : Ck → Bytes) (encCode : Code → Bytes) (ck : Ck) (code : Code) : Bytes :=
  magic ++ (encCk ck ++ encCode code)

/-- the `OSError` classes the operating system hands out for a file operation (what the fault runs inject) -/
def osErrorClasses : List String :=
  ["OSError", "FileNotFoundError", "PermissionError", "IsADirectoryError", "NotADirectoryError", "FileExistsError",
   "InterruptedError", "BlockingIOError", "TimeoutError"]

/-! ## FileSystemBytecodeCache.load_bytecode (bccache.py:260-273): `open` under a handler that returns -/

/-- `open(filename, "rb")` fails with `e`: a miss if the handler's classes catch it, else it leaves `get_template` -/
def fsOpenFails {Code : Type} (openCaught : List String) (e : Exc) : Res Code :=
  if catches openCaught e then .miss else .raises e

/-! ## MemcachedBytecodeCache.load_bytecode (bccache.py:384-391) -/

inductive ClientGet where
  | value (b : Bytes)      -- `None` is the empty byte string (`BytesIO(None)`)
  | fails (e : Exc)

def mcLoad {Ck Code : Type} [DecidableEq Ck] (cfg : LoadCfg) (clientCaught : List String) (ignoreErrors : Bool)
    (pl : Bytes → Dec Ck) (ml : Bytes → Dec Code) (ck : Ck) : ClientGet → Res Code
  | .fails e => if catches clientCaught e && ignoreErrors then .miss else .raises e
  | .value b => loadBytecode cfg pl ml ck b

/-! ## the file-system cache's write path over an abstract directory -/

abbrev Dir := List (String × Bytes)

def Dir.get (d : Dir) (n : String) : Option Bytes :=
  match d with
  | [] => none
  | (k, v) :: r => if k = n then some v else Dir.get r n

def Dir.del (d : Dir) (n : String) : Dir := d.filter (fun p => p.1 ≠ n)

def Dir.put (d : Dir) (n : String) (v : Bytes) : Dir := (n, v) :: Dir.del d n

/-- what one statement of `dump_bytecode` does to the directory.  `tmp` is the temporary's name, `name` the entry's. -/
inductive FsOp where
  | createTmp                  -- NamedTemporaryFile(delete=False): a new empty file
  | writeTmp (chunk : Bytes)   -- data reaching the temporary
  | closeTmp
  | replaceTmp                 -- os.replace(tmp, name): atomic
  | removeTmp                  -- remove_silent()
  | truncEntry                 -- open(name, "wb")
  | writeEntry (chunk : Bytes) -- data reaching the entry itself
  deriving Repr, DecidableEq

def FsOp.apply (tmp name : String) (d : Dir) : FsOp → Dir
  | .createTmp => d.put tmp []
  | .writeTmp c => d.put tmp ((d.get tmp).getD [] ++ c)
  | .closeTmp => d
  | .replaceTmp => match d.get tmp with
    | some v => (d.del tmp).put name v
    | none => d                                 -- OSError (handled by the caller)
  | .removeTmp => d.del tmp
  | .truncEntry => d.put name []
  | .writeEntry c => d.put name ((d.get name).getD [] ++ c)

def runOps (tmp name : String) (d : Dir) : List FsOp → Dir
  | [] => d
  | op :: ops => runOps tmp name (op.apply tmp name d) ops

/-- the temporary's name: `NamedTemporaryFile(prefix=basename(name), suffix=sfx)` puts a non-empty random part between -/
def tmpName (name rnd sfx : String) : String := name ++ rnd ++ sfx

/-- the operations of the write-to-temporary-then-replace protocol for an entry written in `chunks` -/
def protocolOps (chunks : List Bytes) : List FsOp :=
  [.createTmp] ++ chunks.map .writeTmp ++ [.closeTmp, .replaceTmp]

/-! ## the statements of `FileSystemBytecodeCache.dump_bytecode` as READ from the source (Gen/BcCacheSites) -/

open JinjaV.Gen.BcCacheSites in
/-- directory operations of a step list when nothing fails (a crash may cut this list anywhere) -/
def expand (chunks : List Bytes) : List DumpStep → List FsOp
  | [] => []
  | .createTmp _ _ _ _ :: r => .createTmp :: expand chunks r
  | .writeClose _ :: r => chunks.map .writeTmp ++ (.closeTmp :: expand chunks r)
  | .replaceTmp _ :: r => .replaceTmp :: expand chunks r
  | .writeEntryInPlace :: r => .truncEntry :: (chunks.map .writeEntry ++ expand chunks r)

open JinjaV.Gen.BcCacheSites in
/-- the temporary is created next to the entry (so that the rename cannot cross devices), its name is the entry's
    name followed by more characters, and closing it does not delete it -/
def tmpWellFormed : List DumpStep → Bool
  | .createTmp sameDir prefixIsName sfx delete :: _ => sameDir && prefixIsName && decide (sfx.length > 0) && !delete
  | _ => false

open JinjaV.Gen.BcCacheSites in
def tmpSuffix : List DumpStep → String
  | .createTmp _ _ sfx _ :: _ => sfx
  | _ => ""

/-- an exception injected into `dump_bytecode` -/
inductive Fault where
  | none
  | atCreate (e : Exc)               -- NamedTemporaryFile raises
  | atWrite (k : Nat) (e : Exc)      -- write_bytecode raises after k chunks reached the file
  | atReplace (e : Exc)              -- os.replace raises
  deriving Repr, DecidableEq

open JinjaV.Gen.BcCacheSites in
/-- first handler that catches `e`: (temporary removed?, re-raised?) ; no handler = propagates, nothing removed -/
def handle (hs : List Handler) (e : Exc) : Bool × Bool :=
  match hs.find? (fun h => catches h.classes e) with
  | some h => (h.removesTmp, h.reraises)
  | Option.none => (false, true)

open JinjaV.Gen.BcCacheSites in
/-- `dump_bytecode` with an injected exception: resulting directory and the exception that leaves the function -/
def dumpRun (tmp name : String) (chunks : List Bytes) (f : Fault) : List DumpStep → Dir → Dir × Option Exc
  | [], d => (d, Option.none)
  | .createTmp _ _ _ _ :: r, d =>
    (match f with
     | .atCreate e => (d, some e)
     | _ => dumpRun tmp name chunks f r (FsOp.createTmp.apply tmp name d))
  | .writeClose hs :: r, d =>
    (match f with
     | .atWrite k e =>
       let d1 := runOps tmp name d ((chunks.take k).map .writeTmp)
       let (rm, rr) := handle hs e
       let d2 := if rm then FsOp.removeTmp.apply tmp name d1 else d1
       if rr then (d2, some e) else dumpRun tmp name chunks .none r d2
     | _ => dumpRun tmp name chunks f r (runOps tmp name d (chunks.map .writeTmp)))
  | .replaceTmp hs :: r, d =>
    (match f with
     | .atReplace e =>
       let (rm, rr) := handle hs e
       let d2 := if rm then FsOp.removeTmp.apply tmp name d else d
       if rr then (d2, some e) else dumpRun tmp name chunks .none r d2
     | _ => dumpRun tmp name chunks f r (FsOp.replaceTmp.apply tmp name d))
  | .writeEntryInPlace :: r, d =>
    (match f with
     | .atWrite k e => (runOps tmp name d (.truncEntry :: (chunks.take k).map .writeEntry), some e)
     | _ => dumpRun tmp name chunks f r (runOps tmp name d (.truncEntry :: chunks.map .writeEntry)))

/-! ## file names: `pattern % key`, the temporary's name, and `clear()`'s glob `pattern % "*"` (bccache.py:257-262, 317-328) -/

/-- the entry's file name for a pattern `pre%spost` -/
def entryFile (pre post key : List Char) : List Char := pre ++ key ++ post

/-- the temporary's file name: the entry's, a random part, the suffix -/
def tmpFile (pre post key rnd sfx : List Char) : List Char := entryFile pre post key ++ rnd ++ sfx

/-- `fnmatch(n, pre ++ "*" ++ post)` for `pre`, `post` without glob metacharacters (the translator checks that) -/
def globMatch (pre post n : List Char) : Bool :=
  pre.isPrefixOf n && post.isSuffixOf n && decide (pre.length + post.length ≤ n.length)

/-! ## the whole system: loader sources, one cache, several configurations (`BaseLoader.load`, loaders.py:107-149) -/

/-- the encoders/decoders and the source checksum, as one parameter -/
structure Codec (Src Ck Code : Type) where
  magic : Bytes
  hash : Src → Ck                -- get_source_checksum
  encCk : Ck → Bytes             -- pickle.dump(checksum, f, 2)
  encCode : Code → Bytes         -- marshal.dump(code, f)
  pl : Bytes → Dec Ck            -- pickle.load
  ml : Bytes → Dec Code          -- marshal.load

/-- loader sources and the cache's entries by template name (the key is a function of name and file name only,
    bccache.py:150-157; its injectivity is SHA-1's) -/
structure Sys (Src : Type) where
  src : Nat → Src
  cache : Nat → Option Bytes

inductive Op (Src Cfg : Type) where
  | load (cfg : Cfg) (name : Nat)       -- get_template(name) through a fresh environment of configuration cfg
  | modify (name : Nat) (s : Src)
  | clear                               -- FileSystemBytecodeCache.clear()
  | drop (name : Nat)                   -- the entry disappears (interrupted first write, removed file, expired key)

inductive Out (Code : Type) where
  | none
  | served (c : Code)                   -- the code object handed to Template.from_code
  | raised (e : Exc)
  deriving Repr, DecidableEq

def Sys.store {Src} (s : Sys Src) (n : Nat) (b : Bytes) : Sys Src :=
  { s with cache := fun k => if k = n then some b else s.cache k }

/-- `BaseLoader.load`: get_source; get_bucket (load_bytecode with the current source's checksum); compile iff the
    bucket has no code; set_bucket iff it had none -/
def Sys.step {Src Ck Code Cfg : Type} [DecidableEq Ck] (lc : LoadCfg) (cd : Codec Src Ck Code) (compile : Cfg → Src → Code)
    (s : Sys Src) : Op Src Cfg → Sys Src × Out Code
  | .load cfg n =>
    let cur := s.src n
    let fresh := compile cfg cur
    let entry := writeBytecode cd.magic cd.encCk cd.encCode (cd.hash cur) fresh
    match s.cache n with
    | Option.none => (s.store n entry, .served fresh)
    | some b =>
      match loadBytecode lc cd.pl cd.ml (cd.hash cur) b with
      | .hit code => (s, .served code)
      | .miss => (s.store n entry, .served fresh)
      | .raises e => (s, .raised e)
  | .modify n v => ({ s with src := fun k => if k = n then v else s.src k }, .none)
  | .clear => ({ s with cache := fun _ => Option.none }, .none)
  | .drop n => ({ s with cache := fun k => if k = n then Option.none else s.cache k }, .none)

/-- run a history, collecting what each step produced -/
def Sys.run {Src Ck Code Cfg : Type} [DecidableEq Ck] (lc : LoadCfg) (cd : Codec Src Ck Code) (compile : Cfg → Src → Code)
    (s : Sys Src) : List (Op Src Cfg) → Sys Src × List (Out Code)
  | [] => (s, [])
  | op :: ops =>
    let r := Sys.step lc cd compile s op
    let rs := Sys.run lc cd compile r.1 ops
    (rs.1, r.2 :: rs.2)

/-! ## extras used by the correspondence runs: a damaged entry, and the memcached backend with a faulty client -/

inductive Client where
  | ok
  | getFails
  | setFails
  | truncates (k : Nat)      -- `get` returns only the first k bytes of what was stored
  deriving Repr, DecidableEq

/-- what the fake client raises -/
def clientExc : Exc := ["ConnectionError", "OSError", "Exception", "BaseException"]

/-- `BaseLoader.load` over a `MemcachedBytecodeCache` (bccache.py:384-404) whose handlers catch `caughtGet`/`caughtSet` -/
def Sys.stepMc {Src Ck Code Cfg : Type} [DecidableEq Ck] (lc : LoadCfg) (cd : Codec Src Ck Code) (compile : Cfg → Src → Code)
    (caughtGet caughtSet : List String) (ignore : Bool) (cl : Client) (s : Sys Src) (cfg : Cfg) (n : Nat) : Sys Src × Out Code :=
  let cur := s.src n
  let fresh := compile cfg cur
  let entry := writeBytecode cd.magic cd.encCk cd.encCode (cd.hash cur) fresh
  let stored := (s.cache n).getD []
  let got : ClientGet := match cl with
    | .getFails => .fails clientExc
    | .truncates k => .value (stored.take k)
    | _ => .value stored
  match mcLoad lc caughtGet ignore cd.pl cd.ml (cd.hash cur) got with
  | .hit code => (s, .served code)
  | .raises e => (s, .raised e)
  | .miss =>
    match cl with
    | .setFails => if catches caughtSet clientExc && ignore then (s, .served fresh) else (s, .raised clientExc)
    | _ => (s.store n entry, .served fresh)

inductive XOp (Src Cfg : Type) where
  | base (op : Op Src Cfg)
  | truncate (name k : Nat)                                     -- the stored entry loses everything after k bytes
  | mcLoad (cfg : Cfg) (name : Nat) (ignore : Bool) (cl : Client)

def Sys.stepX {Src Ck Code Cfg : Type} [DecidableEq Ck] (lc : LoadCfg) (cd : Codec Src Ck Code) (compile : Cfg → Src → Code)
    (caughtGet caughtSet : List String) (s : Sys Src) : XOp Src Cfg → Sys Src × Out Code
  | .base op => Sys.step lc cd compile s op
  | .truncate n k => ({ s with cache := fun m => if m = n then (s.cache n).map (·.take k) else s.cache m }, .none)
  | .mcLoad cfg n ig cl => Sys.stepMc lc cd compile caughtGet caughtSet ig cl s cfg n

def Sys.runX {Src Ck Code Cfg : Type} [DecidableEq Ck] (lc : LoadCfg) (cd : Codec Src Ck Code) (compile : Cfg → Src → Code)
    (caughtGet caughtSet : List String) (s : Sys Src) : List (XOp Src Cfg) → List (Out Code)
  | [] => []
  | op :: ops =>
    let r := Sys.stepX lc cd compile caughtGet caughtSet s op
    r.2 :: Sys.runX lc cd compile caughtGet caughtSet r.1 ops

/-! ## the configuration READ from the source, and a small concrete codec (checksum and code are one byte each) used by
    the examples and by the end-to-end correspondence -/

open JinjaV.Gen.BcCacheSites

def caughtAt (call : String) : List String :=
  match decoderSites.find? (fun s => s.call == call) with
  | some s => s.caught
  | none => []

/-- `Bucket.load_bytecode` with the handlers as they are in the source now -/
def genCfg (magic : Bytes) : LoadCfg :=
  { magic := magic, pickleCaught := caughtAt "pickle.load", marshalCaught := caughtAt "marshal.load" }

def mcCaught (call : String) : List String :=
  match mcGuards.find? (fun g => g.call == call) with
  | some g => g.caught
  | none => []

def exDec : Bytes → Dec Nat
  | [] => .raise (mroOf "EOFError")
  | x :: r => .ok x r

def exCodec : Codec Nat Nat Nat :=
  { magic := [7, 7], hash := id, encCk := fun n => [n], encCode := fun n => [n], pl := exDec, ml := exDec }

end JinjaV.BcCache
