/-
  M-Precompiled — the two ways a template reaches `Template._from_namespace` (C31).

    source path       Environment._load_template → loader.get_source → compile(source, name, filename)          (defer_init=False)
                      → Template.from_code: exec(code, {"environment": env, "__file__": …})
    precompiled path  Environment.compile_templates: for name in list_templates(): compile(source, name, filename, raw=True,
                      defer_init=True) written to  ModuleLoader.get_module_filename(name) = "tmpl_" + sha1(name) + ".py";
                      ModuleLoader.load: key → import module → Template.from_module_dict(env, module.__dict__, globals),
                      which stores env under the module global `environment`

  Three things differ and each has a model here:
    1. the module skeleton the code generator emits (`visit_Template`, compiler.py:825-943): with `defer_init` the render
       functions have no `environment=environment` default parameter;
    2. how the name `environment` inside a render function (and the macros nested in it) is resolved: default parameter bound
       at definition time vs. module global read at call time;
    3. the mapping template name → stored module (SHA-1 of the name) and the lookup through it.
  File IO, the import machinery and zipimport are NOT modelled (correspondence only).  Core Lean only.
-/
namespace JinjaV.Precompiled

-- ---------------------------------------------------------------------------------------------------------------
-- 1. the emitted module skeleton
-- ---------------------------------------------------------------------------------------------------------------

/-- a parameter of an emitted `def`: name and optional default expression -/
structure Param where
  name : String
  default : Option String
  deriving DecidableEq, Repr

/-- names of the functions defined at indentation 0 -/
inductive FName where
  | root
  | block (name : String)
  deriving DecidableEq, Repr

def FName.text : FName → String
  | .root => "root"
  | .block n => "block_" ++ n

/-- the lines of a generated module at indentation 0 (everything indented is a body, opaque here) -/
inductive Line where
  /-- `from jinja2.runtime import a, b, …` -/
  | runtimeImport (names : List String)
  /-- `from m import o as t_N` / `import m as t_N` for `ImportedName` nodes -/
  | aliasImport (text : String)
  /-- `name = '<template name>'` (the repr is computed by the caller) -/
  | nameAssign (repr : String)
  /-- `[async ]def <fname>(<params>):` followed by its body lines -/
  | funcDef (isAsync : Bool) (fname : FName) (params : List Param) (body : List String)
  /-- `blocks = {'a': block_a, …}` -/
  | blocksAssign (names : List String)
  /-- `debug_info = '…'` -/
  | debugInfo (repr : String)
  deriving DecidableEq, Repr

/-- what `visit_Template` needs to know about a template to lay out the module; the bodies are whatever the rest of the
    generator emits — they are a parameter, identical for both modes (that they ARE identical is checked on every generated
    template by the L-code tie) -/
structure Tpl where
  isAsync : Bool
  runtimeNames : List String
  aliasImports : List String
  nameRepr : String
  rootBody : List String
  /-- `self.blocks` in registration order: block name and body -/
  blocks : List (String × List String)
  debugRepr : String
  deriving Repr

/-- `envenv` (compiler.py:841) as a parameter list suffix -/
def envParam (deferInit : Bool) : List Param :=
  if deferInit then [] else [⟨"environment", some "environment"⟩]

def renderParams (deferInit : Bool) : List Param :=
  [⟨"context", none⟩, ⟨"missing", some "missing"⟩] ++ envParam deferInit

/-- `visit_Template` (compiler.py:825-943), indentation-0 skeleton -/
def emit (deferInit : Bool) (t : Tpl) : List Line :=
  [.runtimeImport t.runtimeNames] ++ t.aliasImports.map .aliasImport ++ [.nameAssign t.nameRepr] ++
  [.funcDef t.isAsync .root (renderParams deferInit) t.rootBody] ++
  t.blocks.map (fun b => .funcDef t.isAsync (.block b.1) (renderParams deferInit) b.2) ++
  [.blocksAssign (t.blocks.map (·.1)), .debugInfo t.debugRepr]

/-- the normalisation the L-code tie applies to the real text: drop a parameter `environment=environment` from the
    indentation-0 `def`s (`root` / `block_*`); every other line is kept verbatim -/
def isEnvParam (p : Param) : Bool := p.name == "environment" && p.default == some "environment"

def stripEnv : Line → Line
  | .funcDef a f ps body => .funcDef a f (ps.filter fun p => !isEnvParam p) body
  | l => l

def paramText (p : Param) : String :=
  match p.default with
  | some d => p.name ++ "=" ++ d
  | none => p.name

/-- the header line of a `def` as the generator writes it -/
def headerText : Line → Option String
  | .funcDef a f ps _ =>
    some ((if a then "async def " else "def ") ++ f.text ++ "(" ++ ", ".intercalate (ps.map paramText) ++ "):")
  | _ => none

def headers (ls : List Line) : List String := ls.filterMap headerText

-- ---------------------------------------------------------------------------------------------------------------
-- 2. resolving the name `environment` in a render function
-- ---------------------------------------------------------------------------------------------------------------

/-- Python name resolution for a name that is only ever read: innermost function scope that binds it, else module globals -/
def lookupName (name : String) : List (List (String × Nat)) → List (String × Nat) → Option Nat
  | [], globals => globals.lookup name
  | scope :: outer, globals =>
    match scope.lookup name with
    | some v => some v
    | none => lookupName name outer globals

/-- the scope of a render function when it is called as `f(context)`: `context` positional, every default parameter takes
    the value its default expression had when the `def` was executed (module globals at definition time) -/
def renderScope (deferInit : Bool) (globalsAtDef : List (String × Nat)) (context : Nat) : List (String × Nat) :=
  (renderParams deferInit).filterMap fun p =>
    if p.name == "context" then some (p.name, context)
    else match p.default with
      | some d => (globalsAtDef.lookup d).map fun v => (p.name, v)
      | none => none

-- ---------------------------------------------------------------------------------------------------------------
-- 3. name → module key → stored module → template
-- ---------------------------------------------------------------------------------------------------------------

/-- `ModuleLoader.get_template_key` (loaders.py:651-653); `sha1` is a parameter (hex digest of the UTF-8 name) -/
def templateKey (sha1 : String → String) (name : String) : String := "tmpl_" ++ sha1 name

/-- `ModuleLoader.get_module_filename` (loaders.py:655-657) -/
def moduleFilename (sha1 : String → String) (name : String) : String := templateKey sha1 name ++ ".py"

/-- outcome of compiling one template source: generated code or TemplateSyntaxError -/
abbrev Compiled (Code : Type) := Except String Code

/-- a directory / archive: file name → content, a later write to the same name replaces the earlier one -/
def writeFile {Code : Type} (store : List (String × Code)) (fn : String) (data : Code) : List (String × Code) :=
  (fn, data) :: store.filter (fun e => e.1 != fn)

/-- `compile_templates` with `ignore_errors=True` (environment.py:875-891): every listed template that compiles is written
    under its module file name; the others are skipped -/
def compileStep {Code : Type} (sha1 : String → String) (compile : String → Compiled Code) (store : List (String × Code))
    (n : String) : List (String × Code) :=
  match compile n with
  | .ok code => writeFile store (moduleFilename sha1 n) code
  | .error _ => store

def compileTemplates {Code : Type} (sha1 : String → String) (compile : String → Compiled Code) (names : List String) :
    List (String × Code) :=
  names.foldl (compileStep sha1 compile) []

inductive LoadResult (Code : Type) where
  | template (code : Code)
  | notFound (name : String)
  | syntaxError (name : String)
  deriving Repr, DecidableEq

def LoadResult.map {A B : Type} (f : A → B) : LoadResult A → LoadResult B
  | .template c => .template (f c)
  | .notFound n => .notFound n
  | .syntaxError n => .syntaxError n

/-- `ModuleLoader.load` (loaders.py:659-685): import the module named by the key; ImportError → TemplateNotFound -/
def moduleLoad {Code : Type} (sha1 : String → String) (store : List (String × Code)) (name : String) : LoadResult Code :=
  match store.lookup (moduleFilename sha1 name) with
  | some code => .template code
  | none => .notFound name

/-- loading from source through a loader that knows exactly `names` (DictLoader.get_source + compile) -/
def sourceLoad {Code : Type} (compile : String → Compiled Code) (names : List String) (name : String) : LoadResult Code :=
  if name ∈ names then
    match compile name with
    | .ok code => .template code
    | .error _ => .syntaxError name
  else .notFound name


-- ---------------------------------------------------------------------------------------------------------------
-- 4. one loader shared by several environments: the namespace a load binds `environment` in
-- ---------------------------------------------------------------------------------------------------------------

/-- a module namespace as far as `_from_namespace` is concerned: the code executed into it and the value of its global
    `environment` -/
structure Ns where
  code : String
  env : Nat
  deriving DecidableEq, Repr

/-- `ModuleLoader.load` (loaders.py:659-685) + `_from_namespace`: `getattr(self.module, "<package>.<key>", None)` never
    hits (the import system stores the sub-module under the short key) and the `sys.modules` entry is popped, so every load
    executes the module into a NEW namespace; then `namespace["environment"] = environment`.  A template is a reference
    (index) to its namespace.  Returns the heap of namespaces and one reference per load. -/
def runLoads : List Ns → List (String × Nat) → List Ns × List Nat
  | h, [] => (h, [])
  | h, (c, e) :: rest =>
    let r := runLoads (h ++ [⟨c, e⟩]) rest
    (r.1, h.length :: r.2)

/-- the variant in which the loader keeps the imported module per key and hands the SAME namespace to every load (what a
    working `getattr(self.module, key)` cache would do): `_from_namespace` overwrites `environment` in the shared namespace -/
def runLoadsCached : List Ns → List (String × Nat) → List Ns × List Nat
  | h, [] => (h, [])
  | h, (c, e) :: rest =>
    match h.findIdx? (fun n => n.code == c) with
    | some i =>
      let r := runLoadsCached (h.mapIdx fun j n => if j = i then { n with env := e } else n) rest
      (r.1, i :: r.2)
    | none =>
      let r := runLoadsCached (h ++ [⟨c, e⟩]) rest
      (r.1, h.length :: r.2)

end JinjaV.Precompiled
