/-
  M-Rt / LoopCtx: executable model of `jinja2.runtime.LoopContext`
  (runtime.py:394-588); `AsyncLoopContext` (591-659) is the same machine with awaits.

  `index` is `index0 + 1` (so it starts at 0 and the model needs no negative numbers
  for the counter itself); `after = none` stands for the `missing` sentinel.
-/
namespace JinjaV.Loop

abbrev V := Int

structure St where
  sizedLen : Option Nat        -- `len(self._iterable)` when the iterable is sized
  iter : List V                -- what `self._iterator` will still produce
  after : Option V             -- `_after` (look-ahead slot)
  current : Option V           -- `_current`
  before : Option V            -- `_before`
  index : Nat                  -- `index0 + 1`
  length : Option Nat          -- `_length` (cached)
  lastChanged : Option (List V)
  depth0 : Nat
  deriving Repr, BEq, DecidableEq

inductive Op where
  | next | length | revindex | revindex0 | first | last | previtem | nextitem
  | index | index0 | depth | depth0
  | cycle (args : List V)
  | changed (vals : List V)
  deriving Repr, BEq, DecidableEq

inductive Out where
  | item (v : V)       -- `__next__` produced v
  | stop               -- StopIteration
  | int (i : Int)
  | bool (b : Bool)
  | val (v : V)
  | undef              -- an Undefined object
  | missing            -- the `missing` sentinel leaked (only before the first `next`)
  | typeError
  deriving Repr, BEq, DecidableEq

def init (xs : List V) (sized : Bool) (depth0 : Nat) : St :=
  { sizedLen := if sized then some xs.length else none, iter := xs, after := none,
    current := none, before := none, index := 0, length := none, lastChanged := none,
    depth0 := depth0 }

/-- `_peek_next` (runtime.py:487-497) -/
def peekNext (s : St) : St × Option V :=
  match s.after with
  | some a => (s, some a)
  | none =>
    match s.iter with
    | [] => (s, none)
    | x :: r => ({ s with iter := r, after := some x }, some x)

/-- `length` (runtime.py:435-452) -/
def getLength (s : St) : St × Nat :=
  match s.length with
  | some n => (s, n)
  | none =>
    match s.sizedLen with
    | some n => ({ s with length := some n }, n)
    | none =>
      -- `list(self._iterator)`; the iterator is replaced by one over that list
      let n := s.iter.length + s.index + (if s.after.isSome then 1 else 0)
      ({ s with length := some n }, n)

/-- `__next__` (runtime.py:556-566) -/
def next (s : St) : St × Out :=
  match s.after with
  | some a =>
    ({ s with after := none, index := s.index + 1, before := s.current, current := some a }, .item a)
  | none =>
    match s.iter with
    | [] => (s, .stop)
    | x :: r =>
      ({ s with iter := r, index := s.index + 1, before := s.current, current := some x }, .item x)

def step (s : St) : Op → St × Out
  | .next => next s
  | .length => let (s', n) := getLength s; (s', .int n)
  | .revindex0 => let (s', n) := getLength s; (s', .int ((n : Int) - s.index))
  | .revindex => let (s', n) := getLength s; (s', .int ((n : Int) - ((s.index : Int) - 1)))
  | .first => (s, .bool (s.index == 1))
  | .last => let (s', a) := peekNext s; (s', .bool a.isNone)
  | .previtem =>
    if s.index == 1 then (s, .undef)
    else match s.before with
      | some b => (s, .val b)
      | none => (s, .missing)
  | .nextitem =>
    let (s', a) := peekNext s
    match a with
    | some v => (s', .val v)
    | none => (s', .undef)
  | .index => (s, .int s.index)
  | .index0 => (s, .int ((s.index : Int) - 1))
  | .depth => (s, .int (s.depth0 + 1))
  | .depth0 => (s, .int s.depth0)
  | .cycle args =>
    if args.isEmpty then (s, .typeError)
    else
      let i := (((s.index : Int) - 1) % (args.length : Int)).toNat
      match args[i]? with
      | some v => (s, .val v)
      | none => (s, .typeError)
  | .changed vals =>
    if s.lastChanged != some vals then ({ s with lastChanged := some vals }, .bool true)
    else (s, .bool false)

def run (s : St) : List Op → St × List Out
  | [] => (s, [])
  | op :: ops =>
    let r := step s op
    let r' := run r.1 ops
    (r'.1, r.2 :: r'.2)

end JinjaV.Loop
