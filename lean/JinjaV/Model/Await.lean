/-
  M-Await: what async mode adds to the runtime — `jinja2.async_utils` (auto_await, auto_aiter, auto_to_list,
  _IteratorToAsyncIterator), the `async for` protocol, and `AsyncLoopContext` (runtime.py:591-659) — over an
  explicit universe of awaitable / async-iterable values.

  The event loop is not modelled: `await x` on an awaitable that resolves to `v` *is* `v` (asyncio's task and
  cancellation semantics are assumptions, DESIGN §3).  Everything else is transcribed: which values are awaited,
  how a sync iterable is adapted to the async iterator protocol, how `StopIteration` becomes
  `StopAsyncIteration`, how `AsyncLoopContext` overrides `length`, `_peek_next`, `last`, `nextitem`, `__anext__`.
-/
import JinjaV.Model.Loop

namespace JinjaV.Await

/-- values as async mode sees them.  `plain prim v`: a value that is not awaitable (`prim` = its type is one of
    `_common_primitives`, the fast path of `auto_await`); `awaitable u`: an awaitable (coroutine) resolving to `u`;
    `iter xs`: a sync iterable; `asyncIter xs`: an object with `__aiter__` (async generator) producing `xs`. -/
inductive AV (α : Type) where
  | plain (prim : Bool) (v : α)
  | awaitable (u : AV α)
  | iter (xs : List α)
  | asyncIter (xs : List α)
  deriving Repr, DecidableEq

/-- `inspect.isawaitable` -/
def AV.isAwaitable {α} : AV α → Bool
  | .awaitable _ => true
  | _ => false

/-- `type(value) in _common_primitives` (async_utils.py:58, 63-64): only plain values of the listed builtin types -/
def AV.isCommonPrimitive {α} : AV α → Bool
  | .plain prim _ => prim
  | .iter _ => false           -- (a list is one, a generator is not: immaterial, neither is awaitable)
  | _ => false

/-- `await x` for an awaitable (the event loop's only role in the model) -/
def awaitOf {α} : AV α → AV α
  | .awaitable u => u
  | x => x

/-- `auto_await` (async_utils.py:61-70) -/
def autoAwait {α} (value : AV α) : AV α :=
  if value.isCommonPrimitive then value
  else if value.isAwaitable then awaitOf value
  else value

/-- an async iterator: either a native one (async generator) or `_IteratorToAsyncIterator(iter(xs))` -/
inductive AIt (α : Type) where
  | native (rest : List α)
  | wrapped (rest : List α)
  deriving Repr, DecidableEq

def AIt.rest {α} : AIt α → List α
  | .native r => r
  | .wrapped r => r

/-- `__anext__`: `none` = `StopAsyncIteration`.  For the wrapper: `next(self._iterator)`, `StopIteration` translated
    to `StopAsyncIteration` (async_utils.py:80-84). -/
def AIt.anext {α} : AIt α → Option (α × AIt α)
  | .native [] => none
  | .native (x :: r) => some (x, .native r)
  | .wrapped [] => none
  | .wrapped (x :: r) => some (x, .wrapped r)

inductive AErr where
  | typeError        -- `iter(x)` on something that is not iterable
  deriving Repr, DecidableEq

/-- `auto_aiter` (async_utils.py:87-93): `__aiter__` if present, else wrap `iter(iterable)` -/
def autoAiter {α} : AV α → Except AErr (AIt α)
  | .asyncIter xs => .ok (.native xs)
  | .iter xs => .ok (.wrapped xs)
  | .plain _ _ => .error .typeError
  | .awaitable _ => .error .typeError

theorem anext_rest_lt {α} {it it' : AIt α} {x : α} (h : it.anext = some (x, it')) : it'.rest.length < it.rest.length := by
  cases it with
  | native r => cases r with
    | nil => simp [AIt.anext] at h
    | cons y r => simp [AIt.anext] at h; obtain ⟨_, rfl⟩ := h; simp [AIt.rest]
  | wrapped r => cases r with
    | nil => simp [AIt.anext] at h
    | cons y r => simp [AIt.anext] at h; obtain ⟨_, rfl⟩ := h; simp [AIt.rest]

/-- `async for x in it: s := step s x` — the loop the compiler and the async filters write: call `__anext__`
    until `StopAsyncIteration` -/
def asyncFor {α σ} (step : σ → α → σ) (s : σ) (it : AIt α) : σ :=
  match _h : it.anext with
  | none => s
  | some (x, it') => asyncFor step (step s x) it'
termination_by it.rest.length
decreasing_by exact anext_rest_lt _h

/-- `[x async for x in it]` -/
def collect {α} (it : AIt α) : List α := (asyncFor (fun acc x => x :: acc) [] it).reverse

/-- `auto_to_list` (async_utils.py:96-99) -/
def autoToList {α} (value : AV α) : Except AErr (List α) := (autoAiter value).map collect

/-- the items of an iterable value, the way sync code sees them (`iter(x)`); an async iterable is not iterable by
    sync code (`TypeError: 'async_generator' object is not iterable` — DESIGN F17) -/
def syncItems {α} : AV α → Except AErr (List α)
  | .iter xs => .ok xs
  | _ => .error .typeError

/-! ## the shapes of `@async_variant` pairs (inventory regenerated from filters.py: Gen/AsyncPairs.lean) -/

inductive Accum where
  | rebind       -- `rv = rv + f(item)`
  | inplace      -- `rv += f(item)`  (mutates a list passed as `start`: DESIGN F6)
  deriving Repr, DecidableEq

inductive Shape where
  | erases               -- async body with the async constructs erased is the sync body
  | syncOnList           -- `return sync_fn(…, await auto_to_list(value), …)`
  | fold (acc : Accum)   -- explicit accumulation loop against `sum(iterable, start)`
  deriving Repr, DecidableEq

structure Pair where
  asyncFn : String
  syncFn : String
  filters : List String
  shape : Shape
  asyncGen : Bool          -- the async variant returns an async iterator (lazy)
  syncIsGen : Bool         -- the sync function is a generator (lazy)
  iterParam : String
  notes : List String
  deriving Repr, DecidableEq

/-- async variant of shape `syncOnList` for a sync function `f` of the items -/
def variantSyncOnList {α β} (f : List α → β) (value : AV α) : Except AErr β := (autoToList value).map f

/-- async variant of shape `fold`: `rv = start; async for item in auto_aiter(it): rv = rv + g(item); return rv` -/
def variantFold {α β} (add : β → β → β) (g : α → β) (start : β) (value : AV α) : Except AErr β :=
  (autoAiter value).map (asyncFor (fun rv x => add rv (g x)) start)

/-- `sum(map(g, iterable), start)` -/
def syncSum {α β} (add : β → β → β) (g : α → β) (start : β) (xs : List α) : β := xs.foldl (fun rv x => add rv (g x)) start

/-- an async generator body `async for item in auto_aiter(value): <emit zero or more outputs for item>` (map: one
    output; select/reject: the item or nothing), collected -/
def variantGen {α β} (emit : α → List β) (value : AV α) : Except AErr (List β) :=
  (autoAiter value).map (fun it => (asyncFor (fun acc x => (emit x).reverse ++ acc) [] it).reverse)

/-- the sync generator `for item in value: <emit …>` -/
def syncGen {α β} (emit : α → List β) (xs : List α) : List β := xs.flatMap emit

/-- `do_first`: `await auto_aiter(seq).__anext__()`, `StopAsyncIteration` → undefined (`none`) -/
def variantFirst {α} (value : AV α) : Except AErr (Option α) := (autoAiter value).map (fun it => it.anext.map (·.1))

/-! ## AsyncLoopContext (runtime.py:591-659): LoopContext with an async iterator -/

open JinjaV.Loop (V Op Out)

structure ASt where
  sizedLen : Option Nat
  iter : AIt V
  after : Option V
  current : Option V
  before : Option V
  index : Nat
  length : Option Nat
  lastChanged : Option (List V)
  depth0 : Nat
  deriving Repr, DecidableEq

/-- the sync state this async state corresponds to: same fields, the iterator replaced by what it will still produce -/
def ASt.abs (s : ASt) : Loop.St :=
  { sizedLen := s.sizedLen, iter := s.iter.rest, after := s.after, current := s.current, before := s.before,
    index := s.index, length := s.length, lastChanged := s.lastChanged, depth0 := s.depth0 }

/-- put the non-iterator fields of a sync state back (methods AsyncLoopContext inherits unchanged do not touch
    `_iterator`) -/
def ASt.withBase (s : ASt) (b : Loop.St) : ASt :=
  { s with after := b.after, current := b.current, before := b.before, index := b.index, length := b.length,
           lastChanged := b.lastChanged }

/-- `AsyncLoopContext(iterable, …)`: `_to_iterator = auto_aiter` (runtime.py:594-598); `len(iterable)` is tried lazily -/
def ainit (xs : List V) (sized native : Bool) (depth0 : Nat) : ASt :=
  { sizedLen := if sized then some xs.length else none, iter := if native then .native xs else .wrapped xs,
    after := none, current := none, before := none, index := 0, length := none, lastChanged := none, depth0 := depth0 }

/-- `async _peek_next` (runtime.py:626-635) -/
def apeekNext (s : ASt) : ASt × Option V :=
  match s.after with
  | some a => (s, some a)
  | none =>
    match s.iter.anext with
    | none => (s, none)
    | some (x, it') => ({ s with iter := it', after := some x }, some x)

/-- `async length` (runtime.py:600-612): `[x async for x in self._iterator]`, then `_to_iterator(list)` -/
def agetLength (s : ASt) : ASt × Nat :=
  match s.length with
  | some n => (s, n)
  | none =>
    match s.sizedLen with
    | some n => ({ s with length := some n }, n)
    | none =>
      let items := collect s.iter
      let n := items.length + s.index + (if s.after.isSome then 1 else 0)
      ({ s with iter := .wrapped items, length := some n }, n)

/-- `async __anext__` (runtime.py:648-658) -/
def anextLoop (s : ASt) : ASt × Out :=
  match s.after with
  | some a =>
    ({ s with after := none, index := s.index + 1, before := s.current, current := some a }, .item a)
  | none =>
    match s.iter.anext with
    | none => (s, .stop)
    | some (x, it') =>
      ({ s with iter := it', index := s.index + 1, before := s.current, current := some x }, .item x)

def astep (s : ASt) : Op → ASt × Out
  | .next => anextLoop s
  | .length => let (s', n) := agetLength s; (s', .int n)
  | .revindex0 => let (s', n) := agetLength s; (s', .int ((n : Int) - s.index))
  | .revindex => let (s', n) := agetLength s; (s', .int ((n : Int) - ((s.index : Int) - 1)))
  | .last => let (s', a) := apeekNext s; (s', .bool a.isNone)
  | .nextitem =>
    let (s', a) := apeekNext s
    match a with
    | some v => (s', .val v)
    | none => (s', .undef)
  -- inherited unchanged from LoopContext (first, previtem, index, index0, depth, depth0, cycle, changed)
  | op => let r := Loop.step s.abs op; (s.withBase r.1, r.2)

def arun (s : ASt) : List Op → ASt × List Out
  | [] => (s, [])
  | op :: ops =>
    let r := astep s op
    let r' := arun r.1 ops
    (r'.1, r.2 :: r'.2)

end JinjaV.Await
