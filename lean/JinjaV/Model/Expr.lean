/-
  M-Expr — expressions: values, Python operator semantics on the modelled value universe, the reference
  evaluator (`eval`: what the unoptimised generated code computes, with the sandbox's operator hooks as an
  event log), and the compile-time folder (`asConst` = every `Expr.as_const` of nodes.py:472-1107 with its
  `Impossible` guards, `opt` = `Optimizer.generic_visit`, optimizer.py:27-48, `outputConst` =
  `CodeGenerator._output_child_to_const`, compiler.py:1449-1470).

  Core Lean only.  Floats are outside the value universe (`/`, negative `**` answer `oom`).
-/
namespace JinjaV.Expr

/-! ## values -/

inductive Val where
  | none
  | bool (b : Bool)
  | int (i : Int)
  | str (s : String)
  | markup (s : String)
  | list (xs : List Val)
  | tuple (xs : List Val)
  | dict (kvs : List (Val × Val))
  | undef (hint : String)     -- the default `Undefined`
  | obj (id : Nat)            -- opaque data object; its attributes/items live in the context
  | fn (id : Nat)             -- data callable
  deriving Repr, Inhabited

inductive Err where
  | typeError | undefinedError | zeroDiv | valueError | keyError | overflow
  | oom                       -- outside the model's stated domain (never compared)
  deriving Repr, DecidableEq, Inhabited

inductive BinOp where | add | sub | mul | div | floordiv | mod | pow
  deriving Repr, DecidableEq, Inhabited
inductive UnOp where | neg | pos
  deriving Repr, DecidableEq, Inhabited
inductive CmpOp where | eq | ne | lt | le | gt | ge | in_ | notin
  deriving Repr, DecidableEq, Inhabited

/-- one application of an intercepted operator, as seen by `call_binop` / `call_unop` -/
inductive Ev where
  | bin (op : BinOp) (l r : Val)
  | un (op : UnOp) (v : Val)
  deriving Repr, Inhabited

/-! ## the evaluation monad: events produced so far × result -/

def M (α : Type) := List Ev × Except Err α

instance : Monad M where
  pure a := ([], .ok a)
  bind m f := match m with
    | (l, .ok a) => let r := f a; (l ++ r.1, r.2)
    | (l, .error e) => (l, .error e)

def M.mk {α} (l : List Ev) (r : Except Err α) : M α := (l, r)
def M.ok {α} (a : α) : M α := ([], .ok a)
def M.fail {α} (e : Err) : M α := ([], .error e)
def M.lift {α} (x : Except Err α) : M α := ([], x)
def M.emit (ev : Ev) : M Unit := ([ev], .ok ())

/-! ## Python semantics on values -/

def escapeChars : List Char → List Char
  | [] => []
  | c :: cs =>
    (if c == '&' then "&amp;".toList else if c == '<' then "&lt;".toList else if c == '>' then "&gt;".toList
     else if c == '\'' then "&#39;".toList else if c == '"' then "&#34;".toList else [c]) ++ escapeChars cs

def escapeStr (s : String) : String := String.ofList (escapeChars s.toList)

def intOf : Val → Option Int
  | .int i => some i
  | .bool b => some (if b then 1 else 0)
  | _ => Option.none

def isStrLike : Val → Bool
  | .str _ | .markup _ => true
  | _ => false

def hasHtml : Val → Bool
  | .markup _ => true
  | _ => false

def truth : Val → Bool
  | .none => false
  | .bool b => b
  | .int i => i != 0
  | .str s => s != ""
  | .markup s => s != ""
  | .list xs => !xs.isEmpty
  | .tuple xs => !xs.isEmpty
  | .dict kvs => !kvs.isEmpty
  | .undef _ => false
  | .obj _ => true
  | .fn _ => true

def reprStrBody (q : Char) : List Char → List Char
  | [] => []
  | c :: cs =>
    (if c == '\\' then ['\\', '\\'] else if c == q then ['\\', q] else if c == '\n' then ['\\', 'n']
     else if c == '\r' then ['\\', 'r'] else if c == '\t' then ['\\', 't'] else [c]) ++ reprStrBody q cs

/-- Python's `repr` of a `str` (printable ASCII plus \n \r \t; other characters are outside the generators' alphabet) -/
def reprStr (s : String) : String :=
  let cs := s.toList
  let q := if cs.contains '\'' && !cs.contains '"' then '"' else '\''
  String.ofList (q :: reprStrBody q cs ++ [q])

mutual
def pyRepr : Val → String
  | .none => "None"
  | .bool b => if b then "True" else "False"
  | .int i => toString i
  | .str s => reprStr s
  | .markup s => "Markup(" ++ reprStr s ++ ")"
  | .list xs => "[" ++ pyReprList true xs ++ "]"
  | .tuple xs => "(" ++ pyReprList true xs ++ (if xs.length == 1 then ",)" else ")")
  | .dict kvs => "{" ++ pyReprPairs true kvs ++ "}"
  | .undef _ => "Undefined"
  | .obj n => "<obj" ++ toString n ++ ">"
  | .fn n => "<fn" ++ toString n ++ ">"
def pyReprList (first : Bool) : List Val → String
  | [] => ""
  | x :: xs => (if first then "" else ", ") ++ pyRepr x ++ pyReprList false xs
def pyReprPairs (first : Bool) : List (Val × Val) → String
  | [] => ""
  | (k, v) :: kvs => (if first then "" else ", ") ++ pyRepr k ++ ": " ++ pyRepr v ++ pyReprPairs false kvs
end

/-- `str(v)` -/
def pyStr : Val → String
  | .str s => s
  | .markup s => s
  | .undef _ => ""
  | v => pyRepr v

/-- `markupsafe.escape(v)`: markup unchanged, everything else `Markup(escape(str(v)))` -/
def mEscape : Val → Val
  | .markup s => .markup s
  | v => .markup (escapeStr (pyStr v))

/-- `soft_str` -/
def softStr : Val → Val
  | .markup s => .markup s
  | .str s => .str s
  | v => .str (pyStr v)

mutual
/-- Python `==` on the modelled values (`1 == True`, `Markup("a") == "a"`, `Undefined == Undefined`) -/
def pyEq : Val → Val → Bool
  | .none, .none => true
  | .undef _, .undef _ => true
  | .obj a, .obj b => a == b
  | .fn a, .fn b => a == b
  | .list xs, .list ys => pyEqList xs ys
  | .tuple xs, .tuple ys => pyEqList xs ys
  | .dict a, .dict b => a.length == b.length && pyDictSub a b
  | a, b =>
    match intOf a, intOf b with
    | some i, some j => i == j
    | _, _ =>
      match a, b with
      | .str s, .str t => s == t
      | .str s, .markup t => s == t
      | .markup s, .str t => s == t
      | .markup s, .markup t => s == t
      | _, _ => false
def pyEqList : List Val → List Val → Bool
  | [], [] => true
  | x :: xs, y :: ys => pyEq x y && pyEqList xs ys
  | _, _ => false
/-- every pair of `a` has an equal pair in `b` (keys are str/int in the modelled domain) -/
def pyDictSub : List (Val × Val) → List (Val × Val) → Bool
  | [], _ => true
  | (k, v) :: rest, b => pyDictHas k v b && pyDictSub rest b
def pyDictHas (k v : Val) : List (Val × Val) → Bool
  | [] => false
  | (k', v') :: rest => (pyEq k k' && pyEq v v') || pyDictHas k v rest
end

def hashable : Val → Bool
  | .none | .bool _ | .int _ | .str _ | .markup _ | .undef _ | .obj _ | .fn _ => true
  | .tuple _ => false  -- tuples of hashables are hashable; kept outside the model (oom at use)
  | .list _ | .dict _ => false

def dictGet (kvs : List (Val × Val)) (k : Val) : Option Val :=
  match kvs.find? (fun p => pyEq p.1 k) with
  | some p => some p.2
  | Option.none => Option.none

/-- Python dict construction: later duplicates overwrite the value, the first position is kept -/
def dictSet : List (Val × Val) → Val → Val → List (Val × Val)
  | [], k, v => [(k, v)]
  | (k', v') :: rest, k, v => if pyEq k' k then (k', v) :: rest else (k', v') :: dictSet rest k v

def mkDict (kvs : List (Val × Val)) : Except Err Val :=
  if kvs.all (fun p => hashable p.1) then .ok (.dict (kvs.foldl (fun acc p => dictSet acc p.1 p.2) []))
  else if kvs.any (fun p => match p.1 with | .tuple _ => true | _ => false) then .error .oom
  else .error .typeError

def replicateList {α} (n : Int) (xs : List α) : List α :=
  if n ≤ 0 then [] else (List.replicate n.toNat xs).flatten

def replicateStr (n : Int) (s : String) : String := String.ofList (replicateList n s.toList)

/-- Sequence repetition is inside the model's domain up to 200 000 result items; beyond that the
model answers `oom` (never compared with the implementation, which may raise MemoryError or spend
gigabytes there). -/
def repGuard (n : Int) (len : Nat) (mk : Unit → Val) : Except Err Val :=
  if n.toNat * len > 200000 then .error .oom else .ok (mk ())

def isUndef : Val → Bool
  | .undef _ => true
  | _ => false

/-- the operator functions of `nodes._binop_to_func` / the generated `(a op b)` -/
def pyBin (op : BinOp) (a b : Val) : Except Err Val :=
  -- `Undefined` fails on every arithmetic dunder (also the reflected ones); `Markup.__mul__`/`__mod__` and `str.__mod__`
  -- run first when they are the left operand
  if isUndef a then .error .undefinedError else
  if isUndef b then
    (match op, a with
     | .mul, .markup _ => .error .typeError
     | .mod, .markup _ | .mod, .str _ => .error .oom
     | _, _ => .error .undefinedError) else
  match op with
  | .add =>
    match intOf a, intOf b with
    | some i, some j => .ok (.int (i + j))
    | _, _ =>
      match a, b with
      | .str s, .str t => .ok (.str (s ++ t))
      | .markup s, .markup t => .ok (.markup (s ++ t))
      | .markup s, .str t => .ok (.markup (s ++ escapeStr t))
      | .str s, .markup t => .ok (.markup (escapeStr s ++ t))
      | .list xs, .list ys => .ok (.list (xs ++ ys))
      | .tuple xs, .tuple ys => .ok (.tuple (xs ++ ys))
      | .markup _, _ => .error .oom        -- Markup.__add__ with a non-string: NotImplemented paths
      | _, .markup _ => .error .oom
      | .obj _, _ => .error .oom
      | _, .obj _ => .error .oom
      | _, _ => .error .typeError
  | .sub =>
    match intOf a, intOf b with
    | some i, some j => .ok (.int (i - j))
    | _, _ => match a, b with
      | .obj _, _ => .error .oom
      | _, .obj _ => .error .oom
      | _, _ => .error .typeError
  | .mul =>
    match intOf a, intOf b with
    | some i, some j => .ok (.int (i * j))
    | _, _ =>
      match a, intOf b, intOf a, b with
      | .str s, some n, _, _ => repGuard n s.length (fun _ => .str (replicateStr n s))
      | .markup s, some n, _, _ => repGuard n s.length (fun _ => .markup (replicateStr n s))
      | .list xs, some n, _, _ => repGuard n xs.length (fun _ => .list (replicateList n xs))
      | .tuple xs, some n, _, _ => repGuard n xs.length (fun _ => .tuple (replicateList n xs))
      | _, _, some n, .str s => repGuard n s.length (fun _ => .str (replicateStr n s))
      | _, _, some n, .markup s => repGuard n s.length (fun _ => .markup (replicateStr n s))
      | _, _, some n, .list xs => repGuard n xs.length (fun _ => .list (replicateList n xs))
      | _, _, some n, .tuple xs => repGuard n xs.length (fun _ => .tuple (replicateList n xs))
      | .obj _, _, _, _ => .error .oom
      | _, _, _, .obj _ => .error .oom
      | _, _, _, _ => .error .typeError
  | .div =>
    match intOf a, intOf b with
    | some _, some j => if j == 0 then .error .zeroDiv else .error .oom     -- float result
    | _, _ => match a, b with
      | .obj _, _ => .error .oom
      | _, .obj _ => .error .oom
      | _, _ => .error .typeError
  | .floordiv =>
    match intOf a, intOf b with
    | some i, some j => if j == 0 then .error .zeroDiv else .ok (.int (Int.fdiv i j))
    | _, _ => match a, b with
      | .obj _, _ => .error .oom
      | _, .obj _ => .error .oom
      | _, _ => .error .typeError
  | .mod =>
    match intOf a, intOf b with
    | some i, some j => if j == 0 then .error .zeroDiv else .ok (.int (Int.fmod i j))
    | _, _ => match a, b with
      | .str _, _ => .error .oom          -- printf-style formatting
      | .markup _, _ => .error .oom
      | .obj _, _ => .error .oom
      | _, .obj _ => .error .oom
      | _, _ => .error .typeError
  | .pow =>
    match intOf a, intOf b with
    | some i, some j =>
      if j < 0 then (if i == 0 then .error .zeroDiv else .error .oom)
      else if j > 64 then .error .oom
      else .ok (.int (i ^ j.toNat))
    | _, _ => match a, b with
      | .obj _, _ => .error .oom
      | _, .obj _ => .error .oom
      | _, _ => .error .typeError

def pyUn (op : UnOp) (a : Val) : Except Err Val :=
  match a with
  | .undef _ => .error .undefinedError
  | .obj _ => .error .oom
  | _ =>
    match intOf a with
    | some i => .ok (.int (match op with | .neg => -i | .pos => i))
    | Option.none => .error .typeError

def isSubstr (needle hay : List Char) : Bool :=
  match hay with
  | [] => needle.isEmpty
  | _ :: rest => needle.isPrefixOf hay || isSubstr needle rest

/-- ordering comparisons are modelled for ints/bools and strings only -/
def pyOrd (a b : Val) : Except Err Ordering :=
  if isUndef a || isUndef b then .error .undefinedError else
  match intOf a, intOf b with
  | some i, some j => .ok (compare i j)
  | _, _ =>
    match a, b with
    | .str s, .str t => .ok (compare s t)
    | .str s, .markup t => .ok (compare s t)
    | .markup s, .str t => .ok (compare s t)
    | .markup s, .markup t => .ok (compare s t)
    | .list _, .list _ => .error .oom
    | .tuple _, .tuple _ => .error .oom
    | .obj _, _ => .error .oom
    | _, .obj _ => .error .oom
    | _, _ => .error .typeError

def pyIn (a b : Val) : Except Err Bool :=
  match b with
  | .list xs => .ok (xs.any (pyEq a))
  | .tuple xs => .ok (xs.any (pyEq a))
  | .dict kvs => if hashable a then .ok (kvs.any (fun p => pyEq a p.1)) else
      (match a with | .tuple _ => .error .oom | _ => .error .typeError)
  | .str t => match a with
    | .str s => .ok (isSubstr s.toList t.toList)
    | .markup s => .ok (isSubstr s.toList t.toList)
    | _ => .error .typeError
  | .markup t => match a with
    | .str s => .ok (isSubstr s.toList t.toList)
    | .markup s => .ok (isSubstr s.toList t.toList)
    | _ => .error .typeError
  | .undef _ => .ok false         -- `Undefined.__iter__` yields nothing
  | .obj _ => .error .oom
  | _ => .error .typeError

/-- `nodes._cmpop_to_func[op](a, b)` -/
def pyCmp (op : CmpOp) (a b : Val) : Except Err Bool :=
  match op with
  | .eq => .ok (pyEq a b)
  | .ne => .ok (!pyEq a b)
  | .lt => (pyOrd a b).map (· == .lt)
  | .le => (pyOrd a b).map (· != .gt)
  | .gt => (pyOrd a b).map (· == .gt)
  | .ge => (pyOrd a b).map (· != .lt)
  | .in_ => pyIn a b
  | .notin => (pyIn a b).map (!·)

/-! ## context -/

structure Ctx where
  vars : List (String × Val)
  attrs : Nat → String → Option Val          -- attributes of data objects
  items : Nat → Val → Option Val             -- items of data objects
  fnApply : Nat → List Val → Except Err Val  -- data callables
  hookBin : BinOp → Val → Val → Except Err Val   -- `SandboxedEnvironment.call_binop`
  hookUn : UnOp → Val → Except Err Val           -- `SandboxedEnvironment.call_unop`

/-- compile-time configuration (what the code generator and `as_const` see) -/
structure CCfg where
  autoescape : Bool          -- `frame.eval_ctx.autoescape` (a guess when `volatile`)
  volatile : Bool            -- `frame.eval_ctx.volatile`
  sandboxed : Bool
  icBin : List BinOp         -- `environment.intercepted_binops`
  icUn : List UnOp           -- `environment.intercepted_unops`
  isAsync : Bool
  deriving Repr

/-- the guards read from nodes.py by the translator (Gen/ExprTables.lean); `all` = every guard present -/
structure Guards where
  binIntercept : Bool        -- BinExpr.as_const raises Impossible for an intercepted operator
  unIntercept : Bool         -- UnaryExpr.as_const likewise
  filterVolatile : Bool      -- _FilterTestCommon.as_const raises Impossible when volatile
  filterContext : Bool       -- … for @pass_context filters/tests
  filterAsync : Bool         -- … for async variants in async environments
  concatVolatile : Bool      -- Concat.as_const raises Impossible when volatile
  concatAutoescape : Bool    -- Concat.as_const joins like markup_join under autoescape
  outputVolatile : Bool      -- _output_child_to_const raises Impossible when volatile
  condNoElse : Bool          -- CondExpr.as_const raises Impossible when the else branch is missing and needed
  fromUntrusted : Bool       -- Optimizer folds only values with a safe repr
  optSkipsVolatile : Bool    -- optimizeconst does not run the optimiser in a volatile frame
  resultSafeRepr : Bool      -- Filter/Test/Getattr/Getitem.as_const give up on results without a safe repr (`_const_result`)
  deriving Repr, DecidableEq

def Guards.all : Guards := ⟨true, true, true, true, true, true, true, true, true, true, true, true⟩

/-! ## attribute / item lookup (environment.py:467-495) -/

/-- `obj[key]` -/
def pyGetitem (ctx : Ctx) (o k : Val) : Except Err Val :=
  match o with
  | .undef _ => .error .undefinedError
  | .obj n => match ctx.items n k with
    | some v => .ok v
    | Option.none => .error .keyError
  | .dict kvs =>
    if hashable k then (match dictGet kvs k with | some v => .ok v | Option.none => .error .keyError)
    else (match k with | .tuple _ => .error .oom | _ => .error .typeError)
  | .list xs | .tuple xs =>
    match k with
    | .list _ | .dict _ | .str _ | .markup _ | .none | .tuple _ | .fn _ | .undef _ => .error .typeError
    | .obj _ => .error .oom
    | _ =>
      match intOf k with
      | some i =>
        let n : Int := xs.length
        let j := if i < 0 then i + n else i
        if j < 0 ∨ j ≥ n then .error .keyError else
          (match xs[j.toNat]? with | some v => .ok v | Option.none => .error .keyError)
      | Option.none => .error .typeError
  | .str s | .markup s =>
    match k with
    | .obj _ => .error .oom
    | _ =>
      match intOf k with
      | some i =>
        let cs := s.toList
        let n : Int := cs.length
        let j := if i < 0 then i + n else i
        if j < 0 ∨ j ≥ n then .error .keyError else
          (match cs[j.toNat]? with
           | some ch => .ok (match o with | .markup _ => .markup (String.singleton ch) | _ => .str (String.singleton ch))
           | Option.none => .error .keyError)
      | Option.none => .error .typeError
  | _ => .error .typeError

/-- `getattr(obj, name)`: only data objects carry (non-method) attributes; `none` = AttributeError.
    Method names of builtin types are outside the generators' name pool. -/
def pyGetattr (ctx : Ctx) (o : Val) (a : String) : Except Err (Option Val) :=
  match o with
  | .undef _ => .error .undefinedError
  | .obj n => .ok (ctx.attrs n a)
  | _ => .ok Option.none

def undefinedFor (_o : Val) (name : String) : Val := .undef name

/-- `Environment.getattr`: attribute first, then item, else undefined -/
def envGetattr (ctx : Ctx) (o : Val) (a : String) : Except Err Val :=
  match pyGetattr ctx o a with
  | .error e => .error e
  | .ok (some v) => .ok v
  | .ok Option.none =>
    match pyGetitem ctx o (.str a) with
    | .ok v => .ok v
    | .error .typeError | .error .keyError => .ok (undefinedFor o a)
    | .error e => .error e

/-- `Environment.getitem`: item first, then (for `str` keys) attribute, else undefined -/
def envGetitem (ctx : Ctx) (o k : Val) : Except Err Val :=
  match pyGetitem ctx o k with
  | .ok v => .ok v
  | .error .typeError | .error .keyError =>
    (match k with
     | .str a =>
       (match pyGetattr ctx o a with
        | .ok (some v) => .ok v
        | .ok Option.none => .ok (undefinedFor o a)
        | .error e => .error e)
     | .markup _ => .error .oom
     | _ => .ok (undefinedFor o (pyStr k)))
  | .error e => .error e

/-! ## slices (`obj[a:b:c]` bypasses `environment.getitem`) -/

def sliceIdx (v : Option Val) : Except Err (Option Int) :=
  match v with
  | Option.none => .ok Option.none
  | some .none => .ok Option.none
  | some (.undef _) => .error .typeError      -- `Undefined` has no `__index__`
  | some (.obj _) => .error .oom
  | some w => match intOf w with
    | some i => (match w with | .bool _ => .error .oom | _ => .ok (some i))
    | Option.none => .error .typeError

def clampIdx (n : Int) (i : Option Int) (dflt : Int) : Int :=
  match i with
  | Option.none => dflt
  | some i => let j := if i < 0 then i + n else i
              if j < 0 then 0 else if j > n then n else j

def sliceList {α} (xs : List α) (a b : Option Int) : List α :=
  let n : Int := xs.length
  let s := clampIdx n a 0
  let e := clampIdx n b n
  (xs.drop s.toNat).take (e - s).toNat

/-- step must be absent or 1 (other steps are outside the model) -/
def pySlice (o : Val) (a b c : Option Val) : Except Err Val := do
  match o with
  | .undef _ => .error .undefinedError     -- `Undefined.__getitem__`
  | .obj _ | .dict _ => .error .oom
  | .list _ | .tuple _ | .str _ | .markup _ => pure ()
  | _ => .error .typeError                 -- not subscriptable
  -- CPython's PySlice_Unpack: step first (and its zero check), then start, then stop
  let c ← sliceIdx c
  if c == some 0 then .error .valueError
  let a ← sliceIdx a
  let b ← sliceIdx b
  match c with
  | some 1 | Option.none =>
    match o with
    | .list xs => .ok (.list (sliceList xs a b))
    | .tuple xs => .ok (.tuple (sliceList xs a b))
    | .str s => .ok (.str (String.ofList (sliceList s.toList a b)))
    | .markup s => .ok (.markup (String.ofList (sliceList s.toList a b)))
    | .undef _ => .error .undefinedError
    | .obj _ => .error .oom
    | .dict _ => .error .oom
    | _ => .error .typeError
  | some 0 => .error .valueError
  | _ => .error .oom

/-! ## filters and tests -/

inductive PassArg where | plain | context | evalContext | environment
  deriving Repr, BEq, DecidableEq

/-- decoration facts read from filters.py / tests.py by the translator -/
structure FnInfo where
  name : String
  pass : PassArg
  asyncVariant : Bool
  deriving Repr

def seqItems : Val → Except Err (List Val)
  | .list xs => .ok xs
  | .tuple xs => .ok xs
  | .str s => .ok (s.toList.map (fun c => .str (String.singleton c)))
  | .markup s => .ok (s.toList.map (fun c => .str (String.singleton c)))   -- iterating Markup yields plain str
  | .dict kvs => .ok (kvs.map Prod.fst)
  | .undef _ => .ok []
  | .obj _ => .error .oom
  | _ => .error .typeError

def joinStrs (d : String) : List String → String
  | [] => ""
  | [x] => x
  | x :: xs => x ++ d ++ joinStrs d xs

/-- `str.replace(old, new)` on character lists; an empty `old` is outside the model -/
def replaceAll (old new : List Char) : Nat → List Char → List Char
  | 0, s => s
  | fuel + 1, s =>
    match s with
    | [] => []
    | c :: cs => if old.isPrefixOf s then new ++ replaceAll old new fuel (s.drop old.length)
                 else c :: replaceAll old new fuel cs

def strReplace (s old new : String) : String :=
  String.ofList (replaceAll old.toList new.toList (s.length + 1) s.toList)

def asciiOnly (s : String) : Bool := s.toList.all (fun c => c.toNat < 128)

/-- the modelled built-in filters (filters.py); `ae` = `eval_ctx.autoescape` seen by the filter -/
def applyFilter (ae : Bool) (name : String) (v : Val) (args : List Val) : Except Err Val :=
  match name, args with
  | "abs", [] => (match v with
      | .undef _ => .error .oom
      | _ => match intOf v with | some i => .ok (.int (if i < 0 then -i else i)) | Option.none => .error .oom)
  | "length", [] | "count", [] => (match v with
      | .str s | .markup s => .ok (.int s.length)
      | .list xs | .tuple xs => .ok (.int xs.length)
      | .dict kvs => .ok (.int kvs.length)
      | .undef _ => .ok (.int 0)
      | .obj _ => .error .oom
      | _ => .error .typeError)
  | "default", [] | "d", [] => .ok (if isUndef v then .str "" else v)
  | "default", [d] | "d", [d] => .ok (if isUndef v then d else v)
  | "default", [d, b] | "d", [d, b] => .ok (if isUndef v || (truth b && !truth v) then d else v)
  | "first", [] => (match seqItems v with
      | .ok (x :: _) => .ok x
      | .ok [] => .ok (.undef "No first item, sequence was empty.")
      | .error e => .error e)
  | "last", [] => (match v with
      | .list xs | .tuple xs => (match xs.getLast? with | some x => .ok x | Option.none => .ok (.undef "No last item, sequence was empty."))
      | .str s => (match s.toList.getLast? with | some c => .ok (.str (String.singleton c)) | Option.none => .ok (.undef "No last item, sequence was empty."))
      | _ => .error .oom)
  | "upper", [] => (match softStr v with
      | .markup s => if asciiOnly s then .ok (.markup s.toUpper) else .error .oom
      | .str s => if asciiOnly s then .ok (.str s.toUpper) else .error .oom
      | _ => .error .oom)
  | "lower", [] => (match softStr v with
      | .markup s => if asciiOnly s then .ok (.markup s.toLower) else .error .oom
      | .str s => if asciiOnly s then .ok (.str s.toLower) else .error .oom
      | _ => .error .oom)
  | "safe", [] => .ok (.markup (pyStr v))
  | "escape", [] | "e", [] => .ok (mEscape v)
  | "forceescape", [] => .ok (.markup (escapeStr (pyStr v)))
  | "string", [] => .ok (softStr v)
  | "list", [] => (seqItems v).map .list
  | "sum", [] => (match v with
      | .list xs | .tuple xs =>
        xs.foldlM (fun acc x => match acc, intOf x with
          | .int a, some i => .ok (.int (a + i))
          | _, _ => (match x with | .undef _ => .error .undefinedError | _ => .error .oom)) (.int 0)
      | .undef _ => .ok (.int 0)
      | _ => .error .oom)
  | "join", [] | "join", [_] =>
    let d : Val := match args with | [d] => d | _ => .str ""
    (match d, seqItems v with
     | .obj _, _ => .error .oom
     | _, .error e => .error e
     | _, .ok items =>
       if items.any (fun x => match x with | .obj _ => true | _ => false) then .error .oom else
       if !ae then .ok (.str (joinStrs (pyStr d) (items.map pyStr)))
       else if !hasHtml d then
         if items.any hasHtml then
           -- d = escape(d); d.join(value) escapes every non-markup item
           .ok (.markup (joinStrs (pyStr (mEscape d)) (items.map (fun x => pyStr (mEscape x)))))
         else .ok (.str (joinStrs (pyStr d) (items.map pyStr)))
       else
         -- soft_str(d).join(map(soft_str, value)) with a markup delimiter: Markup.join escapes plain items
         .ok (.markup (joinStrs (pyStr d) (items.map (fun x => pyStr (mEscape x))))))
  | "replace", [old, new] =>
    (match v, old, new with
     | .obj _, _, _ | _, .obj _, _ | _, _, .obj _ => .error .oom
     | _, _, _ =>
       if pyStr old == "" then .error .oom else
       if !ae then .ok (.str (strReplace (pyStr v) (pyStr old) (pyStr new)))
       else
         let s := if hasHtml old || (hasHtml new && !hasHtml v) then mEscape v else softStr v
         match s with
         | .markup t =>
           -- Markup.replace escapes the replacement, not the search string
           .ok (.markup (strReplace t (pyStr (softStr old)) (pyStr (mEscape (softStr new)))))
         | .str t => (match softStr old, softStr new with
             | .str o, .str n => .ok (.str (strReplace t o n))
             | _, _ => .error .oom)     -- plain str receiver with markup arguments: str.replace keeps str type rules
         | _ => .error .oom)
  | _, _ => .error .oom

def isNumber : Val → Bool
  | .int _ | .bool _ => true
  | _ => false

/-- the modelled built-in tests (tests.py) -/
def applyTest (name : String) (v : Val) (args : List Val) : Except Err Bool :=
  match name, args with
  | "defined", [] => .ok (!isUndef v)
  | "undefined", [] => .ok (isUndef v)
  | "none", [] => .ok (match v with | .none => true | _ => false)
  | "odd", [] => (match v with
      | .undef _ => .error .undefinedError
      | _ => match intOf v with | some i => .ok (Int.fmod i 2 == 1) | Option.none => .error .oom)
  | "even", [] => (match v with
      | .undef _ => .error .undefinedError
      | _ => match intOf v with | some i => .ok (Int.fmod i 2 == 0) | Option.none => .error .oom)
  | "divisibleby", [n] => (match v, n with
      | .undef _, _ | _, .undef _ => .error .undefinedError
      | _, _ => match intOf v, intOf n with
        | some i, some j => if j == 0 then .error .zeroDiv else .ok (Int.fmod i j == 0)
        | _, _ => .error .oom)
  | "string", [] => .ok (isStrLike v)
  | "number", [] => .ok (isNumber v)
  | "integer", [] => .ok (match v with | .int _ => true | _ => false)
  | "boolean", [] => .ok (match v with | .bool _ => true | _ => false)
  | "true", [] => .ok (match v with | .bool true => true | _ => false)
  | "false", [] => .ok (match v with | .bool false => true | _ => false)
  | "mapping", [] => .ok (match v with | .dict _ => true | _ => false)
  | "sequence", [] => (match v with
      | .str _ | .markup _ | .list _ | .tuple _ | .dict _ => .ok true
      | .int _ | .bool _ | .none => .ok false
      | _ => .error .oom)
  | "iterable", [] => (match v with
      | .str _ | .markup _ | .list _ | .tuple _ | .dict _ | .undef _ => .ok true
      | .int _ | .bool _ | .none => .ok false
      | _ => .error .oom)
  | "callable", [] => (match v with
      | .fn _ => .ok true
      | .undef _ | .obj _ => .error .oom
      | _ => .ok false)
  | "escaped", [] => .ok (hasHtml v)
  | "upper", [] =>
    -- `str(value).isupper()`: at least one cased character and no lower-case one (ASCII only in the model)
    (match v with
     | .obj _ | .fn _ => .error .oom
     | _ => let s := pyStr v
            if asciiOnly s then .ok (s.toList.any Char.isAlpha && s.toList.all (fun c => !c.isLower)) else .error .oom)
  | "lower", [] =>
    (match v with
     | .obj _ | .fn _ => .error .oom
     | _ => let s := pyStr v
            if asciiOnly s then .ok (s.toList.any Char.isAlpha && s.toList.all (fun c => !c.isUpper)) else .error .oom)
  | "eq", [w] | "==", [w] | "equalto", [w] => pyCmp .eq v w
  | "ne", [w] | "!=", [w] => pyCmp .ne v w
  | "lt", [w] | "<", [w] | "lessthan", [w] => pyCmp .lt v w
  | "le", [w] | "<=", [w] => pyCmp .le v w
  | "gt", [w] | ">", [w] | "greaterthan", [w] => pyCmp .gt v w
  | "ge", [w] | ">=", [w] => pyCmp .ge v w
  | "in", [w] => pyCmp .in_ v w
  | _, _ => .error .oom

/-! ## expressions -/

inductive Expr where
  | const (v : Val)
  | name (n : String)
  | tuple (es : List Expr)
  | list (es : List Expr)
  | dict (kvs : List (Expr × Expr))
  | cond (test a : Expr) (b : Option Expr)
  | and_ (a b : Expr)
  | or_ (a b : Expr)
  | not_ (a : Expr)
  | compare (e : Expr) (ops : List (CmpOp × Expr))
  | bin (op : BinOp) (a b : Expr)
  | concat (es : List Expr)
  | un (op : UnOp) (a : Expr)
  | getattr (e : Expr) (a : String)
  | getitem (e idx : Expr)
  | slice (e : Expr) (start stop step : Option Expr)
  | call (f : Expr) (args : List Expr)
  | filter (e : Expr) (name : String) (args : List Expr)
  | test (e : Expr) (name : String) (args : List Expr)
  deriving Repr, Inhabited

/-- the static facts about filters/tests that `as_const` and the code generator consult -/
structure Tables where
  filters : List FnInfo
  tests : List FnInfo

def Tables.filter? (t : Tables) (n : String) : Option FnInfo := t.filters.find? (·.name == n)
def Tables.test? (t : Tables) (n : String) : Option FnInfo := t.tests.find? (·.name == n)

/-- `runtime.markup_join` / `runtime.str_join` -/
def joinVals (markup : Bool) (vs : List Val) : Val :=
  if markup then
    let ss := vs.map softStr
    if ss.any hasHtml then .markup (String.join (ss.map (fun x => pyStr (mEscape x))))
    else .str (String.join (ss.map pyStr))
  else .str (String.join (vs.map pyStr))

/-- binary operator application as generated code performs it: through the sandbox hook when intercepted -/
def applyBin (c : CCfg) (ctx : Ctx) (op : BinOp) (a b : Val) : M Val :=
  if c.sandboxed && decide (op ∈ c.icBin) then do
    M.emit (.bin op a b)
    M.lift (ctx.hookBin op a b)
  else M.lift (pyBin op a b)

def applyUn (c : CCfg) (ctx : Ctx) (op : UnOp) (a : Val) : M Val :=
  if c.sandboxed && decide (op ∈ c.icUn) then do
    M.emit (.un op a)
    M.lift (ctx.hookUn op a)
  else M.lift (pyUn op a)

def callVal (ctx : Ctx) (f : Val) (args : List Val) : Except Err Val :=
  match f with
  | .fn n => ctx.fnApply n args
  | .undef _ => .error .undefinedError
  | .obj _ => .error .oom
  | _ => .error .typeError

def lookupVar (ctx : Ctx) (n : String) : Val :=
  match ctx.vars.find? (·.1 == n) with
  | some p => p.2
  | Option.none => .undef ""      -- the hint (the name) only feeds error messages, which are not modelled

/- **Reference evaluator**: the value (and hook events) of an expression.  `ae` is the autoescape setting
    in force at run time; in a non-volatile frame it equals `c.autoescape`. -/
mutual
def eval (c : CCfg) (ae : Bool) (ctx : Ctx) : Expr → M Val
  | .const v => pure v
  | .name n => pure (lookupVar ctx n)
  | .tuple es => do let vs ← evalList c ae ctx es; pure (.tuple vs)
  | .list es => do let vs ← evalList c ae ctx es; pure (.list vs)
  | .dict kvs => do let ps ← evalPairs c ae ctx kvs; M.lift (mkDict ps)
  | .cond t a b => do
      let tv ← eval c ae ctx t
      if truth tv then eval c ae ctx a else evalElse c ae ctx b
  | .and_ a b => do
      let av ← eval c ae ctx a
      if truth av then eval c ae ctx b else pure av
  | .or_ a b => do
      let av ← eval c ae ctx a
      if truth av then pure av else eval c ae ctx b
  | .not_ a => do let av ← eval c ae ctx a; pure (.bool (!truth av))
  | .compare e ops => do
      let v ← eval c ae ctx e
      evalCmp c ae ctx v ops
  | .bin op a b => do
      let av ← eval c ae ctx a
      let bv ← eval c ae ctx b
      applyBin c ctx op av bv
  | .concat es => do
      let vs ← evalList c ae ctx es
      pure (joinVals (if c.volatile then ae else c.autoescape) vs)
  | .un op a => do let av ← eval c ae ctx a; applyUn c ctx op av
  | .getattr e a => do let v ← eval c ae ctx e; M.lift (envGetattr ctx v a)
  | .getitem e i => do
      let v ← eval c ae ctx e
      let iv ← eval c ae ctx i
      M.lift (envGetitem ctx v iv)
  | .slice e a b s => do
      let v ← eval c ae ctx e
      let av ← evalOpt c ae ctx a
      let bv ← evalOpt c ae ctx b
      let sv ← evalOpt c ae ctx s
      M.lift (pySlice v av bv sv)
  | .call f args => do
      let fv ← eval c ae ctx f
      let vs ← evalList c ae ctx args
      M.lift (callVal ctx fv vs)
  | .filter e name args => do
      let v ← eval c ae ctx e
      let vs ← evalList c ae ctx args
      M.lift (applyFilter ae name v vs)
  | .test e name args => do
      let v ← eval c ae ctx e
      let vs ← evalList c ae ctx args
      M.lift ((applyTest name v vs).map .bool)
def evalList (c : CCfg) (ae : Bool) (ctx : Ctx) : List Expr → M (List Val)
  | [] => pure []
  | e :: es => do
      let v ← eval c ae ctx e
      let vs ← evalList c ae ctx es
      pure (v :: vs)
def evalPairs (c : CCfg) (ae : Bool) (ctx : Ctx) : List (Expr × Expr) → M (List (Val × Val))
  | [] => pure []
  | (k, v) :: rest => do
      let kv ← eval c ae ctx k
      let vv ← eval c ae ctx v
      let ps ← evalPairs c ae ctx rest
      pure ((kv, vv) :: ps)
def evalElse (c : CCfg) (ae : Bool) (ctx : Ctx) : Option Expr → M Val
  | some b => eval c ae ctx b
  | Option.none => pure (.undef "the inline if-expression evaluated to false and no else section was defined.")
def evalOpt (c : CCfg) (ae : Bool) (ctx : Ctx) : Option Expr → M (Option Val)
  | Option.none => pure Option.none
  | some e => do let v ← eval c ae ctx e; pure (some v)
/-- Python's comparison chain: every operand once, left to right, stops at the first false link -/
def evalCmp (c : CCfg) (ae : Bool) (ctx : Ctx) (v : Val) : List (CmpOp × Expr) → M Val
  | [] => pure (.bool true)
  | (op, e) :: rest => do
      let w ← eval c ae ctx e
      let r ← M.lift (pyCmp op v w)
      if r then evalCmp c ae ctx w rest else pure (.bool false)
end

/-! ## compile-time folding -/

/- `nodes.has_safe_repr` -/
mutual
def safeRepr : Val → Bool
  | .none | .bool _ | .int _ | .str _ | .markup _ => true
  | .list xs => safeReprList xs
  | .tuple xs => safeReprList xs
  | .dict kvs => safeReprPairs kvs
  | .undef _ | .obj _ | .fn _ => false
def safeReprList : List Val → Bool
  | [] => true
  | x :: xs => safeRepr x && safeReprList xs
def safeReprPairs : List (Val × Val) → Bool
  | [] => true
  | (k, v) :: rest => safeRepr k && safeRepr v && safeReprPairs rest
end

/-- the context in which `as_const` runs: no variables, no data objects -/
def emptyCtx : Ctx :=
  { vars := [], attrs := fun _ _ => Option.none, items := fun _ _ => Option.none,
    fnApply := fun _ _ => .error .typeError,
    hookBin := fun _ _ _ => .error .typeError, hookUn := fun _ _ => .error .typeError }

def isObj : Val → Bool
  | .obj _ => true
  | _ => false

def okOpt {α} : Except Err α → Option α
  | .ok a => some a
  | .error _ => Option.none

/-- `nodes._const_result`: a computed value takes part in further folding only if it has a safe repr -/
def constResult (g : Guards) (r : Option Val) : Option Val :=
  match r with
  | some v => if g.resultSafeRepr && !safeRepr v then Option.none else some v
  | Option.none => Option.none

/- **`Expr.as_const`** of every node class (nodes.py), `none` = `Impossible` -/
mutual
def asConst (g : Guards) (t : Tables) (c : CCfg) : Expr → Option Val
  | .const v => some v
  | .name _ => Option.none
  | .tuple es => (asConstList g t c es).map .tuple
  | .list es => (asConstList g t c es).map .list
  | .dict kvs => (asConstPairs g t c kvs).bind (fun ps => okOpt (mkDict ps))
  | .cond tst a b =>
    match asConst g t c tst with
    | Option.none => Option.none
    | some tv =>
      if truth tv then asConst g t c a else asConstElse g t c b
  | .and_ a b =>
    match asConst g t c a with
    | Option.none => Option.none
    | some av => if truth av then asConst g t c b else some av
  | .or_ a b =>
    match asConst g t c a with
    | Option.none => Option.none
    | some av => if truth av then some av else asConst g t c b
  | .not_ a => (asConst g t c a).map (fun av => .bool (!truth av))
  | .compare e ops =>
    match asConst g t c e with
    | Option.none => Option.none
    | some v => asConstCmp g t c v ops
  | .bin op a b =>
    if g.binIntercept && c.sandboxed && decide (op ∈ c.icBin) then Option.none else
    match asConst g t c a, asConst g t c b with
    | some av, some bv => okOpt (pyBin op av bv)
    | _, _ => Option.none
  | .concat es =>
    if g.concatVolatile && c.volatile then Option.none else
    match asConstList g t c es with
    | Option.none => Option.none
    | some vs => some (joinVals (g.concatAutoescape && c.autoescape) vs)
  | .un op a =>
    if g.unIntercept && c.sandboxed && decide (op ∈ c.icUn) then Option.none else
    match asConst g t c a with
    | some av => okOpt (pyUn op av)
    | Option.none => Option.none
  | .getattr e a =>
    match asConst g t c e with
    | some v => if isObj v then Option.none else constResult g (okOpt (envGetattr emptyCtx v a))   -- constants are literals, never data objects
    | Option.none => Option.none
  | .getitem e i =>
    match asConst g t c e, asConst g t c i with
    | some v, some iv => if isObj v then Option.none else constResult g (okOpt (envGetitem emptyCtx v iv))
    | _, _ => Option.none
  | .slice e a b s =>
    match asConst g t c e, asConstOpt g t c a, asConstOpt g t c b, asConstOpt g t c s with
    | some v, some av, some bv, some sv => constResult g (okOpt (pySlice v av bv sv))
    | _, _, _, _ => Option.none
  | .call _ _ => Option.none
  | .filter e name args =>
    if g.filterVolatile && c.volatile then Option.none else
    match t.filter? name with
    | Option.none => Option.none
    | some info =>
      if g.filterContext && info.pass == .context then Option.none else
      if g.filterAsync && c.isAsync && info.asyncVariant then Option.none else
      match asConst g t c e, asConstList g t c args with
      | some v, some vs => constResult g (okOpt (applyFilter c.autoescape name v vs))
      | _, _ => Option.none
  | .test e name args =>
    if g.filterVolatile && c.volatile then Option.none else
    match t.test? name with
    | Option.none => Option.none
    | some info =>
      if g.filterContext && info.pass == .context then Option.none else
      if g.filterAsync && c.isAsync && info.asyncVariant then Option.none else
      match asConst g t c e, asConstList g t c args with
      | some v, some vs => constResult g (okOpt ((applyTest name v vs).map .bool))
      | _, _ => Option.none
def asConstList (g : Guards) (t : Tables) (c : CCfg) : List Expr → Option (List Val)
  | [] => some []
  | e :: es =>
    match asConst g t c e, asConstList g t c es with
    | some v, some vs => some (v :: vs)
    | _, _ => Option.none
def asConstPairs (g : Guards) (t : Tables) (c : CCfg) : List (Expr × Expr) → Option (List (Val × Val))
  | [] => some []
  | (k, v) :: rest =>
    match asConst g t c k, asConst g t c v, asConstPairs g t c rest with
    | some kv, some vv, some ps => some ((kv, vv) :: ps)
    | _, _, _ => Option.none
def asConstElse (g : Guards) (t : Tables) (c : CCfg) : Option Expr → Option Val
  | some b => asConst g t c b
  | Option.none => if g.condNoElse then Option.none
                   else some (.undef "the inline if-expression evaluated to false and no else section was defined.")
def asConstOpt (g : Guards) (t : Tables) (c : CCfg) : Option Expr → Option (Option Val)
  | Option.none => some Option.none
  | some e => (asConst g t c e).map some
def asConstCmp (g : Guards) (t : Tables) (c : CCfg) (v : Val) : List (CmpOp × Expr) → Option Val
  | [] => some (.bool true)
  | (op, e) :: rest =>
    match asConst g t c e with
    | Option.none => Option.none
    | some w =>
      match pyCmp op v w with
      | .error _ => Option.none
      | .ok r =>
        if r then asConstCmp g t c w rest else some (.bool false)
end

/-- `Optimizer.generic_visit` at one node: fold if `as_const` succeeds and the value has a safe repr -/
def foldNode (g : Guards) (t : Tables) (c : CCfg) (e : Expr) : Expr :=
  match asConst g t c e with
  | some v => if !g.fromUntrusted || safeRepr v then .const v else e
  | Option.none => e

/- **`Optimizer.visit`**: children first, then the node itself -/
mutual
def opt (g : Guards) (t : Tables) (c : CCfg) : Expr → Expr
  | .const v => .const v
  | .name n => .name n
  | .tuple es => foldNode g t c (.tuple (optList g t c es))
  | .list es => foldNode g t c (.list (optList g t c es))
  | .dict kvs => foldNode g t c (.dict (optPairs g t c kvs))
  | .cond tst a b => foldNode g t c (.cond (opt g t c tst) (opt g t c a) (optOpt g t c b))
  | .and_ a b => foldNode g t c (.and_ (opt g t c a) (opt g t c b))
  | .or_ a b => foldNode g t c (.or_ (opt g t c a) (opt g t c b))
  | .not_ a => foldNode g t c (.not_ (opt g t c a))
  | .compare e ops => foldNode g t c (.compare (opt g t c e) (optCmp g t c ops))
  | .bin op a b => foldNode g t c (.bin op (opt g t c a) (opt g t c b))
  | .concat es => foldNode g t c (.concat (optList g t c es))
  | .un op a => foldNode g t c (.un op (opt g t c a))
  | .getattr e a => foldNode g t c (.getattr (opt g t c e) a)
  | .getitem e i => foldNode g t c (.getitem (opt g t c e) (opt g t c i))
  | .slice e a b s => foldNode g t c (.slice (opt g t c e) (optOpt g t c a) (optOpt g t c b) (optOpt g t c s))
  | .call f args => .call (opt g t c f) (optList g t c args)
  | .filter e name args => foldNode g t c (.filter (opt g t c e) name (optList g t c args))
  | .test e name args => foldNode g t c (.test (opt g t c e) name (optList g t c args))
def optList (g : Guards) (t : Tables) (c : CCfg) : List Expr → List Expr
  | [] => []
  | e :: es => opt g t c e :: optList g t c es
def optPairs (g : Guards) (t : Tables) (c : CCfg) : List (Expr × Expr) → List (Expr × Expr)
  | [] => []
  | (k, v) :: rest => (opt g t c k, opt g t c v) :: optPairs g t c rest
def optOpt (g : Guards) (t : Tables) (c : CCfg) : Option Expr → Option Expr
  | Option.none => Option.none
  | some e => some (opt g t c e)
def optCmp (g : Guards) (t : Tables) (c : CCfg) : List (CmpOp × Expr) → List (CmpOp × Expr)
  | [] => []
  | (op, e) :: rest => (op, opt g t c e) :: optCmp g t c rest
end

/-- what `{{ e }}` contributes to the output at run time: `escape(v)` or `str(v)` (default finalize) -/
def outputPiece (ae : Bool) (v : Val) : String :=
  if ae then pyStr (mEscape v) else pyStr v

def renderExpr (c : CCfg) (ae : Bool) (ctx : Ctx) (e : Expr) : M String := do
  let v ← eval c ae ctx e
  pure (outputPiece ae v)

/-- `CodeGenerator._output_child_to_const`: the compile-time piece for an output child, if any -/
def outputConst (g : Guards) (t : Tables) (c : CCfg) (e : Expr) : Option String :=
  if g.outputVolatile && c.volatile then Option.none else
  (asConst g t c e).map (outputPiece c.autoescape)

/-- `visit_Output` for one child: a compile-time piece if there is one, otherwise evaluation at run time -/
def outputChild (g : Guards) (t : Tables) (c : CCfg) (ae : Bool) (ctx : Ctx) (e : Expr) : M String :=
  match outputConst g t c e with
  | some s => pure s
  | Option.none => renderExpr c ae ctx e

/-- the whole pipeline for one `{{ e }}`: optimise when enabled and the frame is not volatile (`optimizeconst`), then
    `visit_Output` -/
def compileRender (g : Guards) (t : Tables) (c : CCfg) (optimized : Bool) (ae : Bool) (ctx : Ctx) (e : Expr) : M String :=
  outputChild g t c ae ctx (if optimized && !(g.optSkipsVolatile && c.volatile) then opt g t c e else e)

end JinjaV.Expr
