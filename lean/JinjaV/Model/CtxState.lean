/-
  C29 — which dict objects a render writes to.

  Transcription of runtime.py:93-119 (`new_context`), 166-186 (`Context.__init__`), 225-262 (`resolve_or_missing`,
  `get_all`), 311-322 (`derived`) over a heap of dict objects with *identity*: a dict is an index into the heap, so
  "the caller's dict is reused" (aliasing) and "a copy is made" are different outcomes of the model.

  Values are abstract (`Int`); `none` in a locals list stands for the `missing` sentinel.
-/
namespace JinjaV.CtxState

abbrev Val := Int
abbrev AList := List (String × Val)

def AList.get? (d : AList) (k : String) : Option Val := (d.find? fun p => p.1 == k).map Prod.snd

/-- `d[k] = v` keeps the position of an existing key (Python dict semantics), else appends -/
def AList.set (d : AList) (k : String) (v : Val) : AList :=
  if d.any (fun p => p.1 == k) then d.map (fun p => if p.1 == k then (k, v) else p) else d ++ [(k, v)]

/-- `dict(a, **b)` -/
def AList.merge (a b : AList) : AList := b.foldl (fun acc p => acc.set p.1 p.2) a

/-- the heap: dict objects by identity (index) -/
structure Heap where
  dicts : List AList
  deriving Repr, DecidableEq

-- (dict references are plain `Nat` indices into the heap)

def Heap.size (h : Heap) : Nat := h.dicts.length
def Heap.get (h : Heap) (r : Nat) : AList := h.dicts.getD r []
def Heap.alloc (h : Heap) (d : AList) : Heap × Nat := (⟨h.dicts ++ [d]⟩, h.dicts.length)
def Heap.setKey (h : Heap) (r : Nat) (k : String) (v : Val) : Heap := ⟨h.dicts.modify r (fun d => d.set k v)⟩

structure Ctx where
  parent : Nat
  vars : Nat
  deriving Repr, DecidableEq

/-- `for key, value in locals.items(): if value is not missing: parent[key] = value` -/
def writeLocals (h : Heap) (parent : Nat) : List (String × Option Val) → Heap
  | [] => h
  | (k, some v) :: rest => writeLocals (h.setKey parent k v) parent rest
  | (_, none) :: rest => writeLocals h parent rest

def globalsContent (h : Heap) : Option Nat → AList
  | some g => h.get g
  | none => []

/-- runtime.py:93-119 followed by Context.__init__ (`self.parent = parent; self.vars = {}`).
    `vars` is a dict object (for `vars is None` the function first makes an empty one: the caller of the model allocates
    it); `globals = none` is `globals or ()` being empty. -/
def newContext (h : Heap) (vars : Nat) (shared : Bool) (globals : Option Nat)
    (locals : List (String × Option Val)) : Heap × Ctx :=
  let (h, parent) :=
    if shared then (h, vars)
    else h.alloc (AList.merge (globalsContent h globals) (h.get vars))
  let (h, parent) :=
    if locals.isEmpty then (h, parent)
    else
      let (h, parent) := if shared then h.alloc (h.get parent) else (h, parent)
      (writeLocals h parent locals, parent)
  let (h, own) := h.alloc []
  (h, ⟨parent, own⟩)

/-- which object `get_all` hands out: the parent itself, the vars themselves, or a fresh merged dict (runtime.py:252-262) -/
def getAll (h : Heap) (c : Ctx) : Heap × Nat :=
  if (h.get c.vars).isEmpty then (h, c.parent)
  else if (h.get c.parent).isEmpty then (h, c.vars)
  else h.alloc (AList.merge (h.get c.parent) (h.get c.vars))

/-- runtime.py:311-322: `new_context(env, name, {}, self.get_all(), True, None, locals)` -/
def derived (h : Heap) (c : Ctx) (locals : List (String × Option Val)) : Heap × Ctx :=
  let (h, all) := getAll h c
  newContext h all true none locals

/-- `resolve_or_missing` (runtime.py:230-246) -/
def resolve (h : Heap) (c : Ctx) (k : String) : Option Val :=
  match (h.get c.vars).get? k with
  | some v => some v
  | none => (h.get c.parent).get? k

/-- what generated code does with a context (Gen/CtxWrites: it stores only into `context.vars`, into the vars of a derived
    context it made itself, and into frame locals, which are not heap dicts of the caller) -/
inductive Op where
  | set (k : String) (v : Val)        -- context.vars[k] = v
  | copy (k src : String)             -- context.vars[k] = resolve(src)   (missing is not stored)
  | out (k : String)                  -- yield resolve(k)
  | scope (locals : List (String × Option Val)) (body : List Op)   -- include / call block / overlay scope: a derived
                                                                    -- context (or `template.new_context(get_all(), True, locals)`)
  deriving Repr

mutual
def exec (h : Heap) (c : Ctx) : Op → Heap × List (Option Val)
  | .set k v => (h.setKey c.vars k v, [])
  | .copy k src => match resolve h c src with
    | some v => (h.setKey c.vars k v, [])
    | none => (h, [])
  | .out k => (h, [resolve h c k])
  | .scope locals body =>
    let (h, c') := derived h c locals
    execAll h c' body
def execAll (h : Heap) (c : Ctx) : List Op → Heap × List (Option Val)
  | [] => (h, [])
  | op :: rest =>
    let (h, o1) := exec h c op
    let (h, o2) := execAll h c rest
    (h, o1 ++ o2)
end

/-- `Template.render(vars)`: `ctx = new_context(dict(vars), shared=False, globals=template.globals)`; then the body -/
def render (h : Heap) (vars globals : Nat) (prog : List Op) : Heap × List (Option Val) :=
  let (h, c) := newContext h vars false (some globals) []
  execAll h c prog

/-- every dict object that existed in `h0` still exists in `h` with the same contents -/
def Ext (h0 h : Heap) : Prop := h0.size ≤ h.size ∧ ∀ r, r < h0.size → h.get r = h0.get r

/-! ### The same semantics without a heap (contents only): what a render *means* -/

def pWriteLocals (d : AList) : List (String × Option Val) → AList
  | [] => d
  | (k, some v) :: rest => pWriteLocals (d.set k v) rest
  | (_, none) :: rest => pWriteLocals d rest

def pAll (vs ps : AList) : AList :=
  if vs.isEmpty then ps else if ps.isEmpty then vs else AList.merge ps vs

def pDerivedParent (vs ps : AList) (locals : List (String × Option Val)) : AList :=
  if locals.isEmpty then pAll vs ps else pWriteLocals (pAll vs ps) locals

def presolve (vs ps : AList) (k : String) : Option Val :=
  match vs.get? k with
  | some v => some v
  | none => ps.get? k

mutual
def pexec (vs ps : AList) : Op → AList × List (Option Val)
  | .set k v => (vs.set k v, [])
  | .copy k src => match presolve vs ps src with
    | some v => (vs.set k v, [])
    | none => (vs, [])
  | .out k => (vs, [presolve vs ps k])
  | .scope locals body => (vs, (pexecAll [] (pDerivedParent vs ps locals) body).2)
def pexecAll (vs ps : AList) : List Op → AList × List (Option Val)
  | [] => (vs, [])
  | op :: rest =>
    let (vs, o1) := pexec vs ps op
    let (vs, o2) := pexecAll vs ps rest
    (vs, o1 ++ o2)
end

/-- the output of a render as a function of the *contents* of the data and the globals -/
def prender (varsC globalsC : AList) (prog : List Op) : List (Option Val) :=
  (pexecAll [] (AList.merge globalsC varsC) prog).2

end JinjaV.CtxState
