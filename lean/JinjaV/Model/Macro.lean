/-
  M-Rt / MacroCall: `jinja2.runtime.Macro.__call__` (runtime.py:694-770), the
  argument binding performed before the compiled macro function is invoked.
-/
namespace JinjaV.Macro

abbrev V := Int
abbrev Kw := List (String × V)     -- keyword arguments in call order, keys distinct

structure Sig where
  params : List String             -- `self.arguments`
  catchKwargs : Bool
  catchVarargs : Bool
  caller : Bool                    -- body reads `caller`
  deriving Repr, BEq, DecidableEq

inductive Arg where
  | val (v : V)
  | missing                        -- default to be evaluated by the compiled function
  | undefCaller                    -- `undefined("No caller defined")`
  | kwargs (kv : Kw)
  | varargs (vs : List V)
  deriving Repr, BEq, DecidableEq

inductive Res where
  | ok (args : List Arg)
  | typeErrorKw (twoCallers : Bool) -- unexpected keyword (or "two values for caller")
  | typeErrorPos                    -- too many positional arguments
  deriving Repr, BEq, DecidableEq

/-- `kwargs.pop(name)` -/
def pop (kw : Kw) (name : String) : Option V × Kw :=
  match kw with
  | [] => (none, [])
  | (k, v) :: r => if k = name then (some v, r) else
    let (o, r') := pop r name
    (o, (k, v) :: r')

/-- the `for name in self.arguments[len(arguments):]` loop -/
def fillRest : List String → Kw → List Arg × Kw
  | [], kw => ([], kw)
  | name :: names, kw =>
    let (o, kw') := pop kw name
    let (as, kw'') := fillRest names kw'
    ((match o with | some v => Arg.val v | none => Arg.missing) :: as, kw'')

def call (s : Sig) (args : List V) (kwargs : Kw) : Res :=
  let n := s.params.length
  let arguments := (args.take n).map Arg.val
  let off := arguments.length
  -- `found_caller`: a declared `caller` parameter is always bound by the steps above
  let explicitCaller := s.params.contains "caller"
  let (rest, kw1) := if off != n then fillRest (s.params.drop off) kwargs else ([], kwargs)
  let foundCaller := explicitCaller
  let arguments := arguments ++ rest
  let (arguments, kw2) :=
    if s.caller && !foundCaller then
      let (c, kw') := pop kw1 "caller"
      (arguments ++ [match c with | some v => Arg.val v | none => Arg.undefCaller], kw')
    else (arguments, kw1)
  if !s.catchKwargs && !kw2.isEmpty then
    .typeErrorKw ((kw2.map Prod.fst).contains "caller")
  else
    let arguments := if s.catchKwargs then arguments ++ [Arg.kwargs kw2] else arguments
    if !s.catchVarargs && args.length > n then .typeErrorPos
    else
      .ok (if s.catchVarargs then arguments ++ [Arg.varargs (args.drop n)] else arguments)

end JinjaV.Macro
