/-
  The HTML-producing filters (C24), transcribed over `List Char` and `Escape.Val`.  Core Lean only.

  * tojson    — utils.py:637-674 `htmlsafe_json_dumps`: the replace chain is READ (Gen/HtmlRegex.lean);
                `jsonStrDecode` is json.decoder's string scanner on the body of one string literal
  * xmlattr   — filters.py:254-318 `do_xmlattr`; the rejected key characters are READ from `_attr_key_re`
  * urlize    — utils.py:199-350 `urlize`; `_http_re` / `_email_re` matching are parameters
  * the Markup-aware filters indent, replace, join, format, truncate, wordwrap (filters.py) on top of a model of
    the `markupsafe.Markup` methods they call (`+`, `join`, `replace`, `%`, slicing, `rsplit`, `splitlines`)
-/
import JinjaV.Model.Escape
import JinjaV.Gen.HtmlRegex
namespace JinjaV.HtmlFilt
open JinjaV.Escape

deriving instance DecidableEq for Except

/-! ## tojson -/

/-- `htmlsafe_json_dumps` after `dumps(obj, **kwargs)` returned `d` -/
def tojson (d : List Char) : Val := .markup (applyChain Gen.HtmlRegex.tojsonChain d)

def hexVal (c : Char) : Option Nat :=
  if '0' ≤ c ∧ c ≤ '9' then some (c.toNat - 48)
  else if 'a' ≤ c ∧ c ≤ 'f' then some (c.toNat - 87)
  else if 'A' ≤ c ∧ c ≤ 'F' then some (c.toNat - 55)
  else none

def hex4 (a b c d : Char) : Option Nat :=
  match hexVal a, hexVal b, hexVal c, hexVal d with
  | some a, some b, some c, some d => some (((a * 16 + b) * 16 + c) * 16 + d)
  | _, _, _, _ => none

/-- json/decoder.py BACKSLASH table -/
def simpleEsc (c : Char) : Option Nat :=
  if c = '"' then some 34 else if c = '\\' then some 92 else if c = '/' then some 47 else if c = 'b' then some 8
  else if c = 'f' then some 12 else if c = 'n' then some 10 else if c = 'r' then some 13 else if c = 't' then some 9
  else none

/-- json.decoder.py_scanstring on the text between the quotes of one string literal: the code units it
    denotes (`\uXXXX` → that unit; surrogate pairs are not combined), `none` if it is not a literal body -/
def jsonStrDecode : List Char → Option (List Nat)
  | [] => some []
  | c :: rest =>
    if c = '\\' then
      match rest with
      | [] => none
      | e :: rest' =>
        if e = 'u' then
          match rest' with
          | a :: b :: c :: d :: rest'' =>
            match hex4 a b c d, jsonStrDecode rest'' with
            | some v, some r => some (v :: r)
            | _, _ => none
          | _ => none
        else
          match simpleEsc e, jsonStrDecode rest' with
          | some v, some r => some (v :: r)
          | _, _ => none
    else if c = '"' then none
    else match jsonStrDecode rest with
      | some r => some (c.toNat :: r)
      | none => none

/-! ## xmlattr -/

inductive XVal where
  | none            -- Python `None`
  | undefined       -- a jinja2 `Undefined`
  | val (v : Val)   -- anything else, as `escape(value)` sees it
  deriving Repr, DecidableEq

/-- `_attr_key_re.search(key) is not None` (filters.py:256, 305) -/
def keyBad (k : List Char) : Bool := k.any fun c => Gen.HtmlRegex.attrKeyChars.contains c

/-- the loop of do_xmlattr (filters.py:301-309): `Except.error k` is `ValueError` for key `k` -/
def xmlattrItems : List (List Char × XVal) → Except (List Char) (List (List Char))
  | [] => .ok []
  | (k, v) :: rest =>
    match v with
    | .none => xmlattrItems rest
    | .undefined => xmlattrItems rest
    | .val v =>
      if keyBad k then .error k
      else match xmlattrItems rest with
        | .ok r => .ok ((escape k ++ '=' :: '"' :: v.esc ++ ['"']) :: r)
        | .error e => .error e

def xmlattr (autoescape : Bool) (items : List (List Char × XVal)) (autospace : Bool) : Except (List Char) Val :=
  match xmlattrItems items with
  | .error e => .error e
  | .ok its =>
    let rv := [' '].intercalate its
    let rv := if autospace && !rv.isEmpty then ' ' :: rv else rv
    .ok (if autoescape then .markup rv else .plain rv)

/-! ## urlize -/

/-- `\s` of `re` for str patterns (= `str.isspace`), CPython 3.12 -/
def pyIsSpace (c : Char) : Bool :=
  let n := c.toNat
  (9 ≤ n && n ≤ 13) || (28 ≤ n && n ≤ 32) || n == 0x85 || n == 0xa0 || n == 0x1680 || (0x2000 ≤ n && n ≤ 0x200a) ||
    n == 0x2028 || n == 0x2029 || n == 0x202f || n == 0x205f || n == 0x3000

/-- `re.split(r"(\s+)", s)`: runs of non-space and space characters alternate, first and last are non-space runs -/
def splitWsF : Nat → List Char → List (List Char)
  | 0, _ => [[]]
  | n + 1, s =>
    let w := s.takeWhile fun c => !pyIsSpace c
    match s.dropWhile fun c => !pyIsSpace c with
    | [] => [w]
    | c :: r => w :: (c :: r).takeWhile pyIsSpace :: splitWsF n ((c :: r).dropWhile pyIsSpace)

def splitWs (s : List Char) : List (List Char) := splitWsF (s.length + 1) s

/-- `re.match(r"^([(<]|&lt;)+", middle)`: (head, rest) -/
def takeHead : List Char → List Char × List Char
  | [] => ([], [])
  | c :: r =>
    if c = '(' ∨ c = '<' then ((c :: (takeHead r).1), (takeHead r).2)
    else if c = '&' then
      match r with
      | 'l' :: 't' :: ';' :: r' => ('&' :: 'l' :: 't' :: ';' :: (takeHead r').1, (takeHead r').2)
      | _ => ([], c :: r)
    else ([], c :: r)

def isTailChar (c : Char) : Bool := c == ')' || c == '>' || c == '.' || c == ',' || c == '\n'

/-- the trailing run matched by `re.search(r"([)>.,\n]|&gt;)+$", middle)`, computed on the reversed word:
    `stripTail m.reverse acc = (rest reversed, tail ++ acc)` -/
def stripTail : List Char → List Char → List Char × List Char
  | [], acc => ([], acc)
  | c :: r, acc =>
    if isTailChar c then stripTail r (c :: acc)
    else if c = ';' then
      match r with
      | 't' :: 'g' :: '&' :: r' => stripTail r' ('&' :: 'g' :: 't' :: ';' :: acc)
      | _ => (c :: r, acc)
    else (c :: r, acc)

/-- `str.count(pat)` (non-overlapping), `pat` non-empty -/
def countSubF (pat : List Char) : Nat → List Char → Nat
  | 0, _ => 0
  | _ + 1, [] => 0
  | n + 1, c :: r =>
    if pat.isPrefixOf (c :: r) then 1 + countSubF pat n ((c :: r).drop pat.length)
    else countSubF pat n r

def countSub (pat s : List Char) : Nat := if pat.isEmpty then s.length + 1 else countSubF pat s.length s

/-- `str.find(pat)` -/
def indexSub (pat : List Char) : List Char → Option Nat
  | [] => if pat.isEmpty then some 0 else none
  | c :: r => if pat.isPrefixOf (c :: r) then some 0 else (indexSub pat r).map (· + 1)

/-- the inner `for _ in range(n)` of the balancing step (utils.py:296-301) -/
def moveTail (ec : List Char) : Nat → List Char × List Char → List Char × List Char
  | 0, mt => mt
  | n + 1, (m, t) =>
    match indexSub ec t with
    | none => (m, t)          -- `tail.index` would raise; cannot happen because n ≤ tail.count(ec)
    | some i => moveTail ec n (m ++ t.take (i + ec.length), t.drop (i + ec.length))

def balancePairs : List (List Char × List Char) :=
  [("(".toList, ")".toList), ("<".toList, ">".toList), ("&lt;".toList, "&gt;".toList)]

/-- utils.py:287-301 -/
def balance (mt : List Char × List Char) : List Char × List Char :=
  balancePairs.foldl (fun (mt : List Char × List Char) p =>
    let sc := countSub p.1 mt.1
    if sc ≤ countSub p.2 mt.1 then mt else moveTail p.2 (min sc (countSub p.2 mt.2)) mt) mt

/-- head, middle, tail of one word (utils.py:268-301) -/
def splitWord (word : List Char) : List Char × List Char × List Char :=
  let (head, middle) := takeHead word
  let (mrev, tail) := stripTail middle.reverse []
  let (middle, tail) := balance (mrev.reverse, tail)
  (head, middle, tail)

/-- `x[:n]` for an int `n` -/
def sliceTo (x : List Char) (n : Int) : List Char :=
  if 0 ≤ n then x.take n.toNat else x.take (x.length - (-n).toNat)

/-- `trim_url` (utils.py:246-257) -/
def trimUrl (limit : Option Int) (x : List Char) : List Char :=
  match limit with
  | none => x
  | some l => if (x.length : Int) > l then sliceTo x l ++ "...".toList else x

structure UrlizeArgs where
  isUrl : List Char → Bool      -- `_http_re.match(middle)` is not None
  isEmail : List Char → Bool    -- `_email_re.match(x)` is not None
  limit : Option Int            -- trim_url_limit
  rel : Option (List Char)      -- escaped `rel` if truthy
  target : Option (List Char)   -- escaped `target` if truthy
  schemes : Option (List (List Char))   -- extra_schemes

inductive Seg where
  | text (t : List Char)
  | anchor (href : List Char) (rel target : Option (List Char)) (x : List Char)
  deriving Repr, DecidableEq

def relAttr : Option (List Char) → List Char
  | none => []
  | some v => ' ' :: 'r' :: 'e' :: 'l' :: '=' :: '"' :: (v ++ ['"'])

def targetAttr : Option (List Char) → List Char
  | none => []
  | some v => ' ' :: 't' :: 'a' :: 'r' :: 'g' :: 'e' :: 't' :: '=' :: '"' :: (v ++ ['"'])

/-- `f'<a href="{href}"{rel_attr}{target_attr}>{x}</a>'` -/
def Seg.render : Seg → List Char
  | .text t => t
  | .anchor h r t x =>
    '<' :: 'a' :: ' ' :: 'h' :: 'r' :: 'e' :: 'f' :: '=' :: '"' :: (h ++ '"' :: (relAttr r ++ (targetAttr t ++ '>' :: (x ++ ['<', '/', 'a', '>']))))

/-- one pass of `for scheme in extra_schemes` (utils.py:332-335); `middle` is the string built so far -/
def schemeStep (A : UrlizeArgs) (st : Seg) (scheme : List Char) : Seg :=
  let m := st.render
  if m ≠ scheme ∧ scheme.isPrefixOf m then .anchor m A.rel A.target m else st

/-- utils.py:303-335 -/
def classify (A : UrlizeArgs) (middle : List Char) : Seg :=
  if A.isUrl middle then
    if "https://".toList.isPrefixOf middle || "http://".toList.isPrefixOf middle then
      .anchor middle A.rel A.target (trimUrl A.limit middle)
    else .anchor ("https://".toList ++ middle) A.rel A.target (trimUrl A.limit middle)
  else if "mailto:".toList.isPrefixOf middle && A.isEmail (middle.drop 7) then
    .anchor middle none none (middle.drop 7)
  else if middle.contains '@' && !"www.".toList.isPrefixOf middle && !"@".toList.isPrefixOf middle
      && !middle.contains ':' && A.isEmail middle then
    .anchor ("mailto:".toList ++ middle) none none middle
  else match A.schemes with
    | none => .text middle
    | some ss => ss.foldl (schemeStep A) (.text middle)

def wordSegs (A : UrlizeArgs) (word : List Char) : List Seg :=
  [.text (splitWord word).1, classify A (splitWord word).2.1, .text (splitWord word).2.2]

def urlizeSegs (A : UrlizeArgs) (text : List Char) : List Seg :=
  (splitWs (escape text)).flatMap (wordSegs A)

/-- `utils.urlize(text, trim_url_limit, rel, target, extra_schemes)` -/
def urlize (A : UrlizeArgs) (text : List Char) : List Char :=
  (urlizeSegs A text).flatMap Seg.render

/-- `rel_attr` / `target_attr` (utils.py:260-261): the attribute is written iff the argument is truthy -/
def attrArg (v : Option Val) : Option (List Char) :=
  match v with
  | none => none
  | some v => if v.text.isEmpty then none else some v.esc

/-- `_uri_scheme_re.fullmatch(scheme)` for `^([\w.+-]{2,}:(/){0,2})$` with `\w` as a parameter -/
def validScheme (isWord : Char → Bool) (s : List Char) : Bool :=
  let name := s.takeWhile fun c => isWord c || c == '.' || c == '+' || c == '-'
  let rest := s.dropWhile fun c => isWord c || c == '.' || c == '+' || c == '-'
  decide (2 ≤ name.length) && (rest == [':'] || rest == [':', '/'] || rest == [':', '/', '/'])

/-- recogniser for the documented output shape: escaped text and
    `<a href="U"[ rel="R"][ target="T"]>X</a>` with `U R T X` free of `< > " '` and `U` free of white space -/
def readUntil (stop : Char) : List Char → Option (List Char × List Char)
  | [] => none
  | c :: r => if c = stop then some ([], r) else
      if isM c then none else (readUntil stop r).map fun p => (c :: p.1, p.2)

def dropPrefix? (p s : List Char) : Option (List Char) := if p.isPrefixOf s then some (s.drop p.length) else none

def readAttr (name : String) (s : List Char) : Option (List Char) :=
  match dropPrefix? (' ' :: name.toList ++ ['=', '"']) s with
  | none => some s
  | some r => (readUntil '"' r).map (·.2)

def shapeOKF : Nat → List Char → Bool
  | 0, s => s.isEmpty
  | _ + 1, [] => true
  | n + 1, c :: r =>
    if c = '<' then
      match dropPrefix? "<a href=\"".toList (c :: r) with
      | none => false
      | some r1 =>
        match readUntil '"' r1 with
        | none => false
        | some (u, r2) =>
          if u.any pyIsSpace then false else
          match readAttr "rel" r2 with
          | none => false
          | some r3 =>
            match readAttr "target" r3 with
            | none => false
            | some r4 =>
              match r4 with
              | '>' :: r5 =>
                let x := r5.takeWhile fun c => !isM c
                match dropPrefix? "</a>".toList (r5.drop x.length) with
                | none => false
                | some r6 => if r6.length ≤ n then shapeOKF n r6 else false
              | _ => false
    else if isM c then false else shapeOKF n r

def shapeOK (s : List Char) : Bool := shapeOKF s.length s

/-- recogniser for what `xmlattr` is documented to emit: `( k="v")*` (the first space optional), `k` without
    `< > " '` and without the rejected key characters, `v` without `< > " '` -/
def attrsOKF : Nat → List Char → Bool
  | _, [] => true
  | 0, _ :: _ => false
  | n + 1, c :: r =>
    if c = ' ' then
      let k := r.takeWhile fun c => c != '='
      if k.any (fun c => isM c || Gen.HtmlRegex.attrKeyChars.contains c) then false else
      match r.drop k.length with
      | '=' :: '"' :: r1 =>
        match readUntil '"' r1 with
        | none => false
        | some (_, r2) => if r2.length ≤ n then attrsOKF n r2 else false
      | _ => false
    else false

def attrsOK (s : List Char) : Bool :=
  match s with
  | [] => true
  | ' ' :: _ => attrsOKF s.length s
  | _ => attrsOKF (s.length + 1) (' ' :: s)

/-- characters that END an attribute name for an HTML tokeniser: tab, LF, FF, CR (normalised to LF by the input stream
    preprocessor), space, `/`, `>`, `=`.  Fixed from the HTML standard — deliberately NOT read from `_attr_key_re`, so that
    a weakened key pattern is judged against the standard and not against itself. -/
def htmlNameBreakers : List Char := [' ', '\t', '\n', Char.ofNat 0x0c, '\r', '/', '>', '=']

/-- `attrsOK` with the attribute-name rule of the HTML standard instead of the generated key class -/
def attrsStrictF : Nat → List Char → Bool
  | _, [] => true
  | 0, _ :: _ => false
  | n + 1, c :: r =>
    if c = ' ' then
      let k := r.takeWhile fun c => c != '='
      if k.any (fun c => isM c || htmlNameBreakers.contains c) then false else
      match r.drop k.length with
      | '=' :: '"' :: r1 =>
        match readUntil '"' r1 with
        | none => false
        | some (_, r2) => if r2.length ≤ n then attrsStrictF n r2 else false
      | _ => false
    else false

def attrsStrictOK (s : List Char) : Bool :=
  match s with
  | [] => true
  | ' ' :: _ => attrsStrictF s.length s
  | _ => attrsStrictF (s.length + 1) (' ' :: s)

/-! ## the `markupsafe.Markup` / `str` methods the filters call, on `Val` -/

/-- `a + b` (str.__add__, Markup.__add__, Markup.__radd__: markupsafe/__init__.py:117-127) -/
def vAdd (a b : Val) : Val :=
  match a, b with
  | .plain x, .plain y => .plain (x ++ y)
  | .markup x, y => .markup (x ++ y.esc)
  | .plain x, .markup y => .markup (escape x ++ y)

/-- `sep.join(items)` (str.join gives a plain str; Markup.join escapes the items: markupsafe/__init__.py:153) -/
def vJoin (sep : Val) (items : List Val) : Val :=
  match sep with
  | .plain s => .plain (s.intercalate (items.map Val.text))
  | .markup s => .markup (s.intercalate (items.map Val.esc))

def sameKind (v : Val) (s : List Char) : Val :=
  match v with
  | .plain _ => .plain s
  | .markup _ => .markup s

def lineBreaks : List Char :=
  ['\n', '\r', Char.ofNat 0x0b, Char.ofNat 0x0c, Char.ofNat 0x1c, Char.ofNat 0x1d, Char.ofNat 0x1e, Char.ofNat 0x85,
   Char.ofNat 0x2028, Char.ofNat 0x2029]

/-- `str.splitlines()` (keepends False); `cur` is the current line reversed, `cr` says the previous character
    was a carriage return (a following line feed belongs to the same break) -/
def splitlinesAux : List Char → Bool → List Char → List (List Char)
  | cur, _, [] => if cur.isEmpty then [] else [cur.reverse]
  | cur, cr, c :: r =>
    if cr && c == '\n' then splitlinesAux cur false r
    else if c = '\r' then cur.reverse :: splitlinesAux [] true r
    else if lineBreaks.contains c then cur.reverse :: splitlinesAux [] false r
    else splitlinesAux (c :: cur) false r

def splitlines (s : List Char) : List (List Char) := splitlinesAux [] false s

/-- `v.splitlines()` (Markup.splitlines wraps every line: markupsafe/__init__.py:166) -/
def vSplitlines (v : Val) : List Val := (splitlines v.text).map (sameKind v)

/-- Python `str.replace(old, new, count)`; `count = none` means all (count < 0) -/
def strReplaceF (old new : List Char) : Nat → Option Nat → List Char → List Char
  | 0, _, s => s
  | _ + 1, some 0, s => s
  | _ + 1, _, [] => []
  | n + 1, cnt, c :: r =>
    if old.isPrefixOf (c :: r) then new ++ strReplaceF old new n (cnt.map (· - 1)) ((c :: r).drop old.length)
    else c :: strReplaceF old new n cnt r

/-- the `old == ""` case: `new` before each character and at the end, at most `count` times -/
def interleave (new : List Char) : Option Nat → List Char → List Char
  | some 0, s => s
  | _, [] => new
  | cnt, c :: r => new ++ c :: interleave new (cnt.map (· - 1)) r

def strReplace (s old new : List Char) (count : Option Nat) : List Char :=
  if old.isEmpty then interleave new count s else strReplaceF old new (s.length + 1) count s

/-- `s.replace(old, new, count)` with `old`, `new` already passed through `soft_str`
    (Markup.replace escapes `new` only: markupsafe/__init__.py:245) -/
def vReplace (s old new : Val) (count : Option Nat) : Val :=
  match s with
  | .plain t => .plain (strReplace t old.text new.text count)
  | .markup t => .markup (strReplace t old.text new.esc count)

/-- printf-style `%` with `%s` and `%%` only; `none`: another conversion (out of model);
    `some (.error ())`: TypeError (argument count) -/
def fmtS : List Char → List (List Char) → Option (Except Unit (List Char))
  | [], [] => some (.ok [])
  | [], _ :: _ => some (.error ())      -- not all arguments converted
  | c :: r, args =>
    if c = '%' then
      match r with
      | 's' :: r' =>
        match args with
        | [] => some (.error ())        -- not enough arguments
        | a :: as => match fmtS r' as with
          | some (.ok t) => some (.ok (a ++ t))
          | x => x
      | '%' :: r' => match fmtS r' args with
          | some (.ok t) => some (.ok ('%' :: t))
          | x => x
      | _ => none
    else match fmtS r args with
      | some (.ok t) => some (.ok (c :: t))
      | x => x

/-- `value % args` for a tuple of arguments (Markup.__mod__ wraps each argument so that `%s` escapes it:
    markupsafe/__init__.py:135-148, 325-343) -/
def vMod (value : Val) (args : List Val) : Option (Except Unit Val) :=
  match value with
  | .plain f => (fmtS f (args.map Val.text)).map fun r => r.map Val.plain
  | .markup f => (fmtS f (args.map Val.esc)).map fun r => r.map Val.markup

/-- `v[:n]` for `n ≥ 0` -/
def vTake (v : Val) (n : Nat) : Val := sameKind v (v.text.take n)

/-- `x.rsplit(" ", 1)[0]` -/
def beforeLastSpace (s : List Char) : List Char :=
  match s.reverse.dropWhile (· ≠ ' ') with
  | [] => s
  | _ :: r => r.reverse

/-! ## the filters -/

inductive Width where
  | num (n : Int)
  | str (v : Val)
  deriving Repr

/-- `indention` and `newline` of do_indent (filters.py:838-848) -/
def indentArgs (s : Val) (width : Width) : Val × Val :=
  let indention : Val := match width with
    | .str v => v
    | .num n => .plain (List.replicate n.toNat ' ')
  (if s.isMarkup then Val.markup indention.esc else indention,      -- `escape(indention)`
   if s.isMarkup then Val.markup ['\n'] else Val.plain ['\n'])      -- `Markup(newline)`

/-- filters.py:852-861; `none` is the unreachable `lines.pop(0)` on an empty list -/
def indentBody (newline indention : Val) (blank : Bool) (lines : List Val) : Option Val :=
  if blank then some (vJoin (vAdd newline indention) lines)
  else match lines with
    | [] => none
    | l0 :: rest =>
      if rest.isEmpty then some l0
      else some (vAdd l0 (vAdd newline (vJoin newline (rest.map fun line => if line.text.isEmpty then line else vAdd indention line))))

/-- filters.py:821-866 `do_indent` -/
def doIndent (s : Val) (width : Width) (first blank : Bool) : Option Val :=
  let indention := (indentArgs s width).1
  let newline := (indentArgs s width).2
  (indentBody newline indention blank (vSplitlines (vAdd s newline))).map fun rv =>
    if first then vAdd indention rv else rv

/-- filters.py:178-211 `do_replace` (arguments are `str`/`Markup` values) -/
def doReplace (autoescape : Bool) (s old new : Val) (count : Option Nat) : Val :=
  if !autoescape then .plain (strReplace s.text old.text new.text count)
  else
    let s := if old.isMarkup || (new.isMarkup && !s.isMarkup) then Val.markup s.esc else s
    vReplace s old new count

/-- filters.py:580-634 `sync_do_join` without `attribute` (items are `str`/`Markup`, or already `str(item)`) -/
def doJoin (autoescape : Bool) (value : List Val) (d : Val) : Val :=
  if !autoescape then .plain (d.text.intercalate (value.map Val.text))
  else if !d.isMarkup then
    let doEscape := value.any Val.isMarkup
    let d := if doEscape then Val.markup d.esc else d
    vJoin d value
  else vJoin d value

/-- filters.py:1014-1039 `do_format` with positional arguments -/
def doFormat (value : Val) (args : List Val) : Option (Except Unit Val) := vMod value args

/-- filters.py:869-913 `do_truncate`; `none` is the AssertionError branch -/
def doTruncate (s : Val) (length : Nat) (killwords : Bool) (end_ : Val) (leeway : Nat) : Option Val :=
  if length < end_.text.length then none
  else if s.text.length ≤ length + leeway then some s
  else if killwords then some (vAdd (vTake s (length - end_.text.length)) end_)
  else some (vAdd (sameKind s (beforeLastSpace (s.text.take (length - end_.text.length)))) end_)

/-- filters.py:916-968 `do_wordwrap`; `wrap` is `textwrap.wrap(line, width=…, …)` (its pieces are plain `str`) -/
def doWordwrap (wrap : List Char → List (List Char)) (s : Val) (wrapstring : Val) : Val :=
  vJoin wrapstring ((vSplitlines s).map fun line => vJoin wrapstring ((wrap line.text).map Val.plain))

/-- filters.py:139-144 `do_forceescape`: `escape(str(value.__html__()))` -/
def doForceescape (v : Val) : Val := .markup (escape v.text)

/-- the `escape` / `e` filter is `markupsafe.escape` -/
def doEscape (v : Val) : Val := .markup v.esc

end JinjaV.HtmlFilt
