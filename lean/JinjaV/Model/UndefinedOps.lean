/-
  M-Rt / UndefinedOps: Python's dispatch of each operation to a special method,
  resolved along the class's MRO in the table READ from runtime.py.
-/
import JinjaV.Gen.UndefinedTable
import JinjaV.Spec.Undefined

namespace JinjaV.UndefinedOps
open JinjaV.Gen.UndefinedTable JinjaV.SpecUndefined

def className : Kind → String
  | .default => "Undefined"
  | .chainable => "ChainableUndefined"
  | .debug => "DebugUndefined"
  | .strict => "StrictUndefined"
  | .logging _ => "LoggingUndefined"

def findCls (n : String) : Option Cls := classes.find? (fun c => c.name == n)

/-- method resolution order (single inheritance; `base` of LoggingUndefined is its argument) -/
def mro : Kind → List String
  | .logging b => "LoggingUndefined" :: mro b
  | k =>
    let rec up (fuel : Nat) (n : String) : List String :=
      match fuel with
      | 0 => []
      | fuel + 1 =>
        match findCls n with
        | none => []
        | some c => n :: (match c.bases with | [b] => up fuel b | _ => [])
    up 5 (className k)

/-- first definition of `m` along a class list, and the classes after it -/
def resolveIn : List String → String → Option (Beh × List String)
  | [], _ => none
  | c :: rest, m =>
    match (findCls c).bind (fun cl => cl.methods.lookup m) with
    | some b => some (b, rest)
    | none => resolveIn rest m

def dunder : Op → String
  | .str => "__str__" | .bool => "__bool__" | .iter => "__iter__" | .aiter => "__aiter__" | .len => "__len__"
  | .contains => "__contains__" | .eq => "__eq__" | .ne => "__ne__" | .hash => "__hash__" | .repr => "__repr__"
  | .html => "__html__"
  | .add => "__add__" | .radd => "__radd__" | .sub => "__sub__" | .rsub => "__rsub__" | .mul => "__mul__"
  | .rmul => "__rmul__" | .truediv => "__truediv__" | .rtruediv => "__rtruediv__" | .floordiv => "__floordiv__"
  | .rfloordiv => "__rfloordiv__" | .mod => "__mod__" | .rmod => "__rmod__" | .pow => "__pow__" | .rpow => "__rpow__"
  | .pos => "__pos__" | .neg => "__neg__" | .lt => "__lt__" | .le => "__le__" | .gt => "__gt__" | .ge => "__ge__"
  | .int => "__int__" | .float => "__float__" | .complex => "__complex__"
  | .getattr => "__getattr__" | .getattrDunder => "__getattr__" | .getitem => "__getitem__" | .call => "__call__"

def behOutcome (op : Op) : Beh → Outcome
  | .fail => .raisesUndefined
  | .constStrEmpty => .emptyString
  | .constZero => .zero
  | .constFalse => .falseValue
  | .emptyIter => .emptyIteration
  | .emptyAiter => .emptyAsyncIteration
  | .typeIdentityEq => .typeIdentity
  | .notEq => .notTypeIdentity          -- `not self.__eq__(other)`, refined below through __eq__
  | .hashTypeId => .hashable
  | .reprConst => .reprUndefined
  | .strOfSelf => .stringOfSelf
  | .returnSelf => .itself
  | .getattrFail => if op = .getattrDunder then .attributeError else .raisesUndefined
  | .getattrSelf => if op = .getattrDunder then .attributeError else .itself
  | .debugStr => .debugString
  | .logThenSuper => .raisesUndefined   -- placeholder, handled by `outcomeFuel`

/-- what performing `op` on an undefined value of kind `k` does -/
def outcomeFuel : Nat → List String → Op → String → Outcome
  | 0, _, _, _ => .attributeError
  | fuel + 1, cls, op, m =>
    match resolveIn cls m with
    | none =>
      -- no such special method: Python falls back / probes
      if op = .contains then outcomeFuel fuel cls .iter "__iter__" |> fun o =>
        (match o with | .emptyIteration => .emptyIteration | o => o)
      else .attributeError
    | some (.logThenSuper, rest) => outcomeFuel fuel rest op m      -- log a record, then `super()`
    | some (.notEq, _) =>
      -- `not self.__eq__(other)`
      (match outcomeFuel fuel cls .eq "__eq__" with
       | .typeIdentity => .notTypeIdentity
       | o => o)
    | some (b, _) => behOutcome op b

def outcome (k : Kind) (op : Op) : Outcome :=
  -- `html`: a missing `__html__` is probed with getattr, which raises AttributeError for dunder names
  outcomeFuel 6 (mro k) op (dunder op)

end JinjaV.UndefinedOps
