/-
  M-Filt (collections): `slice`, `batch`, `unique`, `sort`, `groupby`, `min`, `max`, `sum`, … of filters.py
  as list functions.  `key` stands for the attribute getter (with the `ignore_case` post-processor
  already applied), `le` for Python's `<=` on keys.
-/
namespace JinjaV.FiltColl

variable {α κ : Type}

/-- `sync_do_slice` (filters.py:1055-1095): slice `k` is `seq[start:end]` with
    `start = min k extra + k*ips`, `end = min (k+1) extra + (k+1)*ips` (the `offset` variable counts the
    slices that already received an extra item); `fill_with` goes to the slices without extra item,
    provided there is a remainder to even out. -/
def sliceF (xs : List α) (n : Nat) (fill : Option α) : List (List α) :=
  let len := xs.length
  let ips := len / n
  let extra := len % n
  (List.range n).map fun k =>
    let start := min k extra + k * ips
    let stop := min (k + 1) extra + (k + 1) * ips
    let tmp := (xs.drop start).take (stop - start)
    match fill with
    | some f => if extra ≠ 0 ∧ k ≥ extra then tmp ++ [f] else tmp
    | none => tmp

/-- `do_batch` (filters.py:1107-1140) -/
def batchAux (n : Nat) (fill : Option α) : List α → List α → List (List α)
  | [], tmp =>
    if tmp.isEmpty then []
    else match fill with
      | some f => [tmp ++ List.replicate (n - tmp.length) f]
      | none => [tmp]
  | x :: xs, tmp =>
    if tmp.length = n then tmp :: batchAux n fill xs [x]
    else batchAux n fill xs (tmp ++ [x])

def batchF (xs : List α) (n : Nat) (fill : Option α) : List (List α) := batchAux n fill xs []

/-- `do_unique`: keep the first item for every key -/
def uniqueAux [BEq κ] (key : α → κ) : List α → List κ → List α
  | [], _ => []
  | x :: xs, seen =>
    if seen.contains (key x) then uniqueAux key xs seen
    else x :: uniqueAux key xs (key x :: seen)

def uniqueF [BEq κ] (key : α → κ) (xs : List α) : List α := uniqueAux key xs []

/-- `do_sort`: `sorted(value, key=key, reverse=reverse)` — a stable sort -/
def sortF (key : α → κ) (le : κ → κ → Bool) (reverse : Bool) (xs : List α) : List α :=
  if reverse then xs.mergeSort (fun a b => le (key b) (key a))
  else xs.mergeSort (fun a b => le (key a) (key b))

/-- consecutive runs of equal keys -/
def runs [BEq κ] (key : α → κ) : List α → List (κ × List α)
  | [] => []
  | x :: xs =>
    match runs key xs with
    | (k, g) :: rest => if key x == k then (k, x :: g) :: rest else (key x, [x]) :: (k, g) :: rest
    | [] => [(key x, [x])]

/-- `do_groupby`: `groupby(sorted(value, key=expr), expr)` -/
def groupbyF [BEq κ] (key : α → κ) (le : κ → κ → Bool) (xs : List α) : List (κ × List α) :=
  runs key (sortF key le false xs)

/-- Python's `min(it, key=…)`: the first minimal item -/
def minF (key : α → κ) (le : κ → κ → Bool) : List α → Option α
  | [] => none
  | x :: xs => some (xs.foldl (fun best y => if le (key best) (key y) then best else y) x)

/-- Python's `max(it, key=…)`: the first maximal item -/
def maxF (key : α → κ) (le : κ → κ → Bool) : List α → Option α
  | [] => none
  | x :: xs => some (xs.foldl (fun best y => if le (key y) (key best) then best else y) x)

def sumF (xs : List Int) (start : Int) : Int := xs.foldl (· + ·) start

end JinjaV.FiltColl

/-! ## attribute paths: `make_attrgetter` / `make_multi_attrgetter` / `_prepare_attribute_parts` (filters.py:58-136)

Values are modelled as far as `Environment.getitem` (environment.py:467-479: `obj[arg]`, on AttributeError/TypeError/LookupError
`getattr(obj, arg)` for a string `arg`, else `undefined`) can tell them apart.  Domain: dict keys are strings; attribute / key names
are not names of methods of dict/list/str/int (`items`, `keys`, `count`, … would be found by `getattr` on the builtin type);
objects are plain (not subscriptable, no `__getattr__`). -/
namespace JinjaV.FiltColl

inductive Val where
  | int (n : Int)
  | str (s : String)
  | none
  | dict (kvs : List (String × Val))
  | list (xs : List Val)
  | obj (attrs : List (String × Val))
  deriving Inhabited

/-- one element of a dotted path: `_prepare_attribute_parts` turns all-digit pieces into integers -/
inductive Part where
  | name (s : String)
  | idx (n : Nat)
  deriving BEq, DecidableEq, Repr

/-- `_prepare_attribute_parts` for a string attribute: `[int(x) if x.isdigit() else x for x in attr.split(".")]` -/
def preparePiece (x : String) : Part :=
  if x ≠ "" ∧ x.all Char.isDigit then .idx x.toNat! else .name x

def prepareParts (attr : String) : List Part := (attr.splitOn ".").map preparePiece

/-- `Environment.getitem(v, part)` on a defined value; `none` = an Undefined is returned -/
def getitem : Val → Part → Option Val
  | .dict kvs, .name s => kvs.lookup s
  | .obj attrs, .name s => attrs.lookup s
  | .list xs, .idx n => xs[n]?
  | .str s, .idx n => (s.toList[n]?).map fun c => .str (String.singleton c)
  | _, _ => Option.none

/-- what the getter holds after a step: a value, an Undefined, or UndefinedError was raised -/
inductive Res where
  | val (v : Val)
  | undef
  | err
  deriving Inhabited

/-- `environment.getitem(item, part)` where `item` may itself be undefined: `Undefined.__getitem__` raises UndefinedError
    (default and strict), `ChainableUndefined.__getitem__` returns itself (`chain`) -/
def getitemR (chain : Bool) : Res → Part → Res
  | .val v, p => match getitem v p with
    | some w => .val w
    | Option.none => .undef
  | .undef, _ => if chain then .undef else .err
  | .err, _ => .err

/-- `if default is not None and isinstance(item, Undefined): item = default` (`d = none`: no default / `default=None`) -/
def substDefault (d : Option Val) : Res → Res
  | .undef => match d with
    | some v => .val v
    | Option.none => .undef
  | r => r

/-- the body of the `for part in parts` loop: the lookup, THEN the default substitution — after each part -/
def attrStep (chain : Bool) (d : Option Val) (r : Res) (p : Part) : Res := substDefault d (getitemR chain r p)

/-- the loop of `attrgetter` -/
def attrWalk (chain : Bool) (d : Option Val) (parts : List Part) (item : Val) : Res :=
  parts.foldl (attrStep chain d) (.val item)

/-- `ignore_case`: strings are lower-cased, everything else (also an Undefined) is returned as it is -/
def lowerRes : Res → Res
  | .val (.str s) => .val (.str s.toLower)
  | r => r

/-- `make_attrgetter(environment, attribute, postprocess, default)(item)`; `post` = `postprocess is ignore_case` -/
def attrget (chain : Bool) (d : Option Val) (post : Bool) (parts : List Part) (item : Val) : Res :=
  let r := attrWalk chain d parts item
  if post then lowerRes r else r

/-- the plain lookup along the path: `none` as soon as some prefix of the path is undefined -/
def lookupPath : List Part → Val → Option Val
  | [], v => some v
  | p :: ps, v => match getitem v p with
    | some w => lookupPath ps w
    | Option.none => Option.none

/-! ### the filters that take `attribute`, on top of the getter -/

/-- outcome of a filter call: a result, UndefinedError, or outside the modelled domain (keys that are not all ints / all strings,
    undefined sort keys, repr of containers) -/
inductive Out (α : Type) where
  | ok (a : α)
  | raised
  | oom

inductive Key where
  | int (n : Int)
  | str (s : String)
  deriving BEq, DecidableEq

def Key.le : Key → Key → Bool
  | .int a, .int b => a ≤ b
  | .str a, .str b => !(b < a)
  | _, _ => false

def Key.sameKind : Key → Key → Bool
  | .int _, .int _ => true
  | .str _, .str _ => true
  | _, _ => false

def keyOfRes : Res → Option Key
  | .val (.int n) => some (.int n)
  | .val (.str s) => some (.str s)
  | _ => Option.none

def Res.isErr : Res → Bool
  | .err => true
  | _ => false

def homogeneous : List Key → Bool
  | [] => true
  | k :: ks => ks.all (Key.sameKind k)

/-- the keys of all items (indexed), scanning in input order: the first item for which the getter raises makes the filter raise,
    the first key that is not an int / a string, or not of the first key's kind, leaves the modelled domain (Python would hash,
    compare or print it) — whichever comes first -/
def keyedScan : List Res → List Key → Out (List Key)
  | [], acc => .ok acc.reverse
  | r :: rs, acc =>
    if r.isErr then .raised
    else match keyOfRes r with
      | Option.none => .oom
      | some k => if homogeneous (k :: acc) then keyedScan rs (k :: acc) else .oom

def Out.map {α β : Type} (f : α → β) : Out α → Out β
  | .ok a => .ok (f a)
  | .raised => .raised
  | .oom => .oom

def keyed (chain : Bool) (d : Option Val) (post : Bool) (parts : List Part) (items : List Val) : Out (List (Nat × Key)) :=
  (keyedScan (items.map (attrget chain d post parts)) []).map fun ks => (List.range ks.length).zip ks

/-- `map(attribute=…, default=…)`: the getter's result for every item; the first raising item makes the filter raise -/
def mapAttr (chain : Bool) (d : Option Val) (parts : List Part) (items : List Val) : Out (List Res) :=
  let rs := items.map (attrget chain d false parts)
  if rs.any Res.isErr then .raised else .ok rs

/-- `unique(attribute=…, case_sensitive=…)`: indices of the kept items -/
def uniqueAttr (chain post : Bool) (parts : List Part) (items : List Val) : Out (List Nat) :=
  (keyed chain Option.none post parts items).map fun ks => (uniqueF Prod.snd ks).map Prod.fst

def lexLe : List Key → List Key → Bool
  | [], _ => true
  | _ :: _, [] => false
  | a :: as, b :: bs => if a == b then lexLe as bs else Key.le a b

/-- `sort(attribute="p,q,…")`: `make_multi_attrgetter` — one key per comma separated path (no default), compared as lists -/
def sortMultiAttr (chain post reverse : Bool) (cols : List (List Part)) (items : List Val) : Out (List Nat) :=
  let rows := items.map fun it => cols.map fun c => attrget chain Option.none post c it
  if rows.any (·.any Res.isErr) then .raised
  else match rows.mapM (·.mapM keyOfRes) with
    | Option.none => .oom
    | some ks =>
      if (List.range cols.length).all (fun j => homogeneous (ks.filterMap (·[j]?))) then
        .ok ((sortF Prod.snd lexLe reverse ((List.range ks.length).zip ks)).map Prod.fst)
      else .oom

/-- `groupby(attribute, default=…, case_sensitive=…)`: indices per group, in key order -/
def groupbyAttr (chain : Bool) (d : Option Val) (post : Bool) (parts : List Part) (items : List Val) : Out (List (List Nat)) :=
  (keyed chain d post parts items).map fun ks => (groupbyF Prod.snd Key.le ks).map fun (_, g) => g.map Prod.fst

def minAttr (chain post : Bool) (parts : List Part) (items : List Val) : Out (Option Nat) :=
  (keyed chain Option.none post parts items).map fun ks => (minF Prod.snd Key.le ks).map Prod.fst

def maxAttr (chain post : Bool) (parts : List Part) (items : List Val) : Out (Option Nat) :=
  (keyed chain Option.none post parts items).map fun ks => (maxF Prod.snd Key.le ks).map Prod.fst

/-- `sum(attribute=…, start=…)`: `start + v₁ + …`; adding an Undefined raises UndefinedError (all three kinds) -/
def sumAttr (chain : Bool) (parts : List Part) (start : Int) (items : List Val) : Out Int :=
  let step : Out Int → Res → Out Int := fun acc r =>
    match acc, r with
    | .ok n, .val (.int m) => .ok (n + m)
    | .ok _, .undef => .raised
    | .ok _, .err => .raised
    | .ok _, _ => .oom
    | a, _ => a
  (items.map (attrget chain Option.none false parts)).foldl step (.ok start)

/-- `join(sep, attribute=…)` without autoescape: `str(v)`; an Undefined prints as "" unless it is strict -/
def joinAttr (chain strict : Bool) (parts : List Part) (sep : String) (items : List Val) : Out String :=
  let rs := items.map (attrget chain Option.none false parts)
  if rs.any Res.isErr then .raised
  else
    let piece : Res → Out String := fun r =>
      match r with
      | .val (.int n) => .ok (toString n)
      | .val (.str s) => .ok s
      | .undef => if strict then .raised else .ok ""
      | _ => .oom
    let step : Out (List String) → Res → Out (List String) := fun acc r =>
      match acc, piece r with
      | .ok l, .ok s => .ok (l ++ [s])
      | .ok _, .raised => .raised
      | .ok _, .oom => .oom
      | a, _ => a
    (rs.foldl step (.ok [])).map (sep.intercalate ·)

/-- Python truthiness of a modelled value -/
def truthy : Val → Bool
  | .int n => n ≠ 0
  | .str s => s ≠ ""
  | .none => false
  | .dict kvs => !kvs.isEmpty
  | .list xs => !xs.isEmpty
  | .obj _ => true

/-- `selectattr(attribute)` / `rejectattr(attribute)` without a test: `bool(value)`; a strict Undefined raises on `bool` -/
def selectAttr (chain strict keep : Bool) (parts : List Part) (items : List Val) : Out (List Nat) :=
  let rs := items.map (attrget chain Option.none false parts)
  if rs.any Res.isErr then .raised
  else
    let step : Out (List Nat) → (Nat × Res) → Out (List Nat) := fun acc (i, r) =>
      match acc, r with
      | .ok l, .val v => if truthy v == keep then .ok (l ++ [i]) else .ok l
      | .ok l, .undef => if strict then .raised else (if keep then .ok l else .ok (l ++ [i]))
      | a, _ => a
    ((List.range rs.length).zip rs).foldl step (.ok [])

end JinjaV.FiltColl
