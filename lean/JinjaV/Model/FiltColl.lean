/-
  M-Filt (collections): `slice`, `batch`, `unique`, `sort`, `groupby`, `min`, `max`, `sum`, … of filters.py
  as list functions.  `key` stands for the attribute getter (with the `ignore_case` post-processor
  already applied), `le` for Python's `<=` on keys.
-/
namespace JinjaV.FiltColl

variable {α κ : Type}

/-- `sync_do_slice` (filters.py:1055-1095): slice `k` is `seq[start:end]` with
    `start = min k extra + k*ips`, `end = min (k+1) extra + (k+1)*ips` (the `offset` variable counts the
    slices that already received an extra item); `fill_with` goes to the slices without extra item,
    provided there is a remainder to even out. -/
def sliceF (xs : List α) (n : Nat) (fill : Option α) : List (List α) :=
  let len := xs.length
  let ips := len / n
  let extra := len % n
  (List.range n).map fun k =>
    let start := min k extra + k * ips
    let stop := min (k + 1) extra + (k + 1) * ips
    let tmp := (xs.drop start).take (stop - start)
    match fill with
    | some f => if extra ≠ 0 ∧ k ≥ extra then tmp ++ [f] else tmp
    | none => tmp

/-- `do_batch` (filters.py:1107-1140) -/
def batchAux (n : Nat) (fill : Option α) : List α → List α → List (List α)
  | [], tmp =>
    if tmp.isEmpty then []
    else match fill with
      | some f => [tmp ++ List.replicate (n - tmp.length) f]
      | none => [tmp]
  | x :: xs, tmp =>
    if tmp.length = n then tmp :: batchAux n fill xs [x]
    else batchAux n fill xs (tmp ++ [x])

def batchF (xs : List α) (n : Nat) (fill : Option α) : List (List α) := batchAux n fill xs []

/-- `do_unique`: keep the first item for every key -/
def uniqueAux [BEq κ] (key : α → κ) : List α → List κ → List α
  | [], _ => []
  | x :: xs, seen =>
    if seen.contains (key x) then uniqueAux key xs seen
    else x :: uniqueAux key xs (key x :: seen)

def uniqueF [BEq κ] (key : α → κ) (xs : List α) : List α := uniqueAux key xs []

/-- `do_sort`: `sorted(value, key=key, reverse=reverse)` — a stable sort -/
def sortF (key : α → κ) (le : κ → κ → Bool) (reverse : Bool) (xs : List α) : List α :=
  if reverse then xs.mergeSort (fun a b => le (key b) (key a))
  else xs.mergeSort (fun a b => le (key a) (key b))

/-- consecutive runs of equal keys -/
def runs [BEq κ] (key : α → κ) : List α → List (κ × List α)
  | [] => []
  | x :: xs =>
    match runs key xs with
    | (k, g) :: rest => if key x == k then (k, x :: g) :: rest else (key x, [x]) :: (k, g) :: rest
    | [] => [(key x, [x])]

/-- `do_groupby`: `groupby(sorted(value, key=expr), expr)` -/
def groupbyF [BEq κ] (key : α → κ) (le : κ → κ → Bool) (xs : List α) : List (κ × List α) :=
  runs key (sortF key le false xs)

/-- Python's `min(it, key=…)`: the first minimal item -/
def minF (key : α → κ) (le : κ → κ → Bool) : List α → Option α
  | [] => none
  | x :: xs => some (xs.foldl (fun best y => if le (key best) (key y) then best else y) x)

/-- Python's `max(it, key=…)`: the first maximal item -/
def maxF (key : α → κ) (le : κ → κ → Bool) : List α → Option α
  | [] => none
  | x :: xs => some (xs.foldl (fun best y => if le (key y) (key best) then best else y) x)

def sumF (xs : List Int) (start : Int) : Int := xs.foldl (· + ·) start

end JinjaV.FiltColl
