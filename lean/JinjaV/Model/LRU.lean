/-
  M-Cache / LRU: executable model of `jinja2.utils.LRUCache` (utils.py:431-578).

  `mapping` models the dict `_mapping` as an association list (existing key is
  replaced in place, a new key is appended); `queue` models the deque `_queue`
  (left = least recently used, right = most recently used).

  Every method is transcribed statement by statement.  Paths on which the real
  code would raise an exception other than the documented `KeyError`
  (`IndexError` from `_queue[-1]`/`popleft` on an empty deque, `ValueError` from
  an unguarded `_remove`) are represented by the outcome `internal`; the
  invariant theorem shows they are unreachable from `init` with capacity ≥ 1.
-/
namespace JinjaV.LRU

abbrev K := Nat
abbrev V := Nat

structure State where
  cap : Nat
  mapping : List (K × V)
  queue : List K
  deriving Repr, BEq, DecidableEq

inductive Op where
  | getitem (k : K)
  | get (k : K) (d : V)
  | set (k : K) (v : V)
  | del (k : K)
  | setdefault (k : K) (d : V)
  | contains (k : K)
  | len
  | clear
  | copy
  | pickle
  | keys
  | values
  | items
  | iter
  | reversed
  deriving Repr, BEq, DecidableEq

inductive Out where
  | none
  | val (v : V)
  | bool (b : Bool)
  | nat (n : Nat)
  | keys (ks : List K)
  | vals (vs : List V)
  | items (kvs : List (K × V))
  | keyError
  | internal
  deriving Repr, BEq, DecidableEq

def init (cap : Nat) : State := { cap := cap, mapping := [], queue := [] }

/-- `d[k]` -/
def mget (m : List (K × V)) (k : K) : Option V :=
  match m with
  | [] => Option.none
  | (k', v) :: rest => if k' = k then some v else mget rest k

/-- `k in d` -/
def mhas (m : List (K × V)) (k : K) : Bool := (mget m k).isSome

/-- `d[k] = v` -/
def mset (m : List (K × V)) (k : K) (v : V) : List (K × V) :=
  match m with
  | [] => [(k, v)]
  | (k', v') :: rest => if k' = k then (k, v) :: rest else (k', v') :: mset rest k v

/-- `del d[k]` (caller has checked membership) -/
def mdel (m : List (K × V)) (k : K) : List (K × V) :=
  match m with
  | [] => []
  | (k', v') :: rest => if k' = k then rest else (k', v') :: mdel rest k

/-- `deque.remove(k)`: removes the first occurrence -/
def qremove (q : List K) (k : K) : List K :=
  match q with
  | [] => []
  | x :: rest => if x = k then rest else x :: qremove rest k

/-- `__getitem__` (utils.py:508-528) -/
def getitem (s : State) (k : K) : State × Out :=
  match mget s.mapping k with
  | Option.none => (s, .keyError)
  | some rv =>
    match s.queue.getLast? with
    | Option.none => (s, .internal)                       -- `_queue[-1]` on an empty deque
    | some lastk =>
      if lastk ≠ k then
        -- `_remove(key)` with ValueError ignored, then `_append(key)`
        ({ s with queue := qremove s.queue k ++ [k] }, .val rv)
      else (s, .val rv)

/-- `__setitem__` (utils.py:530-541) -/
def setitem (s : State) (k : K) (v : V) : State × Out :=
  if mhas s.mapping k then
    if k ∈ s.queue then
      ({ s with queue := qremove s.queue k ++ [k], mapping := mset s.mapping k v }, .none)
    else (s, .internal)                                   -- unguarded `_remove` → ValueError
  else if s.mapping.length = s.cap then
    match s.queue with
    | [] => (s, .internal)                                -- `popleft` on empty deque
    | old :: q' =>
      if mhas s.mapping old then
        ({ s with queue := q' ++ [k], mapping := mset (mdel s.mapping old) k v }, .none)
      else ({ s with queue := q' }, .internal)            -- `del _mapping[...]` KeyError
  else
    ({ s with queue := s.queue ++ [k], mapping := mset s.mapping k v }, .none)

/-- `__delitem__` (utils.py:543-553) -/
def delitem (s : State) (k : K) : State × Out :=
  if mhas s.mapping k then
    ({ s with mapping := mdel s.mapping k, queue := qremove s.queue k }, .none)
  else (s, .keyError)

/-- `items()` (utils.py:555-559); `_mapping[key]` KeyError → internal -/
def itemsOf (s : State) : Option (List (K × V)) :=
  let rec go : List K → Option (List (K × V))
    | [] => some []
    | k :: ks => match mget s.mapping k, go ks with
      | some v, some r => some ((k, v) :: r)
      | _, _ => Option.none
  (go s.queue).map List.reverse

def step (s : State) : Op → State × Out
  | .getitem k => getitem s k
  | .get k d =>
    match getitem s k with
    | (s', .keyError) => (s', .val d)
    | r => r
  | .set k v => setitem s k v
  | .del k => delitem s k
  | .setdefault k d =>
    match getitem s k with
    | (s', .keyError) =>
      match setitem s' k d with
      | (s'', .none) => (s'', .val d)
      | r => r
    | r => r
  | .contains k => (s, .bool (mhas s.mapping k))
  | .len => (s, .nat s.mapping.length)
  | .clear => ({ s with mapping := [], queue := [] }, .none)
  | .copy => ({ cap := s.cap, mapping := s.mapping, queue := s.queue }, .none)
  | .pickle => ({ cap := s.cap, mapping := s.mapping, queue := s.queue }, .none)
  | .keys => (s, .keys s.queue.reverse)
  | .iter => (s, .keys s.queue.reverse)
  | .reversed => (s, .keys s.queue)
  | .items => match itemsOf s with
    | some kvs => (s, .items kvs)
    | Option.none => (s, .internal)
  | .values => match itemsOf s with
    | some kvs => (s, .vals (kvs.map Prod.snd))
    | Option.none => (s, .internal)

def run (s : State) : List Op → State × List Out
  | [] => (s, [])
  | op :: ops =>
    let (s', o) := step s op
    let (s'', os) := run s' ops
    (s'', o :: os)

end JinjaV.LRU
