/-
  M-I18n — the `{% trans %}` tag of `jinja2.ext.InternationalizationExtension`
  (src/jinja2/ext.py).  Core Lean only; text is `List Char`.

  Transcribed (file:lines refer to /repo/src/jinja2/ext.py):
    * `_parse_block`            468-513   → `parseBlock`
    * `_trim_whitespace`, `_ws_re = \s*\n\s*`  52, 465-466 → `trimWhitespace` (generic `trimG`)
    * `parse`                   343-463   → `parseTrans` (header loop `headerStep`)
    * `_make_node`              515-575   → `makeNode`
    * `_make_new_gettext` … `_make_new_npgettext` 177-249 → `renderNode` (new-style branch)
    * `extract_from_ast`        643-717   → `extractFromAst`
  Assumed, not transcribed: CPython's `str % mapping` for the directive subset `%(name)s`, `%%`
  (`pyPercentFormat`), `markupsafe.escape`/`Markup.__mod__` (`escape`, `Val.show`), `str.strip()` and `re` `\s`
  (the whitespace predicate is a parameter; `pyWs` is the measured CPython table).
-/
namespace JinjaV.I18n

abbrev Text := List Char

/-! ## block bodies -/

/-- what the token stream offers between `{% trans %}` and `{% pluralize %}`/`{% endtrans %}`:
    `data` tokens and `{{ name }}` references (anything else is a syntax error, ext.py:485-511) -/
inductive Piece where
  | data (t : Text)
  | var (name : Text)
  deriving Repr, BEq, DecidableEq

abbrev Body := List Piece

/-- `value.replace("%", "%%")` (ext.py:477) -/
def escPct (t : Text) : Text := t.flatMap fun c => if c = '%' then ['%', '%'] else [c]

/-- `f"%({name})s"` (ext.py:483) -/
def directive (n : Text) : Text := '%' :: '(' :: (n ++ [')', 's'])

def Piece.msg : Piece → Text
  | .data t => escPct t
  | .var n => directive n

def Piece.names : Piece → List Text
  | .data _ => []
  | .var n => [n]

/-- `_parse_block`: (referenced names in order of occurrence, message) -/
def parseBlock (b : Body) : List Text × Text := (b.flatMap Piece.names, b.flatMap Piece.msg)

/-- the block's source text with every `{{ name }}` replaced by `σ name` — the reference rendering -/
def subst (σ : Text → Text) (b : Body) : Text :=
  b.flatMap fun | .data t => t | .var n => σ n

/-- `s.replace("%%", "%")` (ext.py:532-534): left to right, non-overlapping -/
def undouble : Text → Text
  | '%' :: '%' :: r => '%' :: undouble r
  | c :: r => c :: undouble r
  | [] => []

/-! ## `str % mapping` for the directives `%(name)s` and `%%` -/

inductive FmtErr where
  /-- `KeyError`: a `%(name)s` whose name is not in the mapping -/
  | keyError (k : Text)
  /-- anything outside the modelled subset.  Python raises `ValueError` for `%` at the end of the string
      ("incomplete format"), an unterminated `%(key` ("incomplete format key") and an unknown conversion character;
      `%(k)d`, flags, widths, `%s` with a mapping and keys containing parentheses have other semantics.
      The model declines them all (the harness counts, never compares them) -/
  | unsupported
  deriving Repr, BEq, DecidableEq

inductive FmtMode where
  | text
  | pct
  | key (acc : Text)
  | conv (k : Text)

/-- scanner for `fmt % mapping`; `lookup k` is `str(mapping[k])` (after escaping, where that applies) -/
def fmtGo (lookup : Text → Option Text) : FmtMode → Text → Except FmtErr Text
  | .text, [] => .ok []
  | .text, c :: r =>
    if c = '%' then fmtGo lookup .pct r
    else match fmtGo lookup .text r with
      | .ok o => .ok (c :: o)
      | .error e => .error e
  | .pct, [] => .error .unsupported
  | .pct, c :: r =>
    if c = '%' then
      match fmtGo lookup .text r with
      | .ok o => .ok ('%' :: o)
      | .error e => .error e
    else if c = '(' then fmtGo lookup (.key []) r
    else .error .unsupported
  | .key _, [] => .error .unsupported
  | .key acc, c :: r =>
    if c = ')' then fmtGo lookup (.conv acc.reverse) r
    else if c = '(' then .error .unsupported
    else fmtGo lookup (.key (c :: acc)) r
  | .conv _, [] => .error .unsupported
  | .conv k, c :: r =>
    if c = 's' then
      match lookup k with
      | none => .error (.keyError k)
      | some v =>
        match fmtGo lookup .text r with
        | .ok o => .ok (v ++ o)
        | .error e => .error e
    else .error .unsupported

def pyPercentFormat (lookup : Text → Option Text) (fmt : Text) : Except FmtErr Text :=
  fmtGo lookup .text fmt

/-! ## whitespace trimming (generic in the alphabet so that it can be applied to source symbols too) -/

section Trim
variable {α : Type}

/-- `lstrip` -/
def stripL (ws : α → Bool) (l : List α) : List α := l.dropWhile ws

/-- `rstrip` -/
def stripR (ws : α → Bool) : List α → List α
  | [] => []
  | c :: r =>
    match stripR ws r with
    | [] => if ws c then [] else [c]
    | r' => c :: r'

theorem length_dropWhile_le (p : α → Bool) (l : List α) : (l.dropWhile p).length ≤ l.length := by
  induction l with
  | nil => simp
  | cons a r ih => simp only [List.dropWhile_cons]; split <;> simp <;> omega

/-- `_ws_re.sub(" ", ·)` for `_ws_re = \s*\n\s*`: leftmost, greedy, non-overlapping.  At the start of a maximal
    whitespace run the regex matches iff the run contains a line break, and then it matches the whole run
    (`\s*` backtracks to the last line break, the second `\s*` takes the rest); inside a run without a line break no
    position matches. -/
def collapse (ws nl : α → Bool) (sp : α) : List α → List α
  | [] => []
  | c :: r =>
    if ws c then
      (if (c :: r.takeWhile ws).any nl then [sp] else c :: r.takeWhile ws) ++ collapse ws nl sp (r.dropWhile ws)
    else c :: collapse ws nl sp r
termination_by l => l.length
decreasing_by
  · have := length_dropWhile_le ws r
    simp only [List.length_cons]; omega
  · simp only [List.length_cons]; omega

/-- `_trim_whitespace`: `_ws_re.sub(" ", string.strip())` -/
def trimG (ws nl : α → Bool) (sp : α) (l : List α) : List α :=
  collapse ws nl sp (stripR ws (stripL ws l))

end Trim

/-- CPython's `Py_UNICODE_ISSPACE` (what `str.strip()` and `re`'s `\s` on `str` use) — measured table, validated by
    the correspondence run over exactly these and neighbouring code points -/
def pyWs (c : Char) : Bool :=
  let n := c.toNat
  (9 ≤ n && n ≤ 13) || (28 ≤ n && n ≤ 32) || n == 0x85 || n == 0xA0 || n == 0x1680 ||
  (0x2000 ≤ n && n ≤ 0x200A) || n == 0x2028 || n == 0x2029 || n == 0x202F || n == 0x205F || n == 0x3000

def isNl (c : Char) : Bool := c == '\n'

def trimWhitespace (t : Text) : Text := trimG pyWs isNl ' ' t

/-! ## the tag header and `parse` -/

inductive ParseErr where
  | definedTwice (n : Text)            -- ext.py:370-375
  | unknownPluralVar (n : Text)        -- ext.py:418-423
  | pluralizeWithoutVariables          -- ext.py:440-441
  deriving Repr, BEq, DecidableEq

def kwTrimmed : Text := ['t','r','i','m','m','e','d']
def kwNotrimmed : Text := ['n','o','t','r','i','m','m','e','d']
def kwNum : Text := ['n','u','m']
def kwContext : Text := ['c','o','n','t','e','x','t']

/-- state of the header loop ext.py:356-396 -/
structure Header where
  vars : List Text := []          -- keys of `variables` in insertion order
  trimmed : Option Bool := none
  pluralKey : Option Text := none -- the variable whose expression is `plural_expr`
  numCalledNum : Bool := false
  deriving Repr, BEq, DecidableEq

/-- one header item `name` / `name=expr` (`assigned`) -/
def headerStep (h : Header) (it : Text × Bool) : Except ParseErr Header :=
  if it.1 ∈ h.vars then .error (.definedTwice it.1)
  else if !it.2 && h.trimmed.isNone && (it.1 == kwTrimmed || it.1 == kwNotrimmed) then
    .ok { h with trimmed := some (it.1 == kwTrimmed) }
  else
    .ok { h with
      vars := h.vars ++ [it.1]
      pluralKey := match h.pluralKey with | none => some it.1 | some k => some k
      numCalledNum := match h.pluralKey with | none => it.1 == kwNum | some _ => h.numCalledNum }

def headerLoop : Header → List (Text × Bool) → Except ParseErr Header
  | h, [] => .ok h
  | h, it :: r =>
    match headerStep h it with
    | .ok h' => headerLoop h' r
    | .error e => .error e

/-- a `{% trans %}` block as the parser sees it -/
structure Block where
  ctx : Option Text                       -- leading string literal → pgettext context
  header : List (Text × Bool)
  singular : Body
  plural : Option (Option Text × Body)    -- `{% pluralize [name] %}` body
  deriving Repr, BEq, DecidableEq

inductive Func where
  | gettext | ngettext | pgettext | npgettext
  deriving Repr, BEq, DecidableEq

def Func.name : Func → Text
  | .gettext => ['g','e','t','t','e','x','t']
  | .ngettext => ['n','g','e','t','t','e','x','t']
  | .pgettext => ['p','g','e','t','t','e','x','t']
  | .npgettext => ['n','p','g','e','t','t','e','x','t']

/-- the `Call` (and the `%` around it) that `_make_node` builds -/
structure Node where
  func : Func
  ctx : Option Text
  singular : Text
  plural : Option Text
  countKey : Option Text           -- variable whose value is passed as `n`
  keys : List Text                 -- `variables` (dict order; the order of free names comes from a set → unspecified)
  kwargs : List Text               -- new style: keyword arguments of the call
  modKeys : Option (List Text)     -- old style: keys of the dict right of `%`; `none` = no `Mod` node
  newstyle : Bool
  deriving Repr, BEq, DecidableEq

def dedup : List Text → List Text
  | [] => []
  | x :: r => x :: (dedup r).filter (· != x)

/-- `_make_node` ext.py:515-575 -/
def makeNode (newstyle : Bool) (singular : Text) (plural : Option Text) (ctx : Option Text) (keys : List Text)
    (pluralExpr : Option Text) (varsReferenced numCalledNum : Bool) : Node :=
  -- ext.py: `if not variables and not newstyle:` (since a1dc827; before, `not vars_referenced`) — un-double exactly
  -- when no `% dict` will be applied below; `vars_referenced` is still passed but no longer read
  let _ := varsReferenced
  let un := keys.isEmpty && !newstyle
  let singular := if un then undouble singular else singular
  let plural := if un then plural.map undouble else plural
  { func := match ctx, pluralExpr with
      | none, none => .gettext
      | some _, none => .pgettext
      | none, some _ => .ngettext
      | some _, some _ => .npgettext
    ctx := ctx
    singular := singular
    plural := match pluralExpr with | none => none | some _ => plural
    countKey := pluralExpr
    keys := keys
    kwargs := if newstyle then keys.filter (fun k => !(numCalledNum && k == kwNum)) else []
    modKeys := if !newstyle && !keys.isEmpty then some keys else none
    newstyle := newstyle }

structure Cfg where
  newstyle : Bool
  policyTrimmed : Bool       -- `environment.policies["ext.i18n.trimmed"]`
  deriving Repr, BEq, DecidableEq

/-- `InternationalizationExtension.parse` ext.py:343-463 (the `_trans` temporary for a call-valued count expression only
    moves the evaluation of that expression in front of the output node; it is not represented) -/
def parseTrans (cfg : Cfg) (b : Block) : Except ParseErr Node :=
  match headerLoop {} b.header with
  | .error e => .error e
  | .ok h =>
    let s := parseBlock b.singular
    -- ext.py:406-410
    let pk1 : Option Text × Bool :=
      match h.pluralKey, s.1 with
      | none, n :: _ => (some n, n == kwNum)
      | pk, _ => (pk, h.numCalledNum)
    let trimmed := h.trimmed.getD cfg.policyTrimmed
    let tr := fun (t : Text) => if trimmed then trimWhitespace t else t
    match b.plural with
    | none =>
      let keys := h.vars ++ (dedup s.1).filter (fun n => !(h.vars.contains n))
      .ok (makeNode cfg.newstyle (tr s.2) none b.ctx keys none (!s.1.isEmpty) false)
    | some (pn, pbody) =>
      let pk2 : Except ParseErr (Option Text × Bool) :=
        match pn with
        | none => .ok pk1
        | some n => if h.vars.contains n then .ok (some n, n == kwNum) else .error (.unknownPluralVar n)
      match pk2 with
      | .error e => .error e
      | .ok pk =>
        let p := parseBlock pbody
        let referenced := s.1 ++ p.1
        let keys := h.vars ++ (dedup referenced).filter (fun n => !(h.vars.contains n))
        match pk.1 with
        | none => .error .pluralizeWithoutVariables
        | some k =>
          -- `if plural: plural = trim(plural)`: trimming the empty string is the identity anyway
          .ok (makeNode cfg.newstyle (tr s.2) (some (tr p.2)) b.ctx keys (some k) (!referenced.isEmpty) pk.2)

/-! ## values and rendering -/

/-- values of trans variables: strings (plain or `Markup`) and integers -/
inductive Val where
  | str (t : Text) (safe : Bool)
  | int (i : Int)
  deriving Repr, BEq, DecidableEq

def escChar : Char → Text
  | '&' => ['&','a','m','p',';']
  | '<' => ['&','l','t',';']
  | '>' => ['&','g','t',';']
  | '"' => ['&','#','3','4',';']
  | '\'' => ['&','#','3','9',';']
  | c => [c]

/-- `markupsafe.escape` on a plain string -/
def escape (t : Text) : Text := t.flatMap escChar

def intText (i : Int) : Text :=
  if i < 0 then '-' :: Nat.toDigits 10 i.natAbs else Nat.toDigits 10 i.toNat

/-- what `%(k)s` inserts for the value: `str(v)`, or `escape(v)` when the format string is `Markup` (autoescape) -/
def Val.show (autoescape : Bool) : Val → Text
  | .str t safe => if autoescape && !safe then escape t else t
  | .int i => intText i

/-- Python `n == 1` -/
def Val.isOne : Val → Bool
  | .int 1 => true
  | _ => false

/-- the four callables given to `install_gettext_callables` -/
structure Tr where
  gettext : Text → Text
  ngettext : Text → Text → Val → Text
  pgettext : Text → Text → Text
  npgettext : Text → Text → Text → Val → Text

def identityTr : Tr where
  gettext s := s
  ngettext s p n := if n.isOne then s else p
  pgettext _ s := s
  npgettext _ s p n := if n.isOne then s else p

/-- a translation that makes the routing visible in the output (markers contain no `%`) -/
def markTr : Tr where
  gettext s := ['[','g','|'] ++ s ++ [']']
  ngettext s p n := ['[','n','|'] ++ (if n.isOne then s else p) ++ [']']
  pgettext c s := ['[','p','|'] ++ c ++ ['|'] ++ s ++ [']']
  npgettext c s p n := ['[','n','p','|'] ++ c ++ ['|'] ++ (if n.isOne then s else p) ++ [']']

/-- one call received by an installed gettext callable: function, constant string arguments -/
structure Recorded where
  func : Text
  strings : List Text
  deriving Repr, BEq, DecidableEq

def lookupIn (m : List (Text × Text)) (k : Text) : Option Text :=
  match m.find? (fun e => e.1 == k) with
  | some e => some e.2
  | none => none

/-- the undefined value renders as the empty string and is not `== 1` -/
def Val.undefined : Val := .str [] false

def Node.translated (tr : Tr) (σ : Text → Val) (n : Node) : Text :=
  let cnt := match n.countKey with | some k => σ k | none => Val.undefined
  match n.func with
  | .gettext => tr.gettext n.singular
  | .ngettext => tr.ngettext n.singular (n.plural.getD []) cnt
  | .pgettext => tr.pgettext (n.ctx.getD []) n.singular
  | .npgettext => tr.npgettext (n.ctx.getD []) n.singular (n.plural.getD []) cnt

def Node.recorded (n : Node) : Recorded :=
  { func := n.func.name
    strings := (match n.ctx with | some c => [c] | none => []) ++ [n.singular] ++
               (match n.plural with | some p => [p] | none => []) }

/-- the mapping the message is formatted with.  New style: the keyword arguments, then
    `setdefault("context", ctx)` (p-functions, ext.py:215,239) and `setdefault("num", n)` (n-functions, ext.py:200,240). -/
def Node.mapping (ae : Bool) (σ : Text → Val) (n : Node) : Option (List (Text × Text)) :=
  if n.newstyle then
    some (n.kwargs.map (fun k => (k, (σ k).show ae)) ++
      (match n.ctx with | some c => [(kwContext, (Val.str c false).show ae)] | none => []) ++
      (match n.countKey with | some k => [(kwNum, (σ k).show ae)] | none => []))
  else
    n.modKeys.map fun ks => ks.map (fun k => (k, (σ k).show ae))

/-- evaluating the output node: old style `MarkSafeIfAutoescape(call) % {…}` (only if there are variables),
    new style `Markup(func(msg)) % kwargs` always (ext.py:186) -/
def renderNode (ae : Bool) (tr : Tr) (σ : Text → Val) (n : Node) : Except FmtErr Text :=
  match n.mapping ae σ with
  | none => .ok (n.translated tr σ)
  | some m => pyPercentFormat (lookupIn m) (n.translated tr σ)

/-! ## extraction -/

inductive Arg where
  | str (t : Text)   -- `Const` with a string value
  | dyn              -- any other expression
  deriving Repr, BEq, DecidableEq

/-- a `Call` node whose callee is a `Name` -/
structure ECall where
  func : Text
  args : List Arg
  nkw : Nat
  deriving Repr, BEq, DecidableEq

/-- top-level template nodes of the extraction model -/
inductive TNode where
  | data (t : Text)
  | call (c : ECall)        -- `{{ func(args…, kw=…) }}`
  | trans (b : Block)
  deriving Repr, BEq, DecidableEq

def Node.toCall (n : Node) : ECall :=
  { func := n.func.name
    args := (match n.ctx with | some c => [Arg.str c] | none => []) ++ [Arg.str n.singular] ++
            (match n.plural with | some p => [Arg.str p, Arg.dyn] | none => [])
    nkw := n.kwargs.length }

/-- the `Call` nodes `find_all(nodes.Call)` meets, in order (templates with a trans syntax error have no AST) -/
def callsOf (cfg : Cfg) : List TNode → Except ParseErr (List ECall)
  | [] => .ok []
  | .data _ :: r => callsOf cfg r
  | .call c :: r =>
    match callsOf cfg r with
    | .ok cs => .ok (c :: cs)
    | .error e => .error e
  | .trans b :: r =>
    match parseTrans cfg b, callsOf cfg r with
    | .ok n, .ok cs => .ok (n.toCall :: cs)
    | .error e, _ => .error e
    | _, .error e => .error e

structure Extracted where
  func : Text
  strings : List (Option Text)
  deriving Repr, BEq, DecidableEq

/-- `extract_from_ast(…, babel_style=True)` ext.py:684-717 without line numbers; a one-element `strings` is
    presented by the real function as the bare element -/
def extractFromAst (fns : List Text) (calls : List ECall) : List Extracted :=
  (calls.filter (fun c => fns.contains c.func)).map fun c =>
    { func := c.func
      strings := c.args.map (fun | .str t => some t | .dyn => none) ++ List.replicate c.nkw none }

/-- `_` is `_gettext_alias`, which resolves `gettext` in the context (ext.py:162-174) -/
def effective (f : Text) : Text := if f == ['_'] then Func.gettext.name else f

/-- the leading constant string arguments of a call: the message arguments of the gettext family come first -/
def leadingStrs : List Arg → List Text
  | .str t :: r => t :: leadingStrs r
  | _ => []

/-- what the installed callables record when a call node is evaluated: the function and the leading constant strings
    (the run-time value of a `dyn` argument is not a template constant, hence not a message the template contains) -/
def ECall.recorded (c : ECall) : Recorded :=
  { func := effective c.func, strings := leadingStrs c.args }

end JinjaV.I18n
