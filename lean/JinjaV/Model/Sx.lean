/-
  S-expression wire format for the line protocol between the Python harness
  and the Lean driver.  Core Lean only.

    atom   ::= [^ ()"]+            (symbols and integers)
    string ::= '"' (char | \\ | \" | \n | \u{HEX})* '"'
    list   ::= '(' sx* ')'
-/
namespace JinjaV

inductive Sx where
  | atom (s : String)
  | str  (s : String)
  | list (xs : List Sx)
  deriving Repr, BEq, Inhabited

namespace Sx

def hexDigit (n : Nat) : Char :=
  if n < 10 then Char.ofNat (48 + n) else Char.ofNat (87 + n)

partial def natToHex (n : Nat) : String :=
  if n < 16 then String.singleton (hexDigit n)
  else natToHex (n / 16) ++ String.singleton (hexDigit (n % 16))

def escapeChar (c : Char) : String :=
  if c == '"' then "\\\""
  else if c == '\\' then "\\\\"
  else if c.toNat ≥ 32 ∧ c.toNat < 127 then String.singleton c
  else "\\u{" ++ natToHex c.toNat ++ "}"

def escapeStr (s : String) : String :=
  s.foldl (fun acc c => acc ++ escapeChar c) ""

partial def render : Sx → String
  | atom s => s
  | str s => "\"" ++ escapeStr s ++ "\""
  | list xs => "(" ++ " ".intercalate (xs.map render) ++ ")"

def hexVal (c : Char) : Option Nat :=
  if '0' ≤ c ∧ c ≤ '9' then some (c.toNat - 48)
  else if 'a' ≤ c ∧ c ≤ 'f' then some (c.toNat - 87)
  else if 'A' ≤ c ∧ c ≤ 'F' then some (c.toNat - 55)
  else none

/-- parse the body of a string literal after the opening quote -/
partial def parseStr (cs : List Char) (acc : String) : Option (String × List Char) :=
  match cs with
  | [] => none
  | '"' :: rest => some (acc, rest)
  | '\\' :: 'n' :: rest => parseStr rest (acc.push '\n')
  | '\\' :: '\\' :: rest => parseStr rest (acc.push '\\')
  | '\\' :: '"' :: rest => parseStr rest (acc.push '"')
  | '\\' :: 'u' :: '{' :: rest =>
    let rec go (cs : List Char) (n : Nat) : Option (Nat × List Char) :=
      match cs with
      | '}' :: r => some (n, r)
      | c :: r => match hexVal c with
        | some v => go r (n * 16 + v)
        | none => none
      | [] => none
    match go rest 0 with
    | some (n, r) => parseStr r (acc.push (Char.ofNat n))
    | none => none
  | c :: rest => parseStr rest (acc.push c)

mutual
partial def parseOne (cs : List Char) : Option (Sx × List Char) :=
  match cs with
  | [] => none
  | ' ' :: r => parseOne r
  | '(' :: r => parseMany r []
  | ')' :: _ => none
  | '"' :: r => (parseStr r "").map fun (s, r) => (Sx.str s, r)
  | _ =>
    let a := cs.takeWhile (fun c => c != ' ' && c != '(' && c != ')' && c != '"')
    some (Sx.atom (String.ofList a), cs.drop a.length)
partial def parseMany (cs : List Char) (acc : List Sx) : Option (Sx × List Char) :=
  match cs with
  | [] => none
  | ' ' :: r => parseMany r acc
  | ')' :: r => some (Sx.list acc.reverse, r)
  | _ => match parseOne cs with
    | some (x, r) => parseMany r (x :: acc)
    | none => none
end

def parse (s : String) : Option Sx :=
  match parseOne s.toList with
  | some (x, rest) => if rest.all (· == ' ') then some x else none
  | none => none

-- decoding helpers -----------------------------------------------------------

def toInt? : Sx → Option Int
  | atom s => s.toInt?
  | _ => none

def toNat? : Sx → Option Nat
  | atom s => s.toNat?
  | _ => none

def toStr? : Sx → Option String
  | str s => some s
  | _ => none

def toBool? : Sx → Option Bool
  | atom "true" => some true
  | atom "false" => some false
  | _ => none

def toList? : Sx → Option (List Sx)
  | list xs => some xs
  | _ => none

def ofInt (i : Int) : Sx := atom (toString i)
def ofNat (n : Nat) : Sx := atom (toString n)
def ofBool (b : Bool) : Sx := atom (if b then "true" else "false")
def ofStrs (xs : List String) : Sx := list (xs.map str)
def ofInts (xs : List Int) : Sx := list (xs.map ofInt)
def ofNats (xs : List Nat) : Sx := list (xs.map ofNat)

def mapM? {α} (f : Sx → Option α) : List Sx → Option (List α)
  | [] => some []
  | x :: xs => do let a ← f x; let as ← mapM? f xs; pure (a :: as)

def ok (v : Sx) : Sx := list [atom "ok", v]
def err (k : String) : Sx := list [atom "err", atom k]
def oom : Sx := list [atom "oom"]
def bad : Sx := list [atom "bad-request"]

end Sx
end JinjaV
