/-
  Helper lemmas for C30 (Model/Symbols.lean): association-list dictionaries, sets-as-lists, sorting a permutation,
  folds over permutations under an invariant, and the well-formedness invariant of `Symbols`.
-/
import JinjaV.Model.Symbols

namespace JinjaV.Symbols

-- ---------------------------------------------------------------------------------------------------------------
-- dictionaries
-- ---------------------------------------------------------------------------------------------------------------
namespace Dict
variable {β : Type}

theorem mem_keys_set {d : Dict β} {k : String} {v : β} {a : String} :
    a ∈ keys (d.set k v) ↔ a ∈ keys d ∨ a = k := by
  induction d with
  | nil => simp [set, keys]
  | cons h t ih =>
    obtain ⟨k', v'⟩ := h
    unfold set
    by_cases hk : k' = k
    · subst hk
      simp only [if_true, keys, List.map_cons, List.mem_cons]
      constructor
      · exact Or.inl
      · rintro (h | h)
        · exact h
        · exact Or.inl h
    · simp only [hk, if_false]
      simp only [keys, List.map_cons, List.mem_cons] at ih ⊢
      rw [ih]; simp only [or_assoc]

theorem keys_set_of_mem {d : Dict β} {k : String} (v : β) (h : k ∈ keys d) : keys (d.set k v) = keys d := by
  induction d with
  | nil => simp [keys] at h
  | cons hd t ih =>
    obtain ⟨k', v'⟩ := hd
    unfold set
    by_cases hk : k' = k
    · simp [hk, keys]
    · simp only [hk, if_false, keys, List.map_cons] at h ⊢
      have : k ∈ keys t := by
        rcases List.mem_cons.mp h with h | h
        · exact absurd h.symm hk
        · exact h
      rw [show List.map (fun x => x.fst) (set t k v) = keys (set t k v) from rfl, ih this]; rfl

theorem mem_set {d : Dict β} {k : String} {v : β} {p : String × β} (h : p ∈ d.set k v) : p ∈ d ∨ p = (k, v) := by
  induction d with
  | nil => simp [set] at h; exact Or.inr h
  | cons hd t ih =>
    obtain ⟨k', v'⟩ := hd
    unfold set at h
    by_cases hk : k' = k
    · simp only [hk, if_true, List.mem_cons] at h
      rcases h with h | h
      · exact Or.inr h
      · exact Or.inl (List.mem_cons_of_mem _ h)
    · simp only [hk, if_false, List.mem_cons] at h
      rcases h with h | h
      · exact Or.inl (h ▸ List.mem_cons_self)
      · rcases ih h with h | h
        · exact Or.inl (List.mem_cons_of_mem _ h)
        · exact Or.inr h

theorem mem_update {d e : Dict β} {p : String × β} (h : p ∈ d.update e) : p ∈ d ∨ p ∈ e := by
  unfold update at h
  induction e generalizing d with
  | nil => exact Or.inl h
  | cons hd t ih =>
    simp only [List.foldl_cons] at h
    rcases ih h with h | h
    · rcases mem_set h with h | h
      · exact Or.inl h
      · exact Or.inr (h ▸ List.mem_cons_self)
    · exact Or.inr (List.mem_cons_of_mem _ h)

theorem mem_keys_update {d e : Dict β} {a : String} : a ∈ keys (d.update e) ↔ a ∈ keys d ∨ a ∈ keys e := by
  unfold update
  induction e generalizing d with
  | nil => simp [keys]
  | cons hd t ih =>
    simp only [List.foldl_cons]
    rw [ih, mem_keys_set]
    simp only [keys, List.map_cons, List.mem_cons]
    constructor
    · rintro ((h | h) | h)
      · exact Or.inl h
      · exact Or.inr (Or.inl h)
      · exact Or.inr (Or.inr h)
    · rintro (h | h | h)
      · exact Or.inl (Or.inl h)
      · exact Or.inl (Or.inr h)
      · exact Or.inr h

theorem get?_some_mem {d : Dict β} {k : String} {v : β} (h : d.get? k = some v) : (k, v) ∈ d := by
  induction d with
  | nil => simp [get?] at h
  | cons hd t ih =>
    obtain ⟨k', v'⟩ := hd
    unfold get? at h
    by_cases hk : k' = k
    · simp only [hk, if_true, Option.some.injEq] at h
      subst hk; subst h; exact List.mem_cons_self
    · simp only [hk, if_false] at h
      exact List.mem_cons_of_mem _ (ih h)

theorem get?_isSome_of_mem_keys {d : Dict β} {k : String} (h : k ∈ keys d) : ∃ v, d.get? k = some v := by
  induction d with
  | nil => simp [keys] at h
  | cons hd t ih =>
    obtain ⟨k', v'⟩ := hd
    unfold get?
    by_cases hk : k' = k
    · exact ⟨v', by simp [hk]⟩
    · simp only [hk, if_false]
      apply ih
      simp only [keys, List.map_cons, List.mem_cons] at h
      rcases h with h | h
      · exact absurd h.symm hk
      · exact h

theorem mem_keys_of_mem {d : Dict β} {k : String} {v : β} (h : (k, v) ∈ d) : k ∈ keys d :=
  List.mem_map.mpr ⟨(k, v), h, rfl⟩

/-- writes to two different keys that both exist commute (no new key is appended, positions are kept) -/
theorem set_comm {z : Dict β} {k1 k2 : String} (v1 v2 : β) (hne : k1 ≠ k2) (h1 : k1 ∈ keys z) (h2 : k2 ∈ keys z) :
    (z.set k1 v1).set k2 v2 = (z.set k2 v2).set k1 v1 := by
  induction z with
  | nil => simp [keys] at h1
  | cons hd t ih =>
    obtain ⟨k', v'⟩ := hd
    simp only [keys, List.map_cons, List.mem_cons] at h1 h2
    by_cases e1 : k' = k1
    · have e2 : ¬ k' = k2 := fun h => hne (e1.symm.trans h)
      simp [set, e1, hne]
    · by_cases e2 : k' = k2
      · have hne' : ¬ k2 = k1 := fun h => hne h.symm
        simp [set, e2, hne']
      · have h1' : k1 ∈ keys t := by
          rcases h1 with h | h
          · exact absurd h.symm e1
          · exact h
        have h2' : k2 ∈ keys t := by
          rcases h2 with h | h
          · exact absurd h.symm e2
          · exact h
        simp only [set, e1, e2, if_false]
        rw [ih h1' h2']

end Dict

-- ---------------------------------------------------------------------------------------------------------------
-- sets as lists, sorting, folds over permutations
-- ---------------------------------------------------------------------------------------------------------------

theorem mem_sadd {s : List String} {x a : String} : a ∈ sadd s x ↔ a ∈ s ∨ a = x := by
  unfold sadd
  by_cases h : x ∈ s
  · simp only [h, if_true]
    constructor
    · exact Or.inl
    · rintro (h' | h')
      · exact h'
      · exact h' ▸ h
  · simp [h]

theorem mem_supdate {s t : List String} {a : String} : a ∈ supdate s t ↔ a ∈ s ∨ a ∈ t := by
  unfold supdate
  induction t generalizing s with
  | nil => simp
  | cons hd tl ih =>
    simp only [List.foldl_cons]
    rw [ih, mem_sadd]
    simp only [List.mem_cons, or_assoc]

/-- `sorted` of a set does not depend on the order in which the set is iterated -/
theorem sortStr_perm {l₁ l₂ : List String} (h : l₁.Perm l₂) : sortStr l₁ = sortStr l₂ := by
  unfold sortStr
  have tr : ∀ a b c : String, decide (a ≤ b) = true → decide (b ≤ c) = true → decide (a ≤ c) = true := by
    intro a b c h1 h2
    exact decide_eq_true (String.le_trans (of_decide_eq_true h1) (of_decide_eq_true h2))
  have tot : ∀ a b : String, (decide (a ≤ b) || decide (b ≤ a)) = true := by
    intro a b
    rcases String.le_total a b with h | h <;> simp [h]
  apply List.Perm.eq_of_pairwise (le := fun a b => decide (a ≤ b) = true)
  · intro a b _ _ h1 h2
    exact String.le_antisymm (of_decide_eq_true h1) (of_decide_eq_true h2)
  · exact List.pairwise_mergeSort tr tot l₁
  · exact List.pairwise_mergeSort tr tot l₂
  · exact ((List.mergeSort_perm l₁ _).trans h).trans (List.mergeSort_perm l₂ _).symm

/-- a fold preserves an invariant that every step (for the elements of the list) preserves -/
theorem foldl_inv {α β : Type} {f : β → α → β} {P : β → Prop} {l : List α}
    (hP : ∀ z, P z → ∀ x ∈ l, P (f z x)) (init : β) (h0 : P init) : P (l.foldl f init) := by
  induction l generalizing init with
  | nil => exact h0
  | cons hd tl ih =>
    simp only [List.foldl_cons]
    exact ih (fun z hz x hx => hP z hz x (List.mem_cons_of_mem _ hx)) _ (hP _ h0 _ List.mem_cons_self)

/-- folding over two permutations of a list gives the same result if the steps commute on states that satisfy an
    invariant the steps preserve -/
theorem foldl_perm_inv {α β : Type} {f : β → α → β} {P : β → Prop} {l₁ l₂ : List α} (h : l₁.Perm l₂)
    (hP : ∀ z, P z → ∀ x ∈ l₁, P (f z x))
    (comm : ∀ z, P z → ∀ x ∈ l₁, ∀ y ∈ l₁, f (f z x) y = f (f z y) x)
    (init : β) (h0 : P init) : l₁.foldl f init = l₂.foldl f init := by
  induction h generalizing init with
  | nil => rfl
  | cons x _ ih =>
    simp only [List.foldl_cons]
    exact ih (fun z hz y hy => hP z hz y (List.mem_cons_of_mem _ hy))
      (fun z hz a ha b hb => comm z hz a (List.mem_cons_of_mem _ ha) b (List.mem_cons_of_mem _ hb))
      _ (hP _ h0 _ List.mem_cons_self)
  | swap x y l =>
    simp only [List.foldl_cons]
    rw [comm init h0 y (List.mem_cons_self) x (List.mem_cons_of_mem _ List.mem_cons_self)]
  | trans p₁ _ ih₁ ih₂ =>
    rw [ih₁ hP comm init h0]
    exact ih₂ (fun z hz x hx => hP z hz x (p₁.mem_iff.mpr hx))
      (fun z hz a ha b hb => comm z hz a (p₁.mem_iff.mpr ha) b (p₁.mem_iff.mpr hb)) init h0

theorem ident_inj {lvl : Nat} {a b : String} (h : ident lvl a = ident lvl b) : a = b := by
  unfold ident at h
  exact (String.append_right_inj _).mp ((String.append_right_inj _).mp ((String.append_right_inj _).mp h))

-- ---------------------------------------------------------------------------------------------------------------
-- the invariant of a Symbols object
-- ---------------------------------------------------------------------------------------------------------------

/-- what every `Symbols` built by `declare_parameter / store / load / copy / branch_update` satisfies: each reference is
    the canonical identifier of its level, each reference has a load instruction in the same object, each stored name has
    a reference -/
structure WF (s : Sym) : Prop where
  canon : ∀ n r, (n, r) ∈ s.refs → r = ident s.level n
  loaded : ∀ n r, (n, r) ∈ s.refs → r ∈ s.loads.keys
  stored : ∀ n, n ∈ s.stores → n ∈ s.refs.keys

theorem wf_empty (lvl : Nat) : WF (emptySym lvl) :=
  ⟨by simp [emptySym], by simp [emptySym], by simp [emptySym]⟩

theorem wf_defineRef {s : Sym} (h : WF s) (n : String) (l : Load) (extra : List String)
    (hx : ∀ a ∈ extra, a ∈ s.stores ∨ a = n) : WF (defineRef { s with stores := extra } n l) := by
  refine ⟨?_, ?_, ?_⟩
  · intro a r hm
    rcases Dict.mem_set hm with hm | hm
    · exact h.canon a r hm
    · simp only [Prod.mk.injEq] at hm; rw [hm.1, hm.2]; rfl
  · intro a r hm
    show r ∈ Dict.keys (Dict.set s.loads _ _)
    rw [Dict.mem_keys_set]
    rcases Dict.mem_set hm with hm | hm
    · exact Or.inl (h.loaded a r hm)
    · simp only [Prod.mk.injEq] at hm; exact Or.inr hm.2
  · intro a ha
    show a ∈ Dict.keys (Dict.set s.refs _ _)
    rw [Dict.mem_keys_set]
    rcases hx a ha with h' | h'
    · exact Or.inl (h.stored a h')
    · exact Or.inr h'

theorem wf_declareParameter {s : Sym} (h : WF s) (n : String) : WF (declareParameter s n) :=
  wf_defineRef h n .param _ (fun _ ha => mem_sadd.mp ha)

theorem wf_load {s : Sym} (ps : List Sym) (h : WF s) (n : String) : WF (load ps s n) := by
  unfold load
  split
  · exact h
  · exact wf_defineRef h n _ s.stores (fun _ ha => Or.inl ha)

theorem wf_store {s : Sym} (ps : List Sym) (h : WF s) (n : String) : WF (store ps s n) := by
  unfold store
  simp only
  split
  · rename_i hs
    refine ⟨h.canon, h.loaded, ?_⟩
    intro a ha
    rcases mem_sadd.mp ha with ha | ha
    · exact h.stored a ha
    · obtain ⟨v, hv⟩ := Option.isSome_iff_exists.mp hs
      subst ha
      exact Dict.mem_keys_of_mem (Dict.get?_some_mem hv)
  · split
    · exact wf_defineRef h n _ _ (fun _ ha => mem_sadd.mp ha)
    · exact wf_defineRef h n _ _ (fun _ ha => mem_sadd.mp ha)

theorem level_declareParameter (s : Sym) (n : String) : (declareParameter s n).level = s.level := rfl

theorem level_load (ps : List Sym) (s : Sym) (n : String) : (load ps s n).level = s.level := by
  unfold load; split <;> rfl

theorem level_store (ps : List Sym) (s : Sym) (n : String) : (store ps s n).level = s.level := by
  unfold store; simp only; split
  · rfl
  · split <;> rfl

/-- merging one branch (idtracking.py:130-132) keeps the invariant -/
theorem wf_merge1 {a b : Sym} (ha : WF a) (hb : WF b) (hl : b.level = a.level) :
    WF { a with refs := a.refs.update b.refs, loads := a.loads.update b.loads, stores := supdate a.stores b.stores } := by
  refine ⟨?_, ?_, ?_⟩
  · intro n r hm
    rcases Dict.mem_update hm with hm | hm
    · exact ha.canon n r hm
    · have := hb.canon n r hm; rw [hl] at this; exact this
  · intro n r hm
    show r ∈ Dict.keys (Dict.update a.loads b.loads)
    rw [Dict.mem_keys_update]
    rcases Dict.mem_update hm with hm | hm
    · exact Or.inl (ha.loaded n r hm)
    · exact Or.inr (hb.loaded n r hm)
  · intro n hn
    show n ∈ Dict.keys (Dict.update a.refs b.refs)
    rw [Dict.mem_keys_update]
    rcases mem_supdate.mp hn with hn | hn
    · exact Or.inl (ha.stored n hn)
    · exact Or.inr (hb.stored n hn)

theorem branchMerge_spec {s : Sym} {bs : List Sym} (h : WF s) (hb : ∀ b ∈ bs, WF b ∧ b.level = s.level) :
    WF (branchMerge s bs) ∧ (branchMerge s bs).level = s.level ∧
      (∀ n, n ∈ s.stores → n ∈ (branchMerge s bs).stores) ∧
      (∀ b ∈ bs, ∀ n ∈ b.stores, n ∈ (branchMerge s bs).stores) := by
  unfold branchMerge
  induction bs generalizing s with
  | nil => exact ⟨h, rfl, fun _ hn => hn, by simp⟩
  | cons b t ih =>
    simp only [List.foldl_cons]
    have hb0 := hb b List.mem_cons_self
    have h1 := wf_merge1 h hb0.1 hb0.2
    have := ih h1 (fun c hc => hb c (List.mem_cons_of_mem _ hc))
    obtain ⟨w, lv, st, bst⟩ := this
    refine ⟨w, lv, fun n hn => st n (mem_supdate.mpr (Or.inl hn)), ?_⟩
    intro c hc n hn
    rcases List.mem_cons.mp hc with hc | hc
    · subst hc; exact st n (mem_supdate.mpr (Or.inr hn))
    · exact bst c hc n hn

theorem mem_branchNew {s : Sym} {bs : List Sym} {n : String} (h : n ∈ branchNew s bs) : ∃ b ∈ bs, n ∈ b.stores := by
  unfold branchNew at h
  have h' := (List.mem_filter.mp h).1
  have gen : ∀ (bs : List Sym) (acc : List String), n ∈ bs.foldl (fun acc b => supdate acc b.stores) acc →
      n ∈ acc ∨ ∃ b ∈ bs, n ∈ b.stores := by
    intro bs
    induction bs with
    | nil => intro acc h; exact Or.inl h
    | cons b t ih =>
      intro acc h
      simp only [List.foldl_cons] at h
      rcases ih _ h with h | ⟨c, hc, hn⟩
      · rcases mem_supdate.mp h with h | h
        · exact Or.inl h
        · exact Or.inr ⟨b, List.mem_cons_self, h⟩
      · exact Or.inr ⟨c, List.mem_cons_of_mem _ hc, hn⟩
  rcases gen bs [] h' with h | h
  · simp at h
  · exact h

/-- in a well-formed object a stored name resolves locally to its canonical identifier, which has a load slot -/
theorem wf_target {m : Sym} (h : WF m) (ps : List Sym) {n : String} (hn : n ∈ m.stores) :
    findRefFrom m.refs ps n = some (ident m.level n) ∧ ident m.level n ∈ m.loads.keys := by
  obtain ⟨r, hr⟩ := Dict.get?_isSome_of_mem_keys (h.stored n hn)
  have hm := Dict.get?_some_mem hr
  have hc := h.canon n r hm
  subst hc
  exact ⟨by unfold findRefFrom; rw [hr], h.loaded n _ hm⟩

/-- the state the loop of `branch_update` starts from, and what is true of every name it visits -/
theorem branch_targets {s : Sym} {bs : List Sym} (ps : List Sym) (h : WF s) (hb : ∀ b ∈ bs, WF b ∧ b.level = s.level)
    {n : String} (hn : n ∈ branchNew s bs) :
    findRefFrom (branchMerge s bs).refs ps n = some (ident s.level n) ∧
      ident s.level n ∈ (branchMerge s bs).loads.keys := by
  obtain ⟨w, lv, _, bst⟩ := branchMerge_spec h hb
  obtain ⟨b, hbm, hnb⟩ := mem_branchNew hn
  have := wf_target w ps (bst b hbm n hnb)
  rw [lv] at this
  exact this

/-- `branch_update` for any two iteration orders of the local set `stores` -/
theorem branchUpdate_perm {s : Sym} {bs : List Sym} (ps : List Sym) (h : WF s)
    (hb : ∀ b ∈ bs, WF b ∧ b.level = s.level) {l₁ l₂ : List String} (hp : l₁.Perm l₂)
    (hl : ∀ n ∈ l₁, n ∈ branchNew s bs) :
    l₁.foldl (branchStep (branchMerge s bs).refs ps) (branchMerge s bs).loads =
      l₂.foldl (branchStep (branchMerge s bs).refs ps) (branchMerge s bs).loads := by
  apply foldl_perm_inv (P := fun z => Dict.keys z = Dict.keys (branchMerge s bs).loads) hp
  · intro z hz x hx
    obtain ⟨e, k⟩ := branch_targets ps h hb (hl x hx)
    unfold branchStep
    rw [e]
    show Dict.keys (Dict.set z _ _) = _
    rw [Dict.keys_set_of_mem _ (hz ▸ k)]; exact hz
  · intro z hz x hx y hy
    obtain ⟨ex, kx⟩ := branch_targets ps h hb (hl x hx)
    obtain ⟨ey, ky⟩ := branch_targets ps h hb (hl y hy)
    unfold branchStep
    rw [ex, ey]
    by_cases hxy : x = y
    · subst hxy; rfl
    · exact Dict.set_comm _ _ (fun e => hxy (ident_inj e)) (hz ▸ kx) (hz ▸ ky)
  · rfl

theorem branchUpdate_wf {s : Sym} {bs : List Sym} (ps : List Sym) (h : WF s)
    (hb : ∀ b ∈ bs, WF b ∧ b.level = s.level) {f : List String → List String} (hf : ∀ l, (f l).Perm l) :
    WF (branchUpdate f ps s bs) ∧ (branchUpdate f ps s bs).level = s.level := by
  obtain ⟨w, lv, _, _⟩ := branchMerge_spec h hb
  have keys : Dict.keys (branchUpdate f ps s bs).loads = Dict.keys (branchMerge s bs).loads := by
    unfold branchUpdate
    apply foldl_inv (P := fun z => Dict.keys z = Dict.keys (branchMerge s bs).loads)
    · intro z hz x hx
      obtain ⟨e, k⟩ := branch_targets ps h hb ((hf _).mem_iff.mp hx)
      unfold branchStep
      rw [e]
      show Dict.keys (Dict.set z _ _) = _
      rw [Dict.keys_set_of_mem _ (hz ▸ k)]; exact hz
    · rfl
  refine ⟨⟨w.canon, ?_, w.stored⟩, lv⟩
  intro n r hm
  rw [keys]
  exact w.loaded n r hm

/-- the symbol analysis of a frame: same result for any two choosers, invariant and level kept -/
theorem analyze_spec {o₁ o₂ : Chooser} (h₁ : o₁.Valid) (h₂ : o₂.Valid) (ps : List Sym) (prog : Prog) :
    ∀ (p : List Nat) (s : Sym), WF s →
      analyze o₁ ps p s prog = analyze o₂ ps p s prog ∧ WF (analyze o₁ ps p s prog) ∧
        (analyze o₁ ps p s prog).level = s.level := by
  induction prog with
  | done => intro p s h; exact ⟨rfl, h, rfl⟩
  | param n k ih =>
    intro p s h
    have := ih (0 :: p) _ (wf_declareParameter h n)
    exact ⟨this.1, this.2.1, this.2.2.trans (level_declareParameter s n)⟩
  | store n k ih =>
    intro p s h
    have := ih (0 :: p) _ (wf_store ps h n)
    exact ⟨this.1, this.2.1, this.2.2.trans (level_store ps s n)⟩
  | load n k ih =>
    intro p s h
    have := ih (0 :: p) _ (wf_load ps h n)
    exact ⟨this.1, this.2.1, this.2.2.trans (level_load ps s n)⟩
  | branch b1 b2 b3 k ih1 ih2 ih3 ihk =>
    intro p s h
    obtain ⟨e1, w1, l1⟩ := ih1 (1 :: p) s h
    obtain ⟨e2, w2, l2⟩ := ih2 (2 :: p) s h
    obtain ⟨e3, w3, l3⟩ := ih3 (3 :: p) s h
    simp only [analyze]
    rw [← e1, ← e2, ← e3]
    have hb : ∀ b ∈ [analyze o₁ ps (1 :: p) s b1, analyze o₁ ps (2 :: p) s b2, analyze o₁ ps (3 :: p) s b3],
        WF b ∧ b.level = s.level := by
      intro b hb
      simp only [List.mem_cons, List.mem_nil_iff, or_false] at hb
      rcases hb with hb | hb | hb <;> subst hb
      · exact ⟨w1, l1⟩
      · exact ⟨w2, l2⟩
      · exact ⟨w3, l3⟩
    have heq : branchUpdate (o₁ p) ps s
          [analyze o₁ ps (1 :: p) s b1, analyze o₁ ps (2 :: p) s b2, analyze o₁ ps (3 :: p) s b3] =
        branchUpdate (o₂ p) ps s
          [analyze o₁ ps (1 :: p) s b1, analyze o₁ ps (2 :: p) s b2, analyze o₁ ps (3 :: p) s b3] := by
      unfold branchUpdate
      simp only
      rw [branchUpdate_perm ps h hb ((h₁ p _).trans (h₂ p _).symm) (fun n hn => (h₁ p _).mem_iff.mp hn)]
    obtain ⟨wu, lu⟩ := branchUpdate_wf ps h hb (h₁ p)
    rw [← heq]
    have := ihk (0 :: p) _ wu
    exact ⟨this.1, this.2.1, this.2.2.trans lu⟩

theorem dumpStores_perm {f g : List String → List String} (hf : ∀ l, (f l).Perm l) (hg : ∀ l, (g l).Perm l)
    (chain : List Sym) : dumpStores f chain = dumpStores g chain := by
  unfold dumpStores
  congr 1
  funext rv node
  rw [sortStr_perm ((hf node.stores).trans (hg node.stores).symm)]

theorem perm_singleton_eq {a : String} {l : List String} (h : l.Perm [a]) : l = [a] :=
  List.perm_singleton.mp h

theorem popAssignWith_perm (fl : Flags) (chain : List Sym) {vars it₁ it₂ : List String}
    (h₁ : it₁.Perm vars) (h₂ : it₂.Perm vars) :
    popAssignWith fl chain vars it₁ = popAssignWith fl chain vars it₂ := by
  have hp : it₁.Perm it₂ := h₁.trans h₂.symm
  have hs : sortStr it₁ = sortStr it₂ := sortStr_perm hp
  have hpub := hp.filter (fun x => !(x.startsWith "_"))
  by_cases hlen : vars.length = 1
  · obtain ⟨a, ha⟩ := List.length_eq_one_iff.mp hlen
    subst ha
    rw [perm_singleton_eq h₁, perm_singleton_eq h₂]
  · unfold popAssignWith
    simp only [hlen, if_false, hs]
    have hps := sortStr_perm hpub
    have hl := hpub.length_eq
    have he : (it₁.filter fun x => !(x.startsWith "_")).isEmpty = (it₂.filter fun x => !(x.startsWith "_")).isEmpty := by
      apply Bool.eq_iff_iff.mpr
      rw [List.isEmpty_iff_length_eq_zero, List.isEmpty_iff_length_eq_zero, hl]
    by_cases h1 : (it₁.filter fun x => !(x.startsWith "_")).length = 1
    · obtain ⟨a, ha⟩ := List.length_eq_one_iff.mp h1
      have hb : (it₂.filter fun x => !(x.startsWith "_")) = [a] := perm_singleton_eq (ha ▸ hpub.symm)
      rw [ha, hb]
    · have h2 : ¬ (it₂.filter fun x => !(x.startsWith "_")).length = 1 := hl ▸ h1
      simp only [h1, h2, if_false, hps, he]

theorem pullDeps_perm {f g : List String → List String} (hf : ∀ l, (f l).Perm l) (hg : ∀ l, (g l).Perm l)
    (st : CgState) (fs ts : List String) : pullDeps f st fs ts = pullDeps g st fs ts := by
  unfold pullDeps
  rw [sortStr_perm ((hf fs).trans (hg fs).symm), sortStr_perm ((hf ts).trans (hg ts).symm)]

theorem cg_spec {o₁ o₂ : Chooser} (h₁ : o₁.Valid) (h₂ : o₂.Valid) (code : Code) :
    ∀ (p : List Nat) (fl : Flags) (chain : List Sym) (st : CgState),
      cg o₁ p fl chain st code = cg o₂ p fl chain st code := by
  induction code with
  | done => intro p fl chain st; rfl
  | derive k ih =>
    intro p fl chain st
    simp only [cg, dumpLocalContext]
    rw [ih, dumpStores_perm (h₁ p) (h₂ p)]
  | assign names k ih =>
    intro p fl chain st
    simp only [cg, popAssign]
    rw [ih, popAssignWith_perm fl chain (h₁ p _) (h₂ p _)]
  | deps fs ts k ih =>
    intro p fl chain st
    simp only [cg]
    rw [pullDeps_perm (h₁ p) (h₂ p), ih]
  | frame fl' a body k ihb ihk =>
    intro p fl chain st
    simp only [cg]
    rw [(analyze_spec h₁ h₂ chain a (1 :: p) _ (wf_empty _)).1, ihb, ihk]

end JinjaV.Symbols
